TR = 'phylib/io/traces.py'
A = 'phylib/io/array.py'
T = 'phylib/io/traces.py'
BREAKING = [
    ('compressed: batches no longer look one chunk behind at the start', TR, "            first_chunk = max(first_chunk - 1, 0)\n", "            first_chunk = max(first_chunk, 0)\n", ['C16.P2']),
    ('compressed: batch end not shortened', TR, "            last_chunk = max(first_chunk, last_chunk - 1)\n", "            last_chunk = max(first_chunk, last_chunk)\n", ['C16.P2']),
    ('compressed: final chunk never yielded', TR, "        yield reader.chunk_bounds[last_chunk], reader.chunk_bounds[last_chunk + 1]\n", "", ['C16.P2']),
    ('compressed: final interval two chunks long', TR, "        yield reader.chunk_bounds[last_chunk], reader.chunk_bounds[last_chunk + 1]\n", "        yield reader.chunk_bounds[last_chunk - 1], reader.chunk_bounds[last_chunk + 1]\n", ['C16.P2']),
    ('compressed: batch start uses batch index only', TR, "            first_chunk = reader.batch_size * batch  # first included", "            first_chunk = batch  # first included", ['C16.P2']),
    ('keep_start not chained', A, "        keep_start = keep_end\n        keep_end = s_end - overlap // 2\n        if s_start < s_end:", "        keep_start = s_start + overlap // 2\n        keep_end = s_end - overlap // 2\n        if s_start < s_end:", ['C16.S1']),
    ('last keep_end short', A, "    keep_start = keep_end\n    keep_end = s_end\n    if s_start < s_end:", "    keep_start = keep_end\n    keep_end = s_end - overlap // 2\n    if s_start < s_end:", ['C16.S1']),
    ('last keep_start not chained', A, "    keep_start = keep_end\n    keep_end = s_end\n    if s_start < s_end:", "    keep_start = s_start\n    keep_end = s_end\n    if s_start < s_end:", ['C16.S1']),
    ('chunk too long', A, "        s_start = s_end - overlap\n        s_end = s_start + chunk_size\n", "        s_start = s_end - overlap\n        s_end = s_start + chunk_size + overlap\n", ['C16.S1']),
    ('gap between chunks', A, "        s_start = s_end - overlap\n        s_end = s_start + chunk_size\n", "        s_start = s_end + overlap\n        s_end = s_start + chunk_size\n", ['C16.S1']),
    ('first chunk keeps from overlap', A, "    keep_start = s_start\n    keep_end = s_end - overlap // 2\n    yield", "    keep_start = s_start + overlap // 2\n    keep_end = s_end - overlap // 2\n    yield", ['C16.S1']),
    ('tail dropped', A, "    s_start = s_end - overlap\n    s_end = n_samples\n    keep_start = keep_end\n    keep_end = s_end\n    if s_start < s_end:\n        yield s_start, s_end, keep_start, keep_end\n", "", ['C16.S1']),
    ('keep_end beyond chunk', A, "        keep_start = keep_end\n        keep_end = s_end - overlap // 2\n        if s_start < s_end:", "        keep_start = keep_end\n        keep_end = s_end + overlap // 2\n        if s_start < s_end:", ['C16.S1']),
    ('excerpts overlap', A, "    step = max((n_samples - excerpt_size) // (n_excerpts - 1),\n               excerpt_size)", "    step = (n_samples - excerpt_size) // (n_excerpts - 1)", ['C16.S2']),
    ('excerpt too long', A, "        end = min(start + excerpt_size, n_samples)", "        end = min(start + excerpt_size + 1, n_samples)", ['C16.S2']),
    ('excerpt out of bounds', A, "        end = min(start + excerpt_size, n_samples)", "        end = start + excerpt_size", ['C16.S2']),
    ('too many excerpts', A, "    for i in range(n_excerpts):\n        start = i * step", "    for i in range(n_excerpts + 1):\n        start = i * step", ['C16.S2']),
    ('short data not returned whole', A, "    if len(data) < n_excerpts * excerpt_size:\n        return data", "    if len(data) < excerpt_size:\n        return data", ['C16.S2']),
    ('data_chunk uses overlap bounds', A, "        if with_overlap:\n            i, j = chunk[:2]\n        else:\n            i, j = chunk[2:]", "        if with_overlap:\n            i, j = chunk[2:]\n        else:\n            i, j = chunk[:2]", ['C16.S2']),
    ('iter_chunks skips pairs', T, "        for i0, i1 in zip(self.chunk_bounds[:-1], self.chunk_bounds[1:]):\n            yield i0, i1", "        for i0, i1 in zip(self.chunk_bounds[:-1:2], self.chunk_bounds[1::2]):\n            yield i0, i1", ['C16.P1']),
    ('iter_chunks swapped', T, "        for i0, i1 in zip(self.chunk_bounds[:-1], self.chunk_bounds[1:]):\n            yield i0, i1", "        for i0, i1 in zip(self.chunk_bounds[:-1], self.chunk_bounds[1:]):\n            yield i1, i0", ['C16.P1']),
    ('file boundary not appended', T, "        if b[-1] != n + arr_size:\n            b.append(n + arr_size)\n", "", ['C16.S3']),
    ('running total off', T, "        n += arr_size\n    return b", "        n += arr_size + 1\n    return b", ['C16.S3']),
    ('grid step wrong', T, "        ch = list(range(n, n + arr_size + 1, chunk_size))", "        ch = list(range(n, n + arr_size + 1, chunk_size + 1))", ['C16.S3']),
    ('grid excludes end', T, "        ch = list(range(n, n + arr_size + 1, chunk_size))", "        ch = list(range(n, n + arr_size - 1, chunk_size))", ['C16.S3']),
    ('duplicate bound kept', T, "        if b and ch and ch[0] == b[-1]:\n            ch = ch[1:]\n", "", ['C16.S3']),
]
EQUIVALENT = [
    ('compressed: look-behind spelled as a conditional', TR, "            first_chunk = max(first_chunk - 1, 0)\n", "            first_chunk = first_chunk - 1 if first_chunk > 0 else 0\n"),
    ('compressed: yield through temporaries', TR, "            yield reader.chunk_bounds[first_chunk], reader.chunk_bounds[last_chunk]\n", "            i0, i1 = reader.chunk_bounds[first_chunk], reader.chunk_bounds[last_chunk]\n            yield i0, i1\n"),
    ('rename + temps', A, "        s_start = s_end - overlap\n        s_end = s_start + chunk_size\n        keep_start = keep_end\n        keep_end = s_end - overlap // 2\n", "        s_start = s_end - overlap\n        s_end = chunk_size + s_start\n        keep_start = keep_end\n        half = overlap // 2\n        keep_end = s_end - half\n"),
    ('while condition rearranged', A, "    while s_end - overlap + chunk_size < n_samples:", "    while n_samples > s_end + chunk_size - overlap:"),
    ('excerpt end via min order', A, "        end = min(start + excerpt_size, n_samples)", "        end = min(n_samples, excerpt_size + start)"),
    ('excerpt break form', A, "        if start >= n_samples:\n            break\n", "        if not start < n_samples:\n            break\n"),
    ('iter_chunks index form', T, "        for i0, i1 in zip(self.chunk_bounds[:-1], self.chunk_bounds[1:]):\n            yield i0, i1", "        for i in range(len(self.chunk_bounds) - 1):\n            yield self.chunk_bounds[i], self.chunk_bounds[i + 1]"),
    ('total then append', T, "        if b[-1] != n + arr_size:\n            b.append(n + arr_size)\n        n += arr_size\n", "        n += arr_size\n        if b[-1] != n:\n            b.append(n)\n"),
]
BREAKING.append(('generator stops after a first chunk that covers the data', A, "    yield s_start, s_end, keep_start, keep_end\n\n    while", "    yield s_start, s_end, keep_start, keep_end\n    if s_end >= n_samples:\n        return\n\n    while", ['C16.S1']))
