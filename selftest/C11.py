G = 'phylib/io/merge.py'
BREAKING = [
    ('unstable sort', G, "    spike_order = np.argsort(spike_times_concat, kind='stable')", "    spike_order = np.argsort(spike_times_concat)", ['C11.A1']),
    ('quicksort', G, "    spike_order = np.argsort(spike_times_concat, kind='stable')", "    spike_order = np.argsort(spike_times_concat, kind='quicksort')", ['C11.A1']),
    ('descending order', G, "    spike_order = np.argsort(spike_times_concat, kind='stable')", "    spike_order = np.argsort(-spike_times_concat, kind='stable')", ['C11.A1']),
    ('arrays not permuted', G, "    return spike_array_concat[spike_order]", "    return spike_array_concat", ['C11.A1']),
    ('reverse concatenation', G, "    return [np.load(str(subdir / fn)).squeeze() for subdir in subdirs]", "    return [np.load(str(subdir / fn)).squeeze() for subdir in subdirs[::-1]]", ['C11.A1']),
    ('amplitudes permuted by another order', G, "            concat = _load_multiple_spike_arrays(*arrays, spike_order=self.spike_order)\n            self._save(fn, concat)", "            concat = _load_multiple_spike_arrays(*arrays, spike_order=np.argsort(self.spike_order))\n            self._save(fn, concat)", ['C11.A1']),
    ('clusters saved unpermuted', G, "        spike_clusters = _load_multiple_spike_arrays(\n            *spike_clusters_l, spike_order=self.spike_order)", "        spike_clusters = _concat(spike_clusters_l)", ['C11.A1']),
    ('offset after shift (max of shifted)', G, "            n_clu = np.max(sc) + 1\n            n_tmp = np.max(st) + 1\n            sc += coffset\n            st += toffset\n", "            sc += coffset\n            st += toffset\n            n_clu = np.max(sc) + 1\n            n_tmp = np.max(st) + 1\n", ['C11.S1']),
    ('offset without +1', G, "            n_clu = np.max(sc) + 1", "            n_clu = np.max(sc)", ['C11.S1']),
    ('cluster offset uses template count', G, "            coffset += n_clu\n            toffset += n_tmp", "            coffset += n_tmp\n            toffset += n_tmp", ['C11.S1']),
    ('templates shifted by cluster offset', G, "            st += toffset\n", "            st += coffset\n", ['C11.S1']),
    ('shift not in place', G, "            sc += coffset\n", "            sc = sc + coffset\n", ['C11.S1']),
    ('recorded offset is next offset', G, "            self.cluster_offsets.append(coffset)\n            self.template_offsets.append(toffset)\n            cluster_probes_l.append(i * np.ones(n_clu, dtype=np.int32))\n            coffset += n_clu\n            toffset += n_tmp",
     "            cluster_probes_l.append(i * np.ones(n_clu, dtype=np.int32))\n            coffset += n_clu\n            toffset += n_tmp\n            self.cluster_offsets.append(coffset)\n            self.template_offsets.append(toffset)", ['C11.S1']),
    ('probe label i+1', G, "            cluster_probes_l.append(i * np.ones(n_clu, dtype=np.int32))", "            cluster_probes_l.append((i + 1) * np.ones(n_clu, dtype=np.int32))", ['C11.S1']),
    ('probe block length by templates', G, "            cluster_probes_l.append(i * np.ones(n_clu, dtype=np.int32))", "            cluster_probes_l.append(i * np.ones(n_tmp, dtype=np.int32))", ['C11.S1']),
    ('metadata keyed with template offsets', G, "            for subdir, offset in zip(self.subdirs, self.cluster_offsets):", "            for subdir, offset in zip(self.subdirs, self.template_offsets):", ['C11.S1']),
    ('metadata keys not shifted', G, "                    metadata[k + offset] = v", "                    metadata[k] = v", ['C11.S1']),
    ('inputs memory mapped writable', G, "    return [np.load(str(subdir / fn)).squeeze() for subdir in subdirs]", "    return [np.load(str(subdir / fn), mmap_mode='r+').squeeze() for subdir in subdirs]", ['C11.F1']),
    ('renumbered clusters saved back to inputs', G, "            coffset += n_clu\n            toffset += n_tmp", "            coffset += n_clu\n            toffset += n_tmp\n            np.save(subdir / 'spike_clusters.npy', sc)", ['C11.F1']),
    ('params written next to first input', G, "        write_python(self.out_dir / 'params.py', params_merged)", "        write_python(self.subdirs[0] / 'params.py', params_merged)", ['C11.F1']),
    ('offset accumulators start at 1', G, "        coffset = 0\n        toffset = 0", "        coffset = 1\n        toffset = 0", ['C11.S1']),
    ('spike order from first probe only', G, "        spike_times, self.spike_order = _load_multiple_spike_times(*spike_times_l)", "        spike_times, self.spike_order = _load_multiple_spike_times(*spike_times_l[:1])", ['C11.A1']),
]
EQUIVALENT = [
    ('mergesort', G, "    spike_order = np.argsort(spike_times_concat, kind='stable')", "    spike_order = np.argsort(spike_times_concat, kind='mergesort')"),
    ('max method', G, "            n_clu = np.max(sc) + 1", "            n_clu = sc.max() + 1"),
    ('larger gaps', G, "            coffset += n_clu\n", "            coffset += n_clu + 10\n"),
    ('names', G, "            n_clu = np.max(sc) + 1\n            n_tmp = np.max(st) + 1\n            sc += coffset\n            st += toffset\n", "            n_clu = 1 + np.max(sc)\n            n_tmp = 1 + np.max(st)\n            st += toffset\n            sc += coffset\n"),
]
BREAKING.append(('metadata offsets zipped with the probes that have the file', 'phylib/io/merge.py', "            for subdir, offset in zip(self.subdirs, self.cluster_offsets):\n                try:\n                    field_name, metadata_loc = _read_tsv_simple(subdir / fn)\n                except ValueError:\n                    # Skipping non-existing file.\n                    continue\n", "            paths = [subdir / fn for subdir in self.subdirs if (subdir / fn).exists()]\n            for path, offset in zip(paths, self.cluster_offsets):\n                field_name, metadata_loc = _read_tsv_simple(path)\n", ['C11.S1']))
BREAKING.append(('probe directories merged in reverse order', G, "        self.subdirs = [Path(subdir) for subdir in subdirs]", "        self.subdirs = [Path(subdir) for subdir in subdirs][::-1]", ['C11.A1']))
BREAKING.append(('probe directories de-duplicated through a set', G, "        self.subdirs = [Path(subdir) for subdir in subdirs]", "        self.subdirs = list({Path(subdir) for subdir in subdirs})", ['C11.A1']))
EQUIVALENT.append(('probe directories through map', G, "        self.subdirs = [Path(subdir) for subdir in subdirs]", "        self.subdirs = list(map(Path, subdirs))"))
EQUIVALENT.append(('identity order when neighbours are ordered', G, "    # We sort by increasing time.\n", "    if np.all(spike_times_concat[1:] >= spike_times_concat[:-1]):\n        return spike_times_concat, np.arange(spike_times_concat.shape[0])\n"))
BREAKING.append(('identity order when unsigned differences look non-negative', G, "    # We sort by increasing time.\n", "    if (np.diff(spike_times_concat) >= 0).all():\n        return spike_times_concat, np.arange(len(spike_times_concat))\n", ['C11.A1']))
