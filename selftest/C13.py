A = 'phylib/io/alf.py'
M = 'phylib/io/model.py'
BREAKING = [
    ('guard removed', A, "        if self.out_path.resolve() == self.dir_path.resolve():\n            raise IOError(\"The source and target directories cannot be the same.\")\n", "", ['C13.P1']),
    ('guard after mkdir and first writes', A, "        if self.out_path.resolve() == self.dir_path.resolve():\n            raise IOError(\"The source and target directories cannot be the same.\")\n        if not self.out_path.exists():\n            self.out_path.mkdir()\n",
     "        if not self.out_path.exists():\n            self.out_path.mkdir()\n        if self.out_path.resolve() == self.dir_path.resolve():\n            raise IOError(\"The source and target directories cannot be the same.\")\n", ['C13.P1']),
    ('copy direction reversed', A, "            _copy_if_possible(f0, f1, force=force)", "            _copy_if_possible(f1, f0, force=force)", ['C13.F1']),
    ('move instead of copy', A, "    shutil.copy(path, new_path)", "    shutil.move(path, new_path)", ['C13.F1']),
    ('extra delete', A, "FILE_DELETES = [\n    'temp_wh.dat',", "FILE_DELETES = [\n    'temp_wh.dat',\n    'pc_features.npy',", ['C13.F1']),
    ('amps saved in source', A, "        amps_path = self.dir_path / 'clusters.amps.npy'\n        self._save_npy(amps_path.name, camps * self.ampfactor)", "        amps_path = self.dir_path / 'clusters.amps.npy'\n        np.save(amps_path, camps * self.ampfactor)", ['C13.F1']),
    ('rawInd written into source', A, "        self._save_npy(rawInd_path.name, rawInd)", "        np.save(rawInd_path, rawInd)", ['C13.F1']),
    ('squeezed copy overwrites source', A, "                    np.save(f1, d.squeeze())", "                    np.save(f0, d.squeeze())", ['C13.F1']),
    ('times and samples swapped', A, "        self._save_npy('spikes.times.npy', self.model.spike_times)\n        self._save_npy('spikes.samples.npy', self.model.spike_samples)", "        self._save_npy('spikes.times.npy', self.model.spike_samples)\n        self._save_npy('spikes.samples.npy', self.model.spike_times)", ['C13.U1']),
    ('samples file renamed', A, "        self._save_npy('spikes.samples.npy', self.model.spike_samples)", "        self._save_npy('spikes.sample.npy', self.model.spike_samples)", ['C13.T1']),
    ('clusters copy renamed', A, "    ('spike_clusters.npy', 'spikes.clusters.npy', True),", "    ('spike_clusters.npy', 'spikes.cluster.npy', True),", ['C13.T1']),
    ('templates copied as clusters', A, "    ('spike_templates.npy', 'spikes.templates.npy', True),", "    ('spike_clusters.npy', 'spikes.templates.npy', True),", ['C13.T1']),
    ('label pattern lost', A, "        glob_patterns = ['channels.*', 'clusters.*', 'spikes.*', 'templates.*']", "        glob_patterns = ['channels.*', 'clusters.*', 'spikes.*']", ['C13.T1']),
    ('label appended after extension', A, "                f.rename(f.with_suffix(f'.{self.label}{f.suffix}'))", "                f.rename(f.with_suffix(f'{f.suffix}.{self.label}'))", ['C13.T1']),
    ('rename before copy', A, "            self.copy_files(force=force)\n            bar.update(10)\n            self.rename_with_label()", "            self.rename_with_label()\n            bar.update(10)\n            self.copy_files(force=force)", ['C13.T1']),
    ('compression misses labelled files', A, "            fn = next(self.out_path.glob(f'spikes.{attribute}.*npy'))", "            fn = next(self.out_path.glob(f'spikes.{attribute}.npy'))", ['C13.T1']),
    ('F14 reverted', M, "        nan_idx = np.array(\n            [idx for idx, val in inverse_mapping_dict.items() if len(val) == 0], dtype=np.int64)", "        nan_idx = np.array([idx for idx, val in inverse_mapping_dict.items() if len(val) == 0])", ['C13.H1']),
    ('uuids per template', A, "        uuid_list.extend([str(uuid.uuid4()) for _ in range(camps.size)])", "        uuid_list.extend([str(uuid.uuid4()) for _ in range(self.model.n_templates)])", ['C13.U1']),
    ('params not copied', A, "    ('params.py', 'params.py', None),\n", "", ['C13.T1']),
    ('loader pattern for rawInd changed', M, "        path = self._find_path('channel_map.npy', 'channels.rawInd*.npy')", "        path = self._find_path('channel_map.npy', 'channels.rawind*.npy')", ['C13.T1']),
    ('subset export into output breaks source reload', A, "                NSAMPLE_WAVEFORMS, sample2unit=self.ampfactor)", "                NSAMPLE_WAVEFORMS, sample2unit=self.ampfactor)\n            shutil.rmtree(self.dir_path / '.phy', ignore_errors=True)", ['C13.F1']),
]
EQUIVALENT = [
    ('samefile guard order', A, "        if self.out_path.resolve() == self.dir_path.resolve():", "        if self.dir_path.resolve() == self.out_path.resolve():"),
    ('label via percent format', A, "                f.rename(f.with_suffix(f'.{self.label}{f.suffix}'))", "                f.rename(f.with_suffix('.%s%s' % (self.label, f.suffix)))"),
    ('copy2', A, "    shutil.copy(path, new_path)", "    shutil.copy2(path, new_path)"),
]
BREAKING.append(('rawInd relative to the lowest raw channel', 'phylib/io/alf.py', "        channel_offset = 0\n", "        channel_offset = np.min(self.model.channel_mapping)\n", ['C13.U2']))
