A = 'phylib/io/alf.py'
M = 'phylib/io/model.py'
G = 'phylib/io/merge.py'
BREAKING = [
    ('F13 reverted', A, "            channel_offset = np.max(self.model.channel_mapping[ind])", "            channel_offset += np.max(self.model.channel_mapping[ind])", ['C14.S1']),
    ('rawInd offset not subtracted', A, "            rawInd[ind] = self.model.channel_mapping[ind] - channel_offset", "            rawInd[ind] = self.model.channel_mapping[ind]", ['C14.S1']),
    ('rawInd offset added', A, "            rawInd[ind] = self.model.channel_mapping[ind] - channel_offset", "            rawInd[ind] = self.model.channel_mapping[ind] + channel_offset", ['C14.S1']),
    ('merger offset changed alone', G, "            offset = array.max()\n", "            offset = array.max() + 1\n", ['C14.S1']),
    ('probes in reverse order', A, "        for probe in np.unique(self.model.channel_probes):", "        for probe in np.unique(self.model.channel_probes)[::-1]:", ['C14.S1']),
    ('unit factor missing on spikes', A, "        spike_amps, templates_v, template_amps = self.model.get_amplitudes_true(self.ampfactor,\n                                                                                use='templates')", "        spike_amps, templates_v, template_amps = self.model.get_amplitudes_true(1.,\n                                                                                use='templates')", ['C14.U2', 'C14.U1']),
    ('cluster amps from templates', A, "            np.save(self.out_path.joinpath('clusters.amps'), cluster_amps)", "            np.save(self.out_path.joinpath('clusters.amps'), template_amps)", ['C14.U2']),
    ('cluster waveforms from template table', A, "                templates[t, ...] = clusters_v[t, :][:, templates_inds[t, :]]", "                templates[t, ...] = templates_v[t, :][:, templates_inds[t, :]]", ['C14.U1']),
    ('cluster peak channels from templates', A, "                channels = self.model.clusters_channels\n", "                channels = self.model.templates_channels\n", ['C14.U1']),
    ('descending distance', A, "                templates_inds[t, :] = np.argsort(channel_distance)[:ncw]\n                templates[t, ...] = templates_v", "                templates_inds[t, :] = np.argsort(-channel_distance)[:ncw]\n                templates[t, ...] = templates_v", ['C14.U1']),
    ('other probes not excluded', A, "                channel_distance[self.model.channel_probes != current_probe] += np.inf\n                templates_inds[t, :] = np.argsort(channel_distance)[:ncw]\n                templates[t, ...] = templates_v", "                templates_inds[t, :] = np.argsort(channel_distance)[:ncw]\n                templates[t, ...] = templates_v", ['C14.U1']),
    ('same probe pushed away', A, "                channel_distance[self.model.channel_probes != current_probe] += np.inf\n                templates_inds[t, :] = np.argsort(channel_distance)[:ncw]\n                templates[t, ...] = templates_v", "                channel_distance[self.model.channel_probes == current_probe] += np.inf\n                templates_inds[t, :] = np.argsort(channel_distance)[:ncw]\n                templates[t, ...] = templates_v", ['C14.U1']),
    ('columns from another row', A, "                templates[t, ...] = templates_v[t, :][:, templates_inds[t, :]]", "                templates[t, ...] = templates_v[t, :][:, templates_inds[0, :]]", ['C14.U1']),
    ('whitened waveforms exported', M, "            templates_wfs[n, :, :] = np.matmul(sparse.data[n, :, :], self.wmi)", "            templates_wfs[n, :, :] = sparse.data[n, :, :]", ['C14.U1', 'C14.U2']),
    ('durations not blanked', A, "            waveform_duration[self.model.nan_idx] = np.nan\n", "", ['C14.U2']),
    ('durations of templates', A, "            waveform_duration = self.model.clusters_waveforms_durations", "            waveform_duration = self.model.templates_waveforms_durations", ['C14.U2']),
    ('cluster depths use x', A, "        clusters_depths = channel_positions[cluster_channels, 1]", "        clusters_depths = channel_positions[cluster_channels, 0]", ['C14.U2']),
    ('spike depths by template', A, "            spikes_depths = clusters_depths[spike_clusters]", "            spikes_depths = clusters_depths[self.model.spike_templates]", ['C14.U2']),
    ('depth fallback inverted', A, "        if self.model.sparse_features is None:\n            spikes_depths = clusters_depths[spike_clusters]\n        else:\n            spikes_depths = self.model.get_depths()", "        if self.model.sparse_features is not None:\n            spikes_depths = clusters_depths[spike_clusters]\n        else:\n            spikes_depths = self.model.get_depths()", ['C14.U2']),
    ('depths not blanked', A, "        clusters_depths[self.model.nan_idx] = np.nan\n", "", ['C14.U2']),
    ('camps without factor', A, "        self._save_npy(amps_path.name, camps * self.ampfactor)", "        self._save_npy(amps_path.name, camps)", ['C14.U2']),
    ('milliseconds dropped', M, "        return durations.flatten()[ind].astype(np.float64) / self.sample_rate * 1e3", "        return durations.flatten()[ind].astype(np.float64) / self.sample_rate", ['C14.U2']),
]
EQUIVALENT = [
    ('offset via max method', A, "            channel_offset = np.max(self.model.channel_mapping[ind])", "            channel_offset = self.model.channel_mapping[ind].max()"),
    ('both recurrences changed consistently', A, "            channel_offset = np.max(self.model.channel_mapping[ind])", "            channel_offset = np.max(self.model.channel_mapping[ind]) + 0"),
]
BREAKING.append(('rawInd relative to the lowest raw channel', 'phylib/io/alf.py', "        channel_offset = 0\n", "        channel_offset = np.min(self.model.channel_mapping)\n", ['C14.S1']))
BREAKING.append(('cluster waveforms: unweighted mean of the templates (model side)', 'phylib/io/model.py', '        mean_waveforms = np.average(waveforms, axis=0, weights=count)', '        mean_waveforms = np.mean(waveforms, axis=0)', ['C14.M1']))
BREAKING.append(('cluster waveforms: dominant template taken as a position in the compacted table', 'phylib/io/model.py', '        best_template = np.argmax(count)\n        template_ids = np.nonzero(count)[0]\n        count = count[template_ids]', '        template_ids = np.nonzero(count)[0]\n        count = count[template_ids]\n        best_template = np.argmax(count)', ['C14.M1']))
