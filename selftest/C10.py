M = 'phylib/io/model.py'
U = 'phylib/utils/_misc.py'
BREAKING = [
    ('save_metadata also rewrites cluster file', M, "        save_metadata(\n            path, name, {c: v for c, v in values.items() if v is not None})", "        save_metadata(\n            path, name, {c: v for c, v in values.items() if v is not None})\n        np.save(self.dir_path / 'spike_clusters.npy', self.spike_clusters)", ['C10.F1']),
    ('save_spike_clusters writes templates too', M, "        np.save(path, spike_clusters)\n", "        np.save(path, spike_clusters)\n        np.save(self.dir_path / 'spike_templates.npy', spike_clusters)\n", ['C10.F1']),
    ('save_spike_clusters saves model copy', M, "        np.save(path, spike_clusters)\n", "        np.save(path, self.spike_clusters)\n", ['C10.T1']),
    ('saved to other name', M, "        path = self.dir_path / ('cluster_%s.tsv' % name)", "        path = self.dir_path / ('clusters_%s.tsv' % name)", ['C10.F1']),
    ('saved as txt', M, "        path = self.dir_path / ('cluster_%s.tsv' % name)", "        path = self.dir_path / ('cluster_%s.txt' % name)", ['C10.F1', 'C10.T1']),
    ('loader globs only csv', M, "        files = list(self.dir_path.glob('*.csv'))\n        files.extend(self.dir_path.glob('*.tsv'))", "        files = list(self.dir_path.glob('*.csv'))", ['C10.T1']),
    ('loader excludes more', M, "        excluded_names = ('cluster_info',)", "        excluded_names = ('cluster_info', 'cluster_group')", ['C10.T1']),
    ('handler removed', M, "            try:\n                for field, data in load_metadata(filename).items():\n                    metadata[field] = data\n            except Exception as e:\n                logger.warning(\"Error when reading %s: %s.\", filename.name, str(e))\n                continue",
     "            for field, data in load_metadata(filename).items():\n                metadata[field] = data", ['C10.P1']),
    ('handler narrowed', M, "            except Exception as e:\n                logger.warning(\"Error when reading %s: %s.\", filename.name, str(e))\n                continue", "            except IOError as e:\n                logger.warning(\"Error when reading %s: %s.\", filename.name, str(e))\n                continue", ['C10.P1']),
    ('handler re-raises', M, "                logger.warning(\"Error when reading %s: %s.\", filename.name, str(e))\n                continue", "                logger.warning(\"Error when reading %s: %s.\", filename.name, str(e))\n                raise", ['C10.P1']),
    ('None written', M, "            path, name, {c: v for c, v in values.items() if v is not None})", "            path, name, {c: v for c, v in values.items()})", ['C10.D1']),
    ('falsy dropped', M, "            path, name, {c: v for c, v in values.items() if v is not None})", "            path, name, {c: v for c, v in values.items() if v})", ['C10.D1']),
    ('header key renamed in writer', U, "        writer.writerow(['cluster_id', field_name])", "        writer.writerow(['id', field_name])", ['C10.T1']),
    ('cluster save priority differs', M, "        path = self._find_path('spike_clusters.npy', 'spikes.clusters.npy', multiple_ok=False)", "        path = self._find_path('spikes.clusters.npy', 'spike_clusters.npy', multiple_ok=False)", ['C10.T1']),
    ('subset channels saved under spikes name', M, "        path_spikes = self.dir_path / '_phy_spikes_subset.spikes.npy'\n        path_channels = self.dir_path / '_phy_spikes_subset.channels.npy'\n\n        # Subselection", "        path_spikes = self.dir_path / '_phy_spikes_subset.channels.npy'\n        path_channels = self.dir_path / '_phy_spikes_subset.spikes.npy'\n\n        # Subselection", ['C10.T1']),
    ('subset loaded when one file missing', M, "        if not path.exists() or not path_channels.exists() or not path_spikes.exists():", "        if not path.exists():", ['C10.T1']),
    ('close flushes clusters', M, "        for k, v in sorted(self.__dict__.items(), key=itemgetter(0)):\n            _close_memmap(k, v)", "        for k, v in sorted(self.__dict__.items(), key=itemgetter(0)):\n            _close_memmap(k, v)\n        np.save(self.dir_path / 'spike_clusters.npy', self.spike_clusters)", ['C10.F1']),
    ('first row wins', M, "                    out[field][cluster_id] = value", "                    out[field].setdefault(cluster_id, value)", ['C10.D1']),
    ('subset export deletes raw cache', M, "        # Reload spike waveforms.\n        self.spike_waveforms = self._load_spike_waveforms()", "        # Reload spike waveforms.\n        self.spike_waveforms = self._load_spike_waveforms()\n        for f in self.dir_path.glob('*.dat'):\n            f.unlink()", ['C10.F1']),
]
EQUIVALENT = [
    ('fstring name', M, "        path = self.dir_path / ('cluster_%s.tsv' % name)", "        path = self.dir_path / f'cluster_{name}.tsv'"),
    ('handler bare', M, "            except Exception as e:\n                logger.warning(\"Error when reading %s: %s.\", filename.name, str(e))\n                continue", "            except Exception:\n                logger.warning(\"Error when reading %s.\", filename.name)\n                continue"),
    ('save via str path', M, "        np.save(path, spike_clusters)\n", "        np.save(str(path), spike_clusters)\n"),
]
BREAKING.append(('cluster file created as a hard link', 'phylib/io/model.py', "            shutil.copy(tmp_path, path)", "            os.link(str(tmp_path), str(path))", ['C10.F2']))
