E = 'phylib/utils/event.py'
BREAKING = [
    ('F15 reverted: silent toggles', E, "        was_silent = self.is_silent\n        self.is_silent = True\n        try:\n            yield\n        finally:\n            self.is_silent = was_silent",
     "        self.is_silent = not(self.is_silent)\n        yield\n        self.is_silent = not(self.is_silent)", ['C19.P7']),
    ('silent does not restore', E, "        finally:\n            self.is_silent = was_silent", "        finally:\n            self.is_silent = False", ['C19.P7']),
    ('F16 reverted: reset does not re-arm', E, "        if self._value < self._value_max:\n            # The value is below the maximum again: a new completion can be announced.\n            self._has_completed = False\n", "", ['C19.R1']),
    ('emit before silent test', E, "        if self.is_silent:\n            return\n        sender_name", "        sender_name", ['C19.P1']),
    ('connect prepends', E, "        self._callbacks.append((event, sender, func, kwargs))", "        self._callbacks.insert(0, (event, sender, func, kwargs))", ['C19.P2']),
    ('connect prepends by concatenation', E, "        self._callbacks.append((event, sender, func, kwargs))", "        self._callbacks = [(event, sender, func, kwargs)] + self._callbacks", ['C19.P2']),
    ('last callbacks first', E, "        callbacks = [c for c in self._callbacks if not c[-1].get('last', None)]\n        callbacks += [c for c in self._callbacks if c[-1].get('last', None)]",
     "        callbacks = [c for c in self._callbacks if c[-1].get('last', None)]\n        callbacks += [c for c in self._callbacks if not c[-1].get('last', None)]", ['C19.P3']),
    ('last flag ignored', E, "        callbacks = [c for c in self._callbacks if not c[-1].get('last', None)]\n        callbacks += [c for c in self._callbacks if c[-1].get('last', None)]",
     "        callbacks = list(self._callbacks)", ['C19.P3']),
    ('sender filter dropped', E, "            if e == event and (s is None or s == sender):", "            if e == event:", ['C19.P3']),
    ('sender filter strict', E, "            if e == event and (s is None or s == sender):", "            if e == event and s == sender:", ['C19.P3']),
    ('sender filter inverted None', E, "(s is None or s == sender)", "(s is not None or s == sender)", ['C19.P3']),
    ('event filter dropped', E, "            if e == event and (s is None or s == sender):", "            if (s is None or s == sender):", ['C19.P3']),
    ('args reordered', E, "res.append(f(sender, *args, **kwargs))", "res.append(f(*args, sender, **kwargs))", ['C19.P3']),
    ('sender not passed', E, "res.append(f(sender, *args, **kwargs))", "res.append(f(*args, **kwargs))", ['C19.P3']),
    ('single returns list', E, "                if single:\n                    return res[-1]", "                if single:\n                    return res", ['C19.P3']),
    ('single calls all', E, "                if single:\n                    return res[-1]\n        return res", "        if single and res:\n            return res[0]\n        return res", ['C19.P3']),
    ('single returns last of all', E, "                if single:\n                    return res[-1]\n        return res", "        if single and res:\n            return res[-1]\n        return res", ['C19.P3']),
    ('single kept in kwargs', E, "single = kwargs.pop('single', None)", "single = kwargs.get('single', None)", ['C19.P3']),
    ('results reversed', E, "        return res\n\n\n#---", "        return res[::-1]\n\n\n#---", ['C19.P3']),
    ('results prepended', E, "res.append(f(sender, *args, **kwargs))", "res.insert(0, f(sender, *args, **kwargs))", ['C19.P3']),
    ('unconnect ignores senders', E, "            if f not in items and sender not in items and\n", "            if f not in items and\n", ['C19.P2']),
    ('unconnect reverses', E, "            for (event, sender, f, kwargs) in self._callbacks\n", "            for (event, sender, f, kwargs) in self._callbacks[::-1]\n", ['C19.P2']),
    ('unconnect removes others', E, "            if f not in items and sender not in items and", "            if f in items and sender not in items and", ['C19.P2']),
    ('reset keeps registry', E, "    def reset(self):\n        \"\"\"Remove all registered callbacks.\"\"\"\n        self._callbacks = []", "    def reset(self):\n        \"\"\"Remove all registered callbacks.\"\"\"\n        self._callbacks = self._callbacks[:1]", ['C19.P2']),
    ('entry layout swapped in connect only', E, "self._callbacks.append((event, sender, func, kwargs))", "self._callbacks.append((sender, event, func, kwargs))", ['C19.P3', 'C19.P2']),
    ('completion compared strictly', E, "        if not self._has_completed and self._value >= self._value_max:", "        if not self._has_completed and self._value > self._value_max:", ['C19.R1']),
    ('completion announced every time', E, "        if not self._has_completed and self._value >= self._value_max:", "        if self._value >= self._value_max:", ['C19.R1']),
    ('flag not set after announcing', E, "            emit('complete', self, **kwargs)\n            self._has_completed = True", "            emit('complete', self, **kwargs)", ['C19.R1']),
    ('re-arm on <= max', E, "        if value < self._value_max:\n            self._has_completed = False\n        self._value = value", "        if value <= self._value_max:\n            self._has_completed = False\n        self._value = value", ['C19.R1']),
    ('max raise does not re-arm', E, "        if value_max > self._value_max:\n            self._has_completed = False\n        self._value_max = value_max", "        self._value_max = value_max", ['C19.R1']),
    ('max change always re-arms', E, "        if value_max > self._value_max:\n            self._has_completed = False", "        if value_max != self._value_max:\n            self._has_completed = False", ['C19.R1']),
    ('increment by two', E, "        self._set_value(self._value + 1, **kwargs)", "        self._set_value(self._value + 2, **kwargs)", ['C19.R1']),
    ('set_complete sets flag without announcing', E, "        self._set_value(self.value_max, **kwargs)", "        self._value = self._value_max\n        self._has_completed = True", ['C19.R1']),
    ('value stored after comparison with stale value', E, "        self._value = value\n        emit('progress', self, self._value, self._value_max, **kwargs)\n        if not self._has_completed and self._value >= self._value_max:\n            emit('complete', self, **kwargs)\n            self._has_completed = True",
     "        emit('progress', self, value, self._value_max, **kwargs)\n        if not self._has_completed and self._value >= self._value_max:\n            emit('complete', self, **kwargs)\n            self._has_completed = True\n        self._value = value", ['C19.R1']),
]
EQUIVALENT = [
    ('emit: single loop with sorted partition', E, "        callbacks = [c for c in self._callbacks if not c[-1].get('last', None)]\n        callbacks += [c for c in self._callbacks if c[-1].get('last', None)]",
     "        first = [c for c in self._callbacks if not c[-1].get('last', None)]\n        second = [c for c in self._callbacks if c[-1].get('last', None)]\n        callbacks = first + second"),
    ('emit: nested ifs', E, "            if e == event and (s is None or s == sender):\n", "            if e != event:\n                continue\n            if s is None or s == sender:\n"),
    ('emit: index instead of unpack', E, "res.append(f(sender, *args, **kwargs))\n                if single:\n                    return res[-1]", "out = f(sender, *args, **kwargs)\n                res.append(out)\n                if single:\n                    return out"),
    ('connect: concatenation', E, "        self._callbacks.append((event, sender, func, kwargs))", "        self._callbacks = self._callbacks + [(event, sender, func, kwargs)]"),
    ('unconnect: loop form', E, """        self._callbacks = [
            (event, sender, f, kwargs)
            for (event, sender, f, kwargs) in self._callbacks
            if f not in items and sender not in items and
            getattr(f, '__self__', None) not in items]""", """        kept = []
        for entry in self._callbacks:
            event, sender, f, kwargs = entry
            if f in items or sender in items:
                continue
            if getattr(f, '__self__', None) in items:
                continue
            kept.append(entry)
        self._callbacks = kept"""),
    ('silent: no try', E, "        try:\n            yield\n        finally:\n            self.is_silent = was_silent", "        yield\n        self.is_silent = was_silent"),
    ('reporter: reversed comparison', E, "        if value < self._value_max:\n            self._has_completed = False\n        self._value = value", "        if self._value_max > value:\n            self._has_completed = False\n        self._value = value"),
    ('reporter: not below', E, "        if not self._has_completed and self._value >= self._value_max:", "        if not self._has_completed and not (self._value < self._value_max):"),
    ('reporter: set_complete via private', E, "        self._set_value(self.value_max, **kwargs)", "        self._set_value(self._value_max, **kwargs)"),
    ('reporter: reset via private max', E, "            self.value_max = value_max  # the setter re-arms when the maximum is raised", "            if value_max > self._value_max:\n                self._has_completed = False\n            self._value_max = value_max"),
]
BREAKING.append(('reset un-silences the emitter', E, "        \"\"\"Remove all registered callbacks.\"\"\"\n        self._callbacks = []", "        \"\"\"Remove all registered callbacks.\"\"\"\n        self._callbacks = []\n        self.is_silent = False", ['C19.P7']))
BREAKING.append(('connect un-silences the emitter', E, "        self._callbacks.append((event, sender, func, kwargs))", "        self.is_silent = False\n        self._callbacks.append((event, sender, func, kwargs))", ['C19.P7']))
EQUIVALENT.append(('flag initialised before the registry', E, "        self.reset()\n        self.is_silent = False", "        self.is_silent = False\n        self.reset()"))
