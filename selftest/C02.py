T = 'phylib/io/traces.py'
BREAKING = [
    ('shared ops list', T, "        clone._ops = list(self._ops)\n        clone._ops.append((op, arg))", "        clone._ops.append((op, arg))", ['C02.M1', 'C02.T2']),
    ('alias then append', T, "        clone._ops = list(self._ops)\n", "        clone._ops = self._ops\n", ['C02.M1']),
    ('in-place +=', T, "        clone._ops = list(self._ops)\n        clone._ops.append((op, arg))", "        clone._ops += [(op, arg)]", ['C02.M1']),
    ('no copy of reader', T, "        clone = copy.copy(self)\n", "        clone = self\n", ['C02.M1']),
    ('op prepended', T, "        clone._ops.append((op, arg))", "        clone._ops.insert(0, (op, arg))", ['C02.M1']),
    ('pair swapped', T, "        clone._ops.append((op, arg))", "        clone._ops.append((arg, op))", ['C02.M1']),
    ('F01 reverted', T, "                if isinstance(item[0], slice) and item[0] == slice(None, None, None):", "                if item[0] == slice(None, None, None):", ['C02.H1']),
    ('radd recorded as add', T, "        return self._append_op('radd', arg)", "        return self._append_op('add', arg)", ['C02.T2']),
    ('rsub recorded as sub', T, "        return self._append_op('rsub', arg)", "        return self._append_op('sub', arg)", ['C02.T2']),
    ('truediv recorded as floordiv', T, "        return self._append_op('truediv', arg)", "        return self._append_op('floordiv', arg)", ['C02.T2']),
    ('neg recorded as pos', T, "        return self._append_op('neg')", "        return self._append_op('pos')", ['C02.T2']),
    ('pow drops arg', T, "        return self._append_op('pow', arg)", "        return self._append_op('pow')", ['C02.T2']),
    ('rpow missing', T, "    def __rpow__(self, arg):\n        return self._append_op('rpow', arg)\n", "", ['C02.T1']),
    ('replay reversed', T, "        for op, arg in self._ops:\n            arr = _apply_op(op, arg, arr)", "        for op, arg in reversed(self._ops):\n            arr = _apply_op(op, arg, arr)", ['C02.T3']),
    ('replay not threaded', T, "        for op, arg in self._ops:\n            arr = _apply_op(op, arg, arr)\n        return arr", "        out = arr\n        for op, arg in self._ops:\n            out = _apply_op(op, arg, arr)\n        return out", ['C02.T3']),
    ('replay wrong dunder name', T, "    f = getattr(arr, '__%s__' % op)", "    f = getattr(arr, '__r%s__' % op)", ['C02.T3']),
    ('replay drops arg', T, "    return f(arg) if arg is not None else f()", "    return f()", ['C02.T3']),
    ('cols on rows', T, "    if op == 'cols':\n        return arr[:, arg]", "    if op == 'cols':\n        return arr[arg, :]", ['C02.T3']),
    ('cols applied before earlier ops', T, "                self = self._append_op('cols', cols)\n", "                self = self._append_op('cols', cols)\n                self._ops = self._ops[-1:] + self._ops[:-1]\n", ['C02.P2']),
    ('ops not replayed on read', T, "        out = np.vstack(to_concat)\n        return self._apply_ops(out)", "        out = np.vstack(to_concat)\n        return out", ['C02.P2']),
    ('clone returned for any rows', T, "                if isinstance(item[0], slice) and item[0] == slice(None, None, None):\n", "                if isinstance(item[0], slice):\n", ['C02.P2']),
    ('getitem mutates self ops', T, "                self = self._append_op('cols', cols)\n", "                self._ops.append(('cols', cols))\n", ['C02.P2']),
    ('non elementwise op', T, "    def __pos__(self):\n        return self._append_op('pos')", "    def __pos__(self):\n        return self._append_op('pos')\n\n    def __matmul__(self, arg):\n        return self._append_op('matmul', arg)", ['C02.T4']),
    ('parts in wrong arg order', T, "            to_concat.append(self._get_part(part_idx, subitem))", "            to_concat.append(self._get_part(subitem, part_idx))", ['C02.P2']),
]
EQUIVALENT = [
    ('slice copy', T, "        clone._ops = list(self._ops)\n        clone._ops.append((op, arg))", "        clone._ops = self._ops[:]\n        clone._ops.append((op, arg))"),
    ('concat form', T, "        clone._ops = list(self._ops)\n        clone._ops.append((op, arg))", "        clone._ops = self._ops + [(op, arg)]"),
    ('copy method', T, "        clone._ops = list(self._ops)\n", "        clone._ops = self._ops.copy()\n"),
    ('fstring dunder', T, "    f = getattr(arr, '__%s__' % op)", "    f = getattr(arr, f'__{op}__')"),
    ('concat dunder', T, "    f = getattr(arr, '__%s__' % op)", "    f = getattr(arr, '__' + op + '__')"),
    ('if statement replay', T, "    return f(arg) if arg is not None else f()", "    if arg is None:\n        return f()\n    return f(arg)"),
    ('getitem comprehension', T, "        to_concat = []\n        # Obtain the requested parts.\n        for part_idx, subitem in _get_subitems(self.part_bounds, item):\n            to_concat.append(self._get_part(part_idx, subitem))",
     "        to_concat = [self._get_part(part_idx, subitem) for part_idx, subitem in _get_subitems(self.part_bounds, item)]"),
]
BREAKING.append(('double negation cancelled by popping the shared list', 'phylib/io/traces.py', "    def __neg__(self):\n        return self._append_op('neg')", "    def __neg__(self):\n        if self._ops and self._ops[-1][0] == 'neg':\n            clone = copy.copy(self)\n            clone._ops.pop()\n            return clone\n        return self._append_op('neg')", ['C02.T2', 'C02.M1']))
EQUIVALENT.append(('double negation cancelled on a fresh list', 'phylib/io/traces.py', "    def __neg__(self):\n        return self._append_op('neg')", "    def __neg__(self):\n        if self._ops and self._ops[-1][0] == 'neg':\n            clone = copy.copy(self)\n            clone._ops = self._ops[:-1]\n            return clone\n        return self._append_op('neg')"))
