M = 'phylib/io/model.py'
T = 'phylib/io/traces.py'
BREAKING = [
    ('F05 reverted: templates mapped r+ and zeroed in place', M, "            data = self._read_array(path, mmap_mode='c')\n            data = np.atleast_3d(data)", "            data = self._read_array(path, mmap_mode='r+')\n            data = np.atleast_3d(data)", ['C04.F1']),
    ('F06 reverted', M, "            tmp_path = self._find_path('spike_templates.npy', 'spikes.templates*.npy')", "            tmp_path = self._find_path('spike_templates.npy', 'spikes.clusters*.npy')", ['C04.T2', 'C04.T1']),
    ('copy made unconditional', M, "        if path is None:\n            # Create spike_clusters file if it doesn't exist.\n            tmp_path = self._find_path('spike_templates.npy', 'spikes.templates*.npy')\n            path = self.dir_path / 'spike_clusters.npy'",
     "        if True:\n            # Create spike_clusters file if it doesn't exist.\n            tmp_path = self._find_path('spike_templates.npy', 'spikes.templates*.npy')\n            path = self.dir_path / 'spike_clusters.npy'", ['C04.F2']),
    ('wmi always rewritten', M, "        try:\n            self.wmi = self._load_wmi()\n        except IOError:\n            logger.debug(\"Whitening matrix inverse file not found, computing it.\")\n            self.wmi = self._compute_wmi(self.wm)",
     "        self.wmi = self._compute_wmi(self.wm)", ['C04.F2']),
    ('cache written on load', M, "        # Metadata.\n        self.metadata = self._load_metadata()", "        # Metadata.\n        self.metadata = self._load_metadata()\n        np.save(self.dir_path / 'n_spikes.npy', self.n_spikes)", ['C04.F1']),
    ('features mapped writable and sanitised in place', M, "            data = self._read_array(\n                self._find_path('pc_features.npy'), mmap_mode='r')\n", "            data = self._read_array(\n                self._find_path('pc_features.npy'), mmap_mode='r+')\n            data[np.isnan(data)] = 0\n", ['C04.F1']),
    ('scrub on read rewrites file via helper', M, "    if mmap_mode is None:\n        for w in ('nan', 'inf'):", "    if mmap_mode is None:\n        np.save(path, np.nan_to_num(out))\n        for w in ('nan', 'inf'):", ['C04.F1']),
    ('temp file removed on load', M, "        # Spike attributes.\n        self.spike_attributes = self._load_spike_attributes()", "        # Spike attributes.\n        self.spike_attributes = self._load_spike_attributes()\n        tmp = self.dir_path / 'temp_wh.dat'\n        if tmp.exists():\n            tmp.unlink()", ['C04.F1']),
    ('flat reader opened writable and offset removed in place', T, "            _memmap_flat(path, dtype=dtype, n_channels=n_channels, offset=offset, mode=mode)\n            for path in paths]", "            _memmap_flat(path, dtype=dtype, n_channels=n_channels, offset=offset, mode='r+')\n            for path in paths]\n        for m in self._mmaps:\n            m[0, :] = 0", ['C04.F1']),
    ('times multiplied', M, "            times = samples / self.sample_rate\n        else:", "            times = samples * self.sample_rate\n        else:", ['C04.U1']),
    ('alf samples divided', M, "samples = np.round(times * self.sample_rate).astype(np.uint64)", "samples = np.round(times / self.sample_rate).astype(np.uint64)", ['C04.U1']),
    ('alf samples not rounded', M, "samples = np.round(times * self.sample_rate).astype(np.uint64)", "samples = (times * self.sample_rate).astype(np.uint64)", ['C04.U1']),
    ('samples/times swapped', M, "        return samples, times\n", "        return times, samples\n", ['C04.U1']),
    ('channel map not applied', M, "            traces = traces[:, channel_map]  # lazy permutation on the channel axis", "            pass", ['C04.A1']),
    ('offset not forwarded', M, "            self.dat_path, n_channels_dat=n, dtype=self.dtype, offset=self.offset,", "            self.dat_path, n_channels_dat=n, dtype=self.dtype,", ['C04.A1']),
    ('inf not scrubbed', M, "        for w in ('nan', 'inf'):", "        for w in ('nan',):", ['C04.D1']),
    ('scrub on memmaps too', M, "    if mmap_mode is None:\n        for w in ('nan', 'inf'):", "    if True:\n        for w in ('nan', 'inf'):", ['C04.D1']),
    ('not squeezed', M, "        return read_array(path, mmap_mode=mmap_mode).squeeze()", "        return read_array(path, mmap_mode=mmap_mode)", ['C04.D1']),
    ('default shanks ones', M, "            logger.debug(\"No channel shank file found.\")\n            return np.zeros(self.n_channels, dtype=np.int32)", "            logger.debug(\"No channel shank file found.\")\n            return np.ones(self.n_channels, dtype=np.int32)", ['C04.D1']),
    ('default whitening zeros', M, "            self.wm = np.eye(nc)", "            self.wm = np.zeros((nc, nc))", ['C04.D1']),
    ('alf pattern in wrong loader', M, "        path = self._find_path('spike_templates.npy', 'spikes.templates*.npy')\n        out = self._read_array(path)\n        if out.dtype", "        path = self._find_path('spike_templates.npy', 'spikes.clusters*.npy')\n        out = self._read_array(path)\n        if out.dtype", ['C04.T1']),
    ('alf before ks', M, "        path = self._find_path('channel_map.npy', 'channels.rawInd*.npy')", "        path = self._find_path('channels.rawInd*.npy', 'channel_map.npy')", ['C04.T1']),
    ('monotonic check after clusters copy', M, "        # Make sure the spike times are increasing.\n        if not np.all(np.diff(self.spike_times) >= 0):\n            raise ValueError(\"The spike times must be increasing.\")\n", "", ['C04.P1']),
    ('strictly increasing required', M, "        if not np.all(np.diff(self.spike_times) >= 0):", "        if not np.all(np.diff(self.spike_times) > 0):", ['C04.P1']),
    ('wmi saved to parent via helper', M, "        self._write_array(self.dir_path / 'whitening_mat_inv.npy', wmi)", "        self._write_array(self.dir_path.parent / 'whitening_mat_inv.npy', wmi)", ['C04.F1']),
]
EQUIVALENT = [
    ('copy guard not exists', M, "        if path is None:\n            # Create spike_clusters", "        if path is None or not path.exists():\n            # Create spike_clusters"),
    ('np.any form of monotonic', M, "        if not np.all(np.diff(self.spike_times) >= 0):", "        if np.any(np.diff(self.spike_times) < 0):"),
    ('read mode explicit', M, "            cols = self._read_array(self._find_path('pc_feature_ind.npy'), mmap_mode='r')", "            cols = self._read_array(self._find_path('pc_feature_ind.npy'), mmap_mode='c')"),
    ('rate local', M, "            samples = self._read_array(path)\n            times = samples / self.sample_rate\n        else:", "            samples = self._read_array(path)\n            times = samples / self.sample_rate\n            assert times.ndim == 1\n        else:"),
]
BREAKING.append(('cluster file created as a hard link', 'phylib/io/model.py', "            shutil.copy(tmp_path, path)", "            os.link(str(tmp_path), str(path))", ['C04.F1']))
BREAKING.append(('cluster file created as a symlink', 'phylib/io/model.py', "            shutil.copy(tmp_path, path)", "            Path(path).symlink_to(tmp_path)", ['C04.F1']))
BREAKING.append(('scrub through nan_to_num (inf -> huge finite)', 'phylib/io/model.py', "                out[errors] = 0\n", "                out = np.nan_to_num(out)\n", ['C04.D1']))
EQUIVALENT.append(('scrub through nan_to_num with explicit zeros', 'phylib/io/model.py', "                out[errors] = 0\n", "                out = np.nan_to_num(out, nan=0, posinf=0, neginf=0)\n"))
BREAKING.append(('unused templates detected on the first channel only', M, "            empty_templates = np.all(np.all(np.isnan(data), axis=1), axis=1)", "            empty_templates = np.all(np.isnan(data[:, :, 0]), axis=1)", ['C04.D1']))
BREAKING.append(('templates with ANY NaN are zeroed', M, "            empty_templates = np.all(np.all(np.isnan(data), axis=1), axis=1)", "            empty_templates = np.any(np.any(np.isnan(data), axis=1), axis=1)", ['C04.D1']))
EQUIVALENT.append(('unused templates via one reduction over both axes', M, "            empty_templates = np.all(np.all(np.isnan(data), axis=1), axis=1)", "            empty_templates = np.isnan(data).all(axis=(1, 2))"))
BREAKING.append(('scrub gated on float64 dtype only', M, "    if mmap_mode is None:\n", "    if mmap_mode is None and out.dtype == np.float64:\n", ['C04.D1']))
EQUIVALENT.append(('scrub gated on any floating dtype', M, "    if mmap_mode is None:\n", "    if mmap_mode is None and np.issubdtype(out.dtype, np.floating):\n"))
