M = 'phylib/io/model.py'
BREAKING = [
    ('map keyed by template', M, "            for n in mapping:\n                inverse_mapping_dict[n].append(temp)", "            for n in mapping:\n                inverse_mapping_dict[temp].append(n)", ['C08.A0', 'C08.A1']),
    ('keys up to max template', M, "        inverse_mapping_dict = {key: [] for key in range(np.max(self.spike_clusters) + 1)}", "        inverse_mapping_dict = {key: [] for key in range(np.max(self.spike_templates) + 1)}", ['C08.A1']),
    ('keys miss the last id', M, "        inverse_mapping_dict = {key: [] for key in range(np.max(self.spike_clusters) + 1)}", "        inverse_mapping_dict = {key: [] for key in range(np.max(self.spike_clusters))}", ['C08.A1']),
    ('clusters of other spikes', M, "            new_idx = self.spike_clusters[idx]\n            mapping", "            new_idx = self.spike_clusters[:len(idx)]\n            mapping", ['C08.A1']),
    ('empty ids inverted', M, "if len(val) == 0], dtype=np.int64)", "if len(val) != 0], dtype=np.int64)", ['C08.A1']),
    ('weights over all templates', M, "        count = count[template_ids]\n", "", ['C08.A0']),
    ('unweighted mean', M, "        mean_waveforms = np.average(waveforms, axis=0, weights=count)", "        mean_waveforms = np.mean(waveforms, axis=0)", ['C08.A3']),
    ('channels of first contributing template', M, "        template = self.get_template(best_template, unwhiten=unwhiten)\n        channel_ids = template.channel_ids\n        # Get all templates", "        template = self.get_template(template_ids[0], unwhiten=unwhiten)\n        channel_ids = template.channel_ids\n        # Get all templates", ['C08.A3']),
    ('dominant template argmin', M, "        best_template = np.argmax(count)", "        best_template = np.argmin(count)", ['C08.A3']),
    ('unwhiten flag dropped for contributors', M, "        templates = [self.get_template(template_id, unwhiten=unwhiten)\n                     for template_id in template_ids]", "        templates = [self.get_template(template_id)\n                     for template_id in template_ids]", ['C08.A3']),
    ('scatter on the dominant channels', M, "            data[i][:, b.channel_ids] = b.template", "            data[i][:, channel_ids] = b.template", ['C08.A0']),
    ('counts of a template not a cluster', M, "        spike_ids = self.get_cluster_spikes(cluster_id)\n        st = self.spike_templates[spike_ids]\n        return np.bincount(st, minlength=self.n_templates)", "        spike_ids = self.get_template_spikes(cluster_id)\n        st = self.spike_templates[spike_ids]\n        return np.bincount(st, minlength=self.n_templates)", ['C08.A0']),
    ('counts without minlength', M, "        return np.bincount(st, minlength=self.n_templates)", "        return np.bincount(st)", ['C08.A3', 'C08.A0']),
    ('axes not swapped', M, "                data[clust, :, mean_waveform.channel_ids] = \\\n                    np.swapaxes(mean_waveform.mean_waveforms, 0, 1)", "                data[clust, :, mean_waveform.channel_ids] = \\\n                    mean_waveform.mean_waveforms", ['C08.A0']),
    ('single template read from clusters', M, "                data[clust, :, :] = self.sparse_templates.data[val[0], :, :]", "                data[clust, :, :] = self.sparse_templates.data[clust, :, :]", ['C08.A0', 'C08.A2']),
    ('mean stored unwhitened', M, "                mean_waveform = self.get_cluster_mean_waveforms(clust, unwhiten=False)", "                mean_waveform = self.get_cluster_mean_waveforms(clust, unwhiten=True)", ['C08.A2', 'C08.A0']),
    ('rows by number of clusters present', M, "        data = np.zeros((np.max(self.cluster_ids) + 1, ns, self.n_channels))", "        data = np.zeros((len(self.cluster_ids), ns, self.n_channels))", ['C08.A2', 'C08.A0']),
    ('merged branch for sparse too', M, "        if not np.all(self.spike_clusters == self.spike_templates) and \\\n                self.sparse_templates.cols is None:", "        if not np.all(self.spike_clusters == self.spike_templates):", ['C08.A4']),
    ('n_clusters from templates in curated branch', M, "            self.sparse_clusters = self.cluster_waveforms()\n            self.n_clusters = self.spike_clusters.max() + 1", "            self.sparse_clusters = self.cluster_waveforms()\n            self.n_clusters = self.spike_templates.max() + 1", ['C08.A4']),
    ('uncurated clusters recomputed', M, "            self.sparse_clusters = self.sparse_templates\n            self.n_clusters = self.spike_templates.max() + 1", "            self.sparse_clusters = Bunch(data=np.zeros_like(self.sparse_templates.data), cols=None)\n            self.n_clusters = self.spike_templates.max() + 1", ['C08.A4']),
    ('multi-template threshold', M, "            if len(val) > 1:\n                mean_waveform", "            if len(val) > 2:\n                mean_waveform", ['C08.A2']),
]
EQUIVALENT = [
    ('np.where vs nonzero', M, "            idx = np.where(self.spike_templates == temp)[0]", "            idx = np.nonzero(self.spike_templates == temp)[0]"),
    ('max method', M, "        inverse_mapping_dict = {key: [] for key in range(np.max(self.spike_clusters) + 1)}", "        inverse_mapping_dict = {key: [] for key in range(self.spike_clusters.max() + 1)}"),
    ('transpose instead of swapaxes', M, "                    np.swapaxes(mean_waveform.mean_waveforms, 0, 1)", "                    mean_waveform.mean_waveforms.T"),
]
