A = 'phylib/io/array.py'
M = 'phylib/io/model.py'
BREAKING = [
    ('chunk filter bypassed', A, "            if subset_chunks:\n                spike_ids = spike_ids[_times_in_chunks(t, self.chunks_kept)]", "            if subset_chunks and n_spk_clu is None:\n                spike_ids = spike_ids[_times_in_chunks(t, self.chunks_kept)]", ['C17.D1']),
    ('chunk filter unconditional', A, "            if subset_chunks:\n                spike_ids = spike_ids[_times_in_chunks(t, self.chunks_kept)]", "            if True:\n                spike_ids = spike_ids[_times_in_chunks(t, self.chunks_kept)]", ['C17.D1']),
    ('subset filter dropped', A, "            if subset_spikes is not None:\n                spike_ids = np.intersect1d(spike_ids, subset_spikes)\n", "", ['C17.D1']),
    ('subset union', A, "spike_ids = np.intersect1d(spike_ids, subset_spikes)", "spike_ids = np.union1d(spike_ids, subset_spikes)", ['C17.D1']),
    ('with replacement', A, "np.random.choice(spike_ids, n_spk_clu, replace=False)", "np.random.choice(spike_ids, n_spk_clu, replace=True)", ['C17.D1']),
    ('default replacement', A, "np.random.choice(spike_ids, n_spk_clu, replace=False)", "np.random.choice(spike_ids, n_spk_clu)", ['C17.D1']),
    ('draws n-1', A, "np.random.choice(spike_ids, n_spk_clu, replace=False)", "np.random.choice(spike_ids, n_spk_clu - 1, replace=False)", ['C17.D1']),
    ('count rule >=', A, "if n_spk_clu is not None and n_spk_clu > 0 and len(spike_ids) > n_spk_clu:", "if n_spk_clu is not None and n_spk_clu >= 0 and len(spike_ids) > n_spk_clu:", ['C17.D1']),
    ('count rule ignores zero', A, "if n_spk_clu is not None and n_spk_clu > 0 and len(spike_ids) > n_spk_clu:", "if n_spk_clu is not None and len(spike_ids) > n_spk_clu:", ['C17.D1']),
    ('mask from times of all spikes', A, "            t = self.spike_times[spike_ids]\n", "            t = self.spike_times[:len(spike_ids)]\n", ['C17.D1']),
    ('other cluster fetched', A, "            spike_ids = self.get_spikes_per_cluster(cluster)\n", "            spike_ids = self.get_spikes_per_cluster(cluster_ids[0])\n", ['C17.D1']),
    ('not deduplicated', A, "    return np.unique(np.concatenate(list(per_cluster.values()))).astype(np.int64)", "    return np.concatenate(list(per_cluster.values())).astype(np.int64)", ['C17.K1']),
    ('stride floor', A, "max(1, int(ceil(n_chunks / n_chunks_kept)))", "max(1, int(n_chunks / n_chunks_kept))", ['C17.S1']),
    ('stride floor div', A, "max(1, int(ceil(n_chunks / n_chunks_kept)))", "max(1, n_chunks // n_chunks_kept)", ['C17.S1']),
    ('kept intervals half', A, "            self.chunks_kept.extend(chunk_bounds[i:i + 2])", "            self.chunks_kept.extend(chunk_bounds[i:i + 1])", ['C17.S1']),
    ('kept start at 1', A, "        for i in range(0, n_chunks, max(", "        for i in range(1, n_chunks, max(", ['C17.S1']),
    ('n_chunks off by one', A, "        n_chunks = len(chunk_bounds) - 1\n\n        for i", "        n_chunks = len(chunk_bounds)\n\n        for i", ['C17.S1']),
    ('side left', A, "ind = np.searchsorted(chunks_kept, times, side='right')", "ind = np.searchsorted(chunks_kept, times, side='left')", ['C17.S2']),
    ('parity even', A, "    return ind % 2 == 1", "    return ind % 2 == 0", ['C17.S2']),
    ('subset export without chunk restriction', M, "spike_ids = ss(max_n_spikes_per_template, template_ids, subset_chunks=True)", "spike_ids = ss(max_n_spikes_per_template, template_ids)", ['C17.U1']),
    ('selector on times in seconds', M, "spike_times=self.spike_samples, chunk_bounds=self.traces.chunk_bounds,", "spike_times=self.spike_times, chunk_bounds=self.traces.chunk_bounds,", ['C17.U1']),
    ('vectorised kept chunks, floor stride', A, '        self.chunks_kept = []\n        n_chunks = len(chunk_bounds) - 1\n\n        for i in range(0, n_chunks, max(1, int(ceil(n_chunks / n_chunks_kept)))):\n            self.chunks_kept.extend(chunk_bounds[i:i + 2])\n        self.chunks_kept = np.array(self.chunks_kept)\n', '        n_chunks = len(chunk_bounds) - 1\n        step = max(1, n_chunks // n_chunks_kept)\n        bounds = np.asarray(chunk_bounds)\n        self.chunks_kept = np.column_stack((bounds[:-1][::step], bounds[1:][::step])).ravel()\n', ['C17.S1']),
    ('vectorised kept chunks, ends from the start grid', A, '        self.chunks_kept = []\n        n_chunks = len(chunk_bounds) - 1\n\n        for i in range(0, n_chunks, max(1, int(ceil(n_chunks / n_chunks_kept)))):\n            self.chunks_kept.extend(chunk_bounds[i:i + 2])\n        self.chunks_kept = np.array(self.chunks_kept)\n', '        n_chunks = len(chunk_bounds) - 1\n        step = max(1, int(ceil(n_chunks / n_chunks_kept)))\n        bounds = np.asarray(chunk_bounds)\n        self.chunks_kept = np.column_stack((bounds[:-1][::step], bounds[:-1][::step])).ravel()\n', ['C17.S1']),
    ('vectorised kept chunks, starting with the second chunk', A, '        self.chunks_kept = []\n        n_chunks = len(chunk_bounds) - 1\n\n        for i in range(0, n_chunks, max(1, int(ceil(n_chunks / n_chunks_kept)))):\n            self.chunks_kept.extend(chunk_bounds[i:i + 2])\n        self.chunks_kept = np.array(self.chunks_kept)\n', '        n_chunks = len(chunk_bounds) - 1\n        step = max(1, int(ceil(n_chunks / n_chunks_kept)))\n        bounds = np.asarray(chunk_bounds)\n        self.chunks_kept = np.column_stack((bounds[1:-1][::step], bounds[2:][::step])).ravel()\n', ['C17.S1']),
]
EQUIVALENT = [
    ('kept chunks vectorised', A, '        self.chunks_kept = []\n        n_chunks = len(chunk_bounds) - 1\n\n        for i in range(0, n_chunks, max(1, int(ceil(n_chunks / n_chunks_kept)))):\n            self.chunks_kept.extend(chunk_bounds[i:i + 2])\n        self.chunks_kept = np.array(self.chunks_kept)\n', '        n_chunks = len(chunk_bounds) - 1\n        step = max(1, int(ceil(n_chunks / n_chunks_kept)))\n        bounds = np.asarray(chunk_bounds)\n        self.chunks_kept = np.column_stack((bounds[:-1][::step], bounds[1:][::step])).ravel()\n'),
    ('kept chunks vectorised, one slice', A, '        self.chunks_kept = []\n        n_chunks = len(chunk_bounds) - 1\n\n        for i in range(0, n_chunks, max(1, int(ceil(n_chunks / n_chunks_kept)))):\n            self.chunks_kept.extend(chunk_bounds[i:i + 2])\n        self.chunks_kept = np.array(self.chunks_kept)\n', '        n_chunks = len(chunk_bounds) - 1\n        step = max(1, int(ceil(n_chunks / n_chunks_kept)))\n        bounds = np.asarray(chunk_bounds)\n        self.chunks_kept = np.column_stack((bounds[:-1:step], bounds[1::step])).ravel()\n'),
    ('filters reordered', A, "            if subset_chunks:\n                spike_ids = spike_ids[_times_in_chunks(t, self.chunks_kept)]\n            # Keep spikes from a given subset.\n            if subset_spikes is not None:\n                spike_ids = np.intersect1d(spike_ids, subset_spikes)\n",
     "            if subset_spikes is not None:\n                spike_ids = np.intersect1d(spike_ids, subset_spikes)\n            if subset_chunks:\n                spike_ids = spike_ids[_times_in_chunks(self.spike_times[spike_ids], self.chunks_kept)]\n"),
    ('count rule spelled differently', A, "if n_spk_clu is not None and n_spk_clu > 0 and len(spike_ids) > n_spk_clu:", "if n_spk_clu is not None and 0 < n_spk_clu < len(spike_ids):"),
    ('ceil div integer form', A, "max(1, int(ceil(n_chunks / n_chunks_kept)))", "max(1, -(-n_chunks // n_chunks_kept))"),
    ('parity != 0', A, "    return ind % 2 == 1", "    return ind % 2 != 0"),
    ('intersect arg order', A, "np.intersect1d(spike_ids, subset_spikes)", "np.intersect1d(subset_spikes, spike_ids)"),
]
_LOOP = "        self.chunks_kept = []\n        n_chunks = len(chunk_bounds) - 1\n\n        for i in range(0, n_chunks, max(1, int(ceil(n_chunks / n_chunks_kept)))):\n            self.chunks_kept.extend(chunk_bounds[i:i + 2])\n        self.chunks_kept = np.array(self.chunks_kept)\n"
_VEC = "        bounds = np.asarray(chunk_bounds)\n        n_chunks = len(bounds) - 1\n        step = max(1, int(ceil(n_chunks / n_chunks_kept)))\n        starts = np.arange(0, %s, step)\n        self.chunks_kept = np.column_stack((bounds[starts], bounds[starts + 1])).ravel()\n"
EQUIVALENT.append(('kept chunks by fancy indexing with np.arange(0, n_chunks, step)', A, _LOOP, _VEC % 'n_chunks'))
BREAKING.append(('kept chunks by fancy indexing, stop one short', A, _LOOP, _VEC % 'n_chunks - 1', ['C17.S1']))
BREAKING.append(('kept chunks by fancy indexing, stop at the number of bounds', A, _LOOP, _VEC % 'len(bounds)', ['C17.S1']))
