A = 'phylib/io/array.py'
M = 'phylib/io/model.py'
BREAKING = [
    ('unstable sort', A, "    rel_spikes = np.argsort(spike_clusters, kind='mergesort')", "    rel_spikes = np.argsort(spike_clusters)", ['C07.K1']),
    ('quicksort', A, "    rel_spikes = np.argsort(spike_clusters, kind='mergesort')", "    rel_spikes = np.argsort(spike_clusters, kind='quicksort')", ['C07.K1']),
    ('labels not permuted', A, "    spike_clusters = spike_clusters[rel_spikes]\n", "", ['C07.A0', 'C07.A1']),
    ('ids not permuted', A, "    abs_spikes = spike_ids[rel_spikes]", "    abs_spikes = spike_ids", ['C07.A1', 'C07.A0']),
    ('keys shifted', A, "        clusters[i]: abs_spikes[idx[i]:idx[i + 1]] for i in range(len(clusters) - 1)}", "        clusters[i + 1]: abs_spikes[idx[i]:idx[i + 1]] for i in range(len(clusters) - 1)}", ['C07.A1']),
    ('range off by one', A, "        clusters[i]: abs_spikes[idx[i]:idx[i + 1]] for i in range(len(clusters) - 1)}", "        clusters[i]: abs_spikes[idx[i]:idx[i + 1] - 1] for i in range(len(clusters) - 1)}", ['C07.A1']),
    ('last group dropped', A, "    spikes_in_clusters[clusters[-1]] = abs_spikes[idx[-1]:]\n", "", ['C07.A1']),
    ('last group from previous boundary', A, "    spikes_in_clusters[clusters[-1]] = abs_spikes[idx[-1]:]", "    spikes_in_clusters[clusters[-1]] = abs_spikes[idx[-2]:]", ['C07.A1']),
    ('first boundary missing', A, "    diff[0] = 1\n", "    diff[0] = 0\n", ['C07.A1']),
    ('values are cluster labels', A, "        clusters[i]: abs_spikes[idx[i]:idx[i + 1]] for i in range(len(clusters) - 1)}", "        clusters[i]: spike_clusters[idx[i]:idx[i + 1]] for i in range(len(clusters) - 1)}", ['C07.A1']),
    ('default ids from 1', A, "        spike_ids = np.arange(len(spike_clusters)).astype(np.int64)", "        spike_ids = np.arange(1, len(spike_clusters) + 1).astype(np.int64)", ['C07.A1']),
    ('in clusters negated', A, "    return np.nonzero(np.isin(spike_clusters, clusters))[0]", "    return np.nonzero(~np.isin(spike_clusters, clusters))[0]", ['C07.A2']),
    ('cluster query reads templates', M, "        return _spikes_in_clusters(self.spike_clusters, [cluster_id])", "        return _spikes_in_clusters(self.spike_templates, [cluster_id])", ['C07.A0', 'C07.A2']),
    ('template query reads clusters', M, "        return _spikes_in_clusters(self.spike_templates, [template_id])", "        return _spikes_in_clusters(self.spike_clusters, [template_id])", ['C07.A0', 'C07.A2']),
    ('counts without minlength', M, "        return np.bincount(st, minlength=self.n_templates)", "        return np.bincount(st)", ['C07.A2']),
    ('counts of clusters', M, "        st = self.spike_templates[spike_ids]\n        return np.bincount(st, minlength=self.n_templates)", "        st = self.spike_clusters[spike_ids]\n        return np.bincount(st, minlength=self.n_templates)", ['C07.A0', 'C07.A2']),
    ('grouped sum', A, "    return t / spike_counts.reshape((-1,) + (1,) * (arr.ndim - 1))", "    return t", ['C07.A3']),
    ('unique keeps negatives out wrongly', A, "    x = x[x >= 0]\n", "    x = x[x > 0]\n", ['C07.A3']),
    ('flatten not unique', A, "    return np.unique(np.concatenate(list(per_cluster.values()))).astype(np.int64)", "    return np.sort(np.concatenate(list(per_cluster.values()))).astype(np.int64)", ['C07.A3']),
]
EQUIVALENT = [
    ('stable kind', A, "    rel_spikes = np.argsort(spike_clusters, kind='mergesort')", "    rel_spikes = np.argsort(spike_clusters, kind='stable')"),
    ('flatnonzero', A, "    return np.nonzero(np.isin(spike_clusters, clusters))[0]", "    return np.flatnonzero(np.isin(spike_clusters, clusters))"),
    ('where', A, "    idx = np.nonzero(diff > 0)[0]", "    idx = np.where(diff > 0)[0]"),
]
BREAKING.append(('last group sliced from the sort permutation', 'phylib/io/array.py', "    spikes_in_clusters[clusters[-1]] = abs_spikes[idx[-1]:]", "    spikes_in_clusters[clusters[-1]] = rel_spikes[idx[-1]:]", ['C07.A1']))
EQUIVALENT.append(('default ids folded into a conditional', 'phylib/io/array.py', "    abs_spikes = spike_ids[rel_spikes]", "    abs_spikes = rel_spikes if spike_ids is None else spike_ids[rel_spikes]"))
EQUIVALENT.append(('_unique counted block by block, table grown by folding', A, "    x = x[x >= 0]\n    bc = np.bincount(x)\n", "    x = x[x >= 0]\n    bc = np.zeros(0, dtype=np.int64)\n    for i in range(0, len(x), 65536):\n        b = np.bincount(x[i:i + 65536])\n        if len(b) > len(bc):\n            b[:len(bc)] += bc\n            bc = b\n        else:\n            bc[:len(b)] += b\n"))
BREAKING.append(('_unique counted block by block, table replaced', A, "    x = x[x >= 0]\n    bc = np.bincount(x)\n", "    x = x[x >= 0]\n    bc = np.zeros(0, dtype=np.int64)\n    for i in range(0, len(x), 65536):\n        b = np.bincount(x[i:i + 65536])\n        if len(b) > len(bc):\n            bc = b\n        else:\n            bc[:len(b)] += b\n", ['C07.A3']))
