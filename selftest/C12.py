G = 'phylib/io/merge.py'
BREAKING = [
    ('F11 reverted', G, "            j1 = 0\n            for i in range(len(self.subdirs)):\n                j0 = j1  # cumulative number of channels of the previous probes\n                j1 = j0 + templates_l[i].shape[2]\n",
     "            for i in range(len(self.subdirs)):\n                j0 = templates_l[i - 1].shape[2] if i > 0 else 0\n                j1 = j0 + templates_l[i].shape[2]\n", ['C12.S1']),
    ('F12 reverted (channel index table)', G, "            ('pc_feature_ind.npy', self.channel_index_offsets),", "            ('pc_feature_ind.npy', self.channel_offsets),", ['C12.S2']),
    ('template index table shifted by channels', G, "            ('template_feature_ind.npy', self.template_offsets),", "            ('template_feature_ind.npy', self.channel_index_offsets),", ['C12.S2']),
    ('column base starts at 1', G, "            j1 = 0\n            for i in range", "            j1 = 1\n            for i in range", ['C12.S1']),
    ('block width from template count', G, "                j1 = j0 + templates_l[i].shape[2]", "                j1 = j0 + templates_l[i].shape[0]", ['C12.S1']),
    ('block from previous probe', G, "                    one_template[:, j0:j1] = templates_l[i][it, :]", "                    one_template[:, j0:j1] = templates_l[i - 1][it, :]", ['C12.S1']),
    ('row not zero initialised', G, "                    one_template = np.zeros((n_samples, n_channels), dtype=templates_l[0].dtype)", "                    one_template = np.ones((n_samples, n_channels), dtype=templates_l[0].dtype)", ['C12.S1']),
    ('channel counter counts raw max', G, "            n_channels += array.shape[0]", "            n_channels += array.max()", ['C12.S2']),
    ('channel counter recorded after update', G, "            self.channel_index_offsets.append(n_channels)\n            n_channels += array.shape[0]", "            n_channels += array.shape[0]\n            self.channel_index_offsets.append(n_channels)", ['C12.S2']),
    ('probe label k+1', G, "            channel_probes.append(array * 0 + ind)", "            channel_probes.append(array * 0 + ind + 1)", ['C12.S3']),
    ('probe label raw channel', G, "            channel_probes.append(array * 0 + ind)", "            channel_probes.append(array + ind)", ['C12.S3']),
    ('x offset before shift', G, "            array[:, 0] += x_offset\n            x_offset = 2. * array[:, 0].max() - array[:, 0].min()", "            new = 2. * array[:, 0].max() - array[:, 0].min()\n            array[:, 0] += x_offset\n            x_offset = new", ['C12.S3']),
    ('x offset is the max only', G, "            x_offset = 2. * array[:, 0].max() - array[:, 0].min()", "            x_offset = array[:, 0].max()", ['C12.S3']),
    ('y also shifted', G, "            array[:, 0] += x_offset\n", "            array[:, 0] += x_offset\n            array[:, 1] += x_offset\n", ['C12.S3']),
    ('matrices stacked not block diagonal', G, "                concat = block_diag(*_load_multiple_files(fn, self.subdirs))", "                concat = np.vstack(_load_multiple_files(fn, self.subdirs))", ['C12.S3']),
    ('matrices in reverse order', G, "                concat = block_diag(*_load_multiple_files(fn, self.subdirs))", "                concat = block_diag(*_load_multiple_files(fn, self.subdirs)[::-1])", ['C12.S3']),
    ('n_channels_dat of first probe', G, "        params_merged['n_channels_dat'] = n_channels_dat\n", "", ['C12.D1']),
    ('n_channels_dat max', G, "        n_channels_dat = sum(params['n_channels_dat'] for params in params_l)", "        n_channels_dat = max(params['n_channels_dat'] for params in params_l)", ['C12.D1']),
    ('sample rate overridden', G, "        params_merged['n_channels_dat'] = n_channels_dat\n", "        params_merged['n_channels_dat'] = n_channels_dat\n        params_merged['sample_rate'] = 30000.\n", ['C12.D1']),
    ('index offsets paired in reverse', G, "            arrays = [array.astype(np.int64) + offset for array, offset in zip(arrays, offsets)]", "            arrays = [array.astype(np.int64) + offset for array, offset in zip(arrays, offsets[::-1])]", ['C12.S2']),
    ('merged shape uses first probe channels', G, "        n_channels = sum(tmp.shape[2] for tmp in templates_l)", "        n_channels = templates_l[0].shape[2] * len(templates_l)", ['C12.S1']),
]
EQUIVALENT = [
    ('accumulator naming', G, "            j1 = 0\n            for i in range(len(self.subdirs)):\n                j0 = j1  # cumulative number of channels of the previous probes\n                j1 = j0 + templates_l[i].shape[2]\n",
     "            base = 0\n            for i in range(len(self.subdirs)):\n                j0 = base\n                j1 = base + templates_l[i].shape[2]\n                base = j1\n"),
    ('x offset numpy functions', G, "            x_offset = 2. * array[:, 0].max() - array[:, 0].min()", "            x_offset = 2. * np.max(array[:, 0]) - np.min(array[:, 0])"),
    ('label via full_like', G, "            channel_probes.append(array * 0 + ind)", "            channel_probes.append(np.full_like(array, ind))"),
]
BREAKING.append(('optional matrices merged over the probes that have them', 'phylib/io/merge.py', "            try:\n                concat = block_diag(*_load_multiple_files(fn, self.subdirs))\n            except FileNotFoundError:\n                logger.debug(\"File %s not found, skipping.\", fn)\n                continue\n", "            subdirs = [subdir for subdir in self.subdirs if (subdir / fn).exists()]\n            if not subdirs:\n                continue\n            concat = block_diag(*_load_multiple_files(fn, subdirs))\n", ['C12.S3']))
EQUIVALENT.append(('optional matrices skipped by an existence test on all probes', 'phylib/io/merge.py', "            try:\n                concat = block_diag(*_load_multiple_files(fn, self.subdirs))\n            except FileNotFoundError:\n                logger.debug(\"File %s not found, skipping.\", fn)\n                continue\n", "            if not all((subdir / fn).exists() for subdir in self.subdirs):\n                continue\n            concat = block_diag(*_load_multiple_files(fn, self.subdirs))\n"))
BREAKING.append(('probe directories sorted', 'phylib/io/merge.py', "        self.subdirs = [Path(subdir) for subdir in subdirs]", "        self.subdirs = sorted(Path(subdir) for subdir in subdirs)", ['C12.S3']))
