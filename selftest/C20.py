"""Checker self-test variants for C20: (name, file, old text, new text, rules expected to fire)."""
D = 'phylib/io/datasets.py'
BREAKING = [
    ('persistent mismatch returns', D, """        if _check_md5_of_url(output_path, url) is False:
            raise RuntimeError(""", """        if _check_md5_of_url(output_path, url) is None:
            raise RuntimeError(""", ['C20.O4', 'C20.O1']),
    ('existing file never checked', D, """        elif checked is True:
            logger.debug("The file `%s` already exists: skipping.", output_path)
            return output_path""", """        elif checked is True:
            logger.debug("The file `%s` already exists: skipping.", output_path)
        return output_path""", ['C20.O1']),
    ('valid existing file downloaded again', D, "        elif checked is True:\n            logger.debug(\"The file `%s` already exists: skipping.\", output_path)\n            return output_path",
     "        elif checked is None:\n            logger.debug(\"The file `%s` already exists: skipping.\", output_path)\n            return output_path", ['C20.O2']),
    ('http error swallowed', D, "    r = _download(url, stream=True)\n    _save_stream(r, output_path)\n    if _check_md5_of_url(output_path, url) is False:\n        logger",
     "    try:\n        r = _download(url, stream=True)\n    except Exception:\n        return\n    _save_stream(r, output_path)\n    if _check_md5_of_url(output_path, url) is False:\n        logger", ['C20.O5', 'C20.O1']),
    ('comparison inverted', D, "return (_md5(path) == checksum) if checksum else None", "return (_md5(path) != checksum) if checksum else None", ['C20.T1']),
    ('hash of the url string', D, "            return _check_md5(output_path, checksum)", "            return _check_md5(url, checksum)", ['C20.T1']),
    ('wrong token of checksum file', D, ".split(' ')[0]", ".split(' ')[-1]", ['C20.T1']),
    ('checksum from another url', D, "download_text_file(url + '.md5')", "download_text_file(url + '.MD5')", ['C20.T1']),
    ('hash of first block only', D, "        while True:\n            buf = f.read(blocksize)\n            if not buf:\n                break\n            m.update(buf)",
     "        buf = f.read(blocksize)\n        m.update(buf)", ['C20.T2']),
    ('hash skips a block', D, "            if not buf:\n                break\n            m.update(buf)", "            if not buf:\n                break\n            if len(buf) == blocksize:\n                m.update(buf)", ['C20.T2']),
    ('retry not saved', D, "        r = _download(url, stream=True)\n        _save_stream(r, output_path)\n        if _check", "        r = _download(url, stream=True)\n        if _check", ['C20.O3', 'C20.O1', 'C20.O4']),
    ('no retry', D, "        logger.debug(\"The checksum doesn't match: retrying the download.\")\n        r = _download(url, stream=True)\n        _save_stream(r, output_path)\n        if _check_md5_of_url(output_path, url) is False:\n            raise",
     "        logger.debug(\"The checksum doesn't match: retrying the download.\")\n        if True:\n            raise", ['C20.O3']),
    ('mismatch reported as unknown', D, "return (_md5(path) == checksum) if checksum else None", "return ((_md5(path) == checksum) or None) if checksum else None", ['C20.T1']),
    ('saver drops chunks', D, "            if chunk:\n                f.write(chunk)", "            if chunk and i % 2 == 0:\n                f.write(chunk)", ['C20.T3']),
    ('saver appends', D, "with open(path, 'wb') as f:\n        for i, chunk", "with open(path, 'ab') as f:\n        for i, chunk", ['C20.T3']),
    ('saved elsewhere', D, "    r = _download(url, stream=True)\n    _save_stream(r, output_path)\n    if", "    r = _download(url, stream=True)\n    _save_stream(r, str(output_path) + '.part')\n    if", ['C20.T3']),
    ('http status ignored', D, "    if r.status_code != 200:  # pragma: no cover\n        logger.debug(\"Error while downloading %s.\", url)\n        r.raise_for_status()", "    if r.status_code == 404:  # pragma: no cover\n        logger.debug(\"Error while downloading %s.\", url)\n        raise IOError(url)", ['C20.O6']),
    ('third download', D, "            raise RuntimeError(\"The checksum of the downloaded file \"\n                               \"doesn't match the provided checksum.\")",
     "            r = _download(url, stream=True)\n            _save_stream(r, output_path)\n            if _check_md5_of_url(output_path, url) is False:\n                raise RuntimeError(\"bad\")", ['C20.O3']),
    ('truthiness instead of identity on final check', D, "        if _check_md5_of_url(output_path, url) is False:\n            raise RuntimeError(", "        if _check_md5_of_url(output_path, url):\n            raise RuntimeError(", ['C20.O4', 'C20.O1']),
]
EQUIVALENT = [
    ('return value', D, "    return\n\n\n_BASE_URL", "    return output_path\n\n\n_BASE_URL"),
    ('equality with False', D, "        if checked is False:\n            logger.debug(\n                \"The file", "        if checked is False or checked == False:\n            logger.debug(\n                \"The file"),
    ('update empty buffer before break', D, "            if not buf:\n                break\n            m.update(buf)", "            m.update(buf)\n            if not buf:\n                break"),
    ('loop retry', D, """    r = _download(url, stream=True)
    _save_stream(r, output_path)
    if _check_md5_of_url(output_path, url) is False:
        logger.debug("The checksum doesn't match: retrying the download.")
        r = _download(url, stream=True)
        _save_stream(r, output_path)
        if _check_md5_of_url(output_path, url) is False:
            raise RuntimeError("The checksum of the downloaded file "
                               "doesn't match the provided checksum.")
    return
""", """    for attempt in range(2):
        r = _download(url, stream=True)
        _save_stream(r, output_path)
        if _check_md5_of_url(output_path, url) is not False:
            return
    raise RuntimeError("The checksum of the downloaded file "
                       "doesn't match the provided checksum.")
"""),
    ('rename locals', D, "    r = _download(url, stream=True)\n    _save_stream(r, output_path)\n    if _check_md5_of_url(output_path, url) is False:\n        logger", "    resp = _download(url, stream=True)\n    _save_stream(resp, output_path)\n    if _check_md5_of_url(output_path, url) is False:\n        logger"),
    ('explicit else in check', D, "    finally:\n        if checksum:\n            return _check_md5(output_path, checksum)", "    finally:\n        if checksum:\n            return _check_md5(output_path, checksum)\n        else:\n            return None"),
    ('status via ok flag', D, "    if r.status_code != 200:  # pragma: no cover", "    if not r.ok:  # pragma: no cover"),
]
