U = 'phylib/utils/_misc.py'
BREAKING = [
    # array codec
    ('encoder writes dtype of contiguous copy name only', U, "return dict(__ndarray__=data_b64, dtype=str(obj.dtype), shape=obj.shape)", "return dict(__ndarray__=data_b64, dtype=obj.dtype.kind, shape=obj.shape)", ['C18.T1']),
    ('encoder drops shape', U, "return dict(__ndarray__=data_b64, dtype=str(obj.dtype), shape=obj.shape)", "return dict(__ndarray__=data_b64, dtype=str(obj.dtype))", ['C18.T1']),
    ('encoder writes flattened shape', U, "return dict(__ndarray__=data_b64, dtype=str(obj.dtype), shape=obj.shape)", "return dict(__ndarray__=data_b64, dtype=str(obj.dtype), shape=obj.size)", ['C18.T1']),
    ('encoder key renamed on one side', U, "return dict(__ndarray__=data_b64, dtype=str(obj.dtype), shape=obj.shape)", "return dict(__ndarray__=data_b64, dtype=str(obj.dtype), dims=obj.shape)", ['C18.T1']),
    ('marker renamed on the writer side', U, "return dict(__ndarray__=data_b64, dtype=str(obj.dtype), shape=obj.shape)", "return dict(__array__=data_b64, dtype=str(obj.dtype), shape=obj.shape)", ['C18.T1']),
    ('bytes of the non-contiguous view', U, "data_b64 = base64.b64encode(obj_contiguous.data).decode('utf8')", "data_b64 = base64.b64encode(obj.ravel()[:obj.shape[0]].data).decode('utf8')", ['C18.T1']),
    ('decoder forgets reshape', U, "return np.frombuffer(data, d['dtype']).reshape(d['shape'])", "return np.frombuffer(data, d['dtype'])", ['C18.T1']),
    ('decoder default dtype', U, "return np.frombuffer(data, d['dtype']).reshape(d['shape'])", "return np.frombuffer(data).reshape(d['shape'])", ['C18.T1']),
    ('decoder swaps keys', U, "return np.frombuffer(data, d['dtype']).reshape(d['shape'])", "return np.frombuffer(data, d['shape']).reshape(d['dtype'])", ['C18.T1']),
    ('small rule for any ndim', U, "if isinstance(obj, np.ndarray) and obj.ndim == 1 and obj.shape[0] <= 10:", "if isinstance(obj, np.ndarray) and obj.shape[0] <= 10:", ['C18.T1']),
    ('small rule bound 100', U, "obj.ndim == 1 and obj.shape[0] <= 10:", "obj.ndim == 1 and obj.shape[0] <= 100:", ['C18.T1']),
    ('scalars via float()', U, "        elif isinstance(obj, np.generic):\n            return obj.item()", "        elif isinstance(obj, np.generic):\n            return float(obj)", ['C18.T1']),
    ('scalar branch removed', U, "        elif isinstance(obj, np.generic):\n            return obj.item()\n", "", ['C18.T1']),
    # key codec
    ('reader recogniser back to isdigit', U, "if isinstance(k, str) and (k.isdigit() or (k[:1] == '-' and k[1:].isdigit())):", "if isinstance(k, str) and k.isdigit():", ['C18.T2']),
    ('reader recogniser isalnum', U, "if isinstance(k, str) and (k.isdigit() or (k[:1] == '-' and k[1:].isdigit())):", "if isinstance(k, str) and k.isalnum():", ['C18.T2']),
    # wiring
    ('save_json without stringify', U, "    data = _stringify_keys(data)\n    path = Path(path)\n    ensure_dir_exists(path.parent)\n    with path.open('w') as f:\n        json.dump", "    path = Path(path)\n    ensure_dir_exists(path.parent)\n    with path.open('w') as f:\n        json.dump", ['C18.T5']),
    ('save_json without encoder', U, "json.dump(data, f, cls=_CustomEncoder, indent=2, sort_keys=True)", "json.dump(data, f, indent=2, sort_keys=True, default=str)", ['C18.T5']),
    ('load_json without hook', U, "out = json.loads(contents, object_hook=_json_custom_hook)", "out = json.loads(contents)", ['C18.T5']),
    ('load_json without intify', U, "    return _intify_keys(out)", "    return out", ['C18.T5']),
    # TSV
    ('writer delimiter by csv suffix only', U, "    delimiter = '\\t' if path.suffix == '.tsv' else ','\n    with path.open('w', newline='') as f:\n        if not data:", "    delimiter = ';' if path.suffix == '.tsv' else ','\n    with path.open('w', newline='') as f:\n        if not data:", ['C18.T3']),
    ('reader keeps empty cells', U, "for k, v in zip(field_names, row) if v != ''}", "for k, v in zip(field_names, row)}", ['C18.T3']),
    ('reader does not convert numbers', U, "data.append({k: _try_make_number(v) for k, v in zip(field_names, row) if v != ''})", "data.append({k: v for k, v in zip(field_names, row) if v != ''})", ['C18.T3']),
    ('reader treats header as data', U, "        field_names = list(next(reader))\n        for row in reader:", "        field_names = list(next(reader))\n        for row in [field_names] + list(reader):", ['C18.T3']),
    ('reader skips the first data row', U, "        field_names = list(next(reader))\n        for row in reader:", "        field_names = list(next(reader))\n        for row in list(reader)[1:]:", ['C18.T3']),
    ('first field not first', U, "            fields = [first_field] + sorted(fields)", "            fields = sorted(fields) + [first_field]", ['C18.T3']),
    ('rows by a different field order', U, "             for field in fields] for row in data])", "             for field in sorted(row)] for row in data])", ['C18.T3']),
    ('simple writer swaps columns', U, "writer.writerows([(cluster_id, data[cluster_id]) for cluster_id in sorted(data)])", "writer.writerows([(data[cluster_id], cluster_id) for cluster_id in sorted(data)])", ['C18.T3']),
    ('simple writer header swapped', U, "writer.writerow(['cluster_id', field_name])", "writer.writerow([field_name, 'cluster_id'])", ['C18.T3']),
    ('simple reader keeps string ids', U, "            cluster_id = int(cluster_id)\n", "", ['C18.T3']),
    ('simple reader raw values', U, "data[cluster_id] = _try_make_number(value)", "data[cluster_id] = value", ['C18.T3']),
    ('number recovery float first', U, "    try:\n        return int(value)\n    except ValueError:\n        try:\n            return float(value)\n        except ValueError:\n            return value", "    try:\n        return float(value)\n    except ValueError:\n        try:\n            return int(value)\n        except ValueError:\n            return value", ['C18.T3']),
    # python parameter file
    ('write_python quotes by hand', U, "                v = repr(v)", "                v = '\"%s\"' % v", ['C18.T4']),
    ('write_python no quoting', U, "            if isinstance(v, str):\n                v = repr(v)\n", "", ['C18.T4']),
    ('write_python colon form', U, "f.write('%s = %s\\n' % (k, str(v)))", "f.write('%s: %s\\n' % (k, str(v)))", ['C18.T4']),
]
EQUIVALENT = [
    ('dtype via dtype.str', U, "dtype=str(obj.dtype), shape=obj.shape)", "dtype=obj.dtype.str, shape=obj.shape)"),
    ('dict literal in the encoder', U, "return dict(__ndarray__=data_b64, dtype=str(obj.dtype), shape=obj.shape)", "return {'__ndarray__': data_b64, 'dtype': str(obj.dtype), 'shape': obj.shape}"),
    ('shape as list', U, "dtype=str(obj.dtype), shape=obj.shape)", "dtype=str(obj.dtype), shape=list(obj.shape))"),
    ('small rule via len', U, "obj.ndim == 1 and obj.shape[0] <= 10:", "obj.ndim == 1 and len(obj) <= 10:"),
    ('small rule strict bound', U, "obj.ndim == 1 and obj.shape[0] <= 10:", "obj.ndim == 1 and obj.shape[0] < 11:"),
    ('repr via format', U, "                v = repr(v)", "                v = '%r' % v"),
    ('write_python format call', U, "f.write('%s = %s\\n' % (k, str(v)))", "f.write('{} = {}\\n'.format(k, v))"),
    ('tsv delimiter test spelled the other way', U, "    delimiter = '\\t' if path.suffix == '.tsv' else ','\n    with path.open('w', newline='') as f:\n        if not data:", "    delimiter = ',' if path.suffix != '.tsv' else '\\t'\n    with path.open('w', newline='') as f:\n        if not data:"),
    ('recogniser via lstrip', U, "if isinstance(k, str) and (k.isdigit() or (k[:1] == '-' and k[1:].isdigit())):", "if isinstance(k, str) and (k.isdigit() or (k.startswith('-') and k[1:].isdigit())):"),
]
BREAKING.append(('delimiter sniffed in the first kilobyte', U, "    with path.open('r') as f:\n        delimiter = '\\t' if '\\t' in f.readline() else ','\n    with path.open('r') as f:\n        reader = csv.reader(f, delimiter=delimiter)\n        # Skip the header.\n        field_names", "    with path.open('r') as f:\n        delimiter = '\\t' if '\\t' in f.read(1024) else ','\n    with path.open('r') as f:\n        reader = csv.reader(f, delimiter=delimiter)\n        # Skip the header.\n        field_names", ['C18.T3']))
EQUIVALENT.append(('delimiter sniffed with next(f)', U, "    with path.open('r') as f:\n        delimiter = '\\t' if '\\t' in f.readline() else ','\n    with path.open('r') as f:\n        reader = csv.reader(f, delimiter=delimiter)\n        # Skip the header.\n        field_names", "    with path.open('r') as f:\n        delimiter = '\\t' if '\\t' in next(f) else ','\n    with path.open('r') as f:\n        reader = csv.reader(f, delimiter=delimiter)\n        # Skip the header.\n        field_names"))
BREAKING.append(('array codec records the dtype kind character only', U, "dtype=str(obj.dtype), shape=obj.shape)", "dtype=obj.dtype.char, shape=obj.shape)", ['C18.T1']))
EQUIVALENT.append(('array codec records dtype.str', U, "dtype=str(obj.dtype), shape=obj.shape)", "dtype=obj.dtype.str, shape=obj.shape)"))
BREAKING.append(('read_tsv does not undo the quoting', U, "        reader = csv.reader(f, delimiter=delimiter)\n        # Skip the header.", "        reader = csv.reader(f, delimiter=delimiter, quoting=csv.QUOTE_NONE)\n        # Skip the header.", ['C18.T3']))
BREAKING.append(('keys intified by the object hook (every nesting level)', U, "        return _decode_qbytearray(d['__qbytearray__'])\n    return d\n", "        return _decode_qbytearray(d['__qbytearray__'])\n    return _intify_keys(d) if isinstance(d, dict) else d\n", ['C18.T2']))
