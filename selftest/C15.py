C = 'phylib/stats/ccg.py'
BREAKING = [
    ('earlier/later swapped', C, "            (spike_clusters_i[:-shift][m], spike_clusters_i[+shift:][m], d), correlograms.shape)", "            (spike_clusters_i[+shift:][m], spike_clusters_i[:-shift][m], d), correlograms.shape)", ['C15.U1']),
    ('edge bin dropped', C, "        mask[:-shift][spike_diff_b > (winsize_bins // 2)] = False", "        mask[:-shift][spike_diff_b >= (winsize_bins // 2)] = False", ['C15.K1']),
    ('delay reversed', C, "    return arr[steps:] - arr[:len(arr) - steps]", "    return arr[:len(arr) - steps] - arr[steps:]", ['C15.U1']),
    ('lag not binned', C, "        spike_diff_b = spike_diff // binsize", "        spike_diff_b = spike_diff", ['C15.U1']),
    ('caller order ignored', C, "        clusters = _as_array(cluster_ids)\n    n_clusters", "        clusters = np.sort(_as_array(cluster_ids))\n    n_clusters", ['C15.D1']),
    ('relabel against present ids', C, "    spike_clusters_i = _index_of(spike_clusters, clusters)\n\n    # Shift", "    spike_clusters_i = _index_of(spike_clusters, _unique(spike_clusters))\n\n    # Shift", ['C15.D1']),
    ('mirror without cluster swap', C, "    sym = np.transpose(sym, (1, 0, 2))\n", "", ['C15.A1']),
    ('mirror without lag reversal', C, "    sym = correlograms[..., 1:][..., ::-1]", "    sym = correlograms[..., 1:]", ['C15.A1']),
    ('zero lag repeated', C, "    sym = correlograms[..., 1:][..., ::-1]", "    sym = correlograms[..., ::-1]", ['C15.A1']),
    ('halves in wrong order', C, "    return np.dstack((sym, correlograms))", "    return np.dstack((correlograms, sym))", ['C15.A1']),
    ('centre not maximised', C, "    correlograms[..., 0] = np.maximum(correlograms[..., 0],\n                                      correlograms[..., 0].T)\n", "", ['C15.A1']),
    ('centre minimised', C, "    correlograms[..., 0] = np.maximum(correlograms[..., 0],\n                                      correlograms[..., 0].T)", "    correlograms[..., 0] = np.minimum(correlograms[..., 0],\n                                      correlograms[..., 0].T)", ['C15.A1']),
    ('centre max applied to lag 1', C, "    correlograms[..., 0] = np.maximum(correlograms[..., 0],\n                                      correlograms[..., 0].T)", "    correlograms[..., 1] = np.maximum(correlograms[..., 1],\n                                      correlograms[..., 1].T)", ['C15.A1']),
    ('stacked on cluster axis', C, "    return np.dstack((sym, correlograms))", "    return np.hstack((sym, correlograms))", ['C15.A1']),
    ('rate outer product dropped', C, "    return bc * np.c_[bc] * (bin_size / (duration or 1.))", "    return bc * bc * (bin_size / (duration or 1.))", ['C15.U2']),
    ('rate duration over bin', C, "    return bc * np.c_[bc] * (bin_size / (duration or 1.))", "    return bc * np.c_[bc] * ((duration or 1.) / bin_size)", ['C15.U2']),
    ('no padding', C, "    if len(bc) < len(cluster_ids):\n        n = len(cluster_ids) - len(bc)\n        bc = np.concatenate((bc, np.zeros(n, dtype=bc.dtype)))\n", "", ['C15.U2']),
    ('array too short', C, "    return np.zeros((n_clusters, n_clusters, winsize_bins // 2 + 1),", "    return np.zeros((n_clusters, n_clusters, winsize_bins // 2),", ['C15.U1']),
    ('bin size in seconds', C, "    binsize = int(sample_rate * bin_size)  # in samples", "    binsize = int(bin_size)  # in samples", ['C15.U1']),
    ('samples without rate', C, "    spike_samples = (spike_times * sample_rate).astype(np.int64)", "    spike_samples = (spike_times).astype(np.int64)", ['C15.U1']),
    ('shift step two', C, "        shift += 1\n", "        shift += 2\n", ['C15.K1']),
    ('increment without multiplicity', C, "    bbins = np.bincount(indices)\n    arr[:len(bbins)] += bbins", "    arr[indices] += 1", ['C15.U1']),
]
EQUIVALENT = [
    ('single reversed slice', C, "    sym = correlograms[..., 1:][..., ::-1]", "    sym = correlograms[..., :0:-1]"),
    ('swapaxes', C, "    sym = np.transpose(sym, (1, 0, 2))", "    sym = np.swapaxes(sym, 0, 1)"),
    ('concatenate', C, "    return np.dstack((sym, correlograms))", "    return np.concatenate((sym, correlograms), axis=2)"),
    ('maximum argument order', C, "    correlograms[..., 0] = np.maximum(correlograms[..., 0],\n                                      correlograms[..., 0].T)", "    correlograms[..., 0] = np.maximum(correlograms[..., 0].T,\n                                      correlograms[..., 0])"),
    ('transpose then reverse', C, "    sym = correlograms[..., 1:][..., ::-1]\n    sym = np.transpose(sym, (1, 0, 2))", "    sym = np.transpose(correlograms, (1, 0, 2))[..., 1:][..., ::-1]"),
]
BREAKING.append(('delay from float times, truncated afterwards', 'phylib/stats/ccg.py', "        spike_diff = _diff_shifted(spike_samples, shift)", "        spike_diff = (_diff_shifted(spike_times, shift) * sample_rate).astype(np.int64)", ['C15.U1']))
EQUIVALENT.append(('samples via floor then cast', 'phylib/stats/ccg.py', "    spike_samples = (spike_times * sample_rate).astype(np.int64)", "    spike_samples = np.floor(spike_times * sample_rate).astype(np.int64)"))
BREAKING.append(('loop bounded by a maximal shift', 'phylib/stats/ccg.py', "    while mask[:-shift].any():", "    while shift <= (winsize_bins // 2 + 1) * binsize and mask[:-shift].any():", ['C15.K1']))
BREAKING.append(('half-window from the ceiling of the ratio', C, "    winsize_bins = 2 * int(.5 * window_size / bin_size) + 1", "    winsize_bins = 2 * int(np.ceil(.5 * window_size / bin_size)) + 1", ['C15.U1']))
EQUIVALENT.append(('half-window as floor(ratio) // 2', C, "    winsize_bins = 2 * int(.5 * window_size / bin_size) + 1", "    winsize_bins = 2 * (int(window_size / bin_size) // 2) + 1"))
