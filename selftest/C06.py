M = 'phylib/io/model.py'
A = 'phylib/io/array.py'
BREAKING = [
    ('rows and rows_out swapped', M, "        features[rows_out, ...] = sf.data[rows]", "        features[rows, ...] = sf.data[rows_out]", ['C06.A0', 'C06.A1']),
    ('rows looked up in request', M, "            rows = _index_of(s, sf.rows)\n            # Relative indices of the non-null rows in the output features\n            # array.\n            rows_out = _index_of(s, spike_ids)", "            rows = _index_of(s, spike_ids)\n            # Relative indices of the non-null rows in the output features\n            # array.\n            rows_out = _index_of(s, sf.rows)", ['C06.A0']),
    ('columns by cluster', M, "            cols = sf.cols[self.spike_templates[spike_ids]]\n        else:\n            cols = np.tile(np.arange(n_channels_loc), (ns, 1))\n        features = from_sparse", "            cols = sf.cols[self.spike_clusters[spike_ids]]\n        else:\n            cols = np.tile(np.arange(n_channels_loc), (ns, 1))\n        features = from_sparse", ['C06.A0', 'C06.A1']),
    ('columns of spike id', M, "            cols = sf.cols[self.spike_templates[spike_ids]]\n        else:\n            cols = np.tile(np.arange(n_channels_loc), (ns, 1))\n        features = from_sparse", "            cols = sf.cols[spike_ids]\n        else:\n            cols = np.tile(np.arange(n_channels_loc), (ns, 1))\n        features = from_sparse", ['C06.A0', 'C06.A1']),
    ('stored rows read by spike id despite row table', M, "            rows = _index_of(s, sf.rows)\n", "            rows = s\n", ['C06.A0']),
    ('template feature columns by cluster', M, "            cols = tf.cols[self.spike_templates[spike_ids]]", "            cols = tf.cols[self.spike_clusters[spike_ids]]", ['C06.A0']),
    ('template features over present templates only', M, "        template_features = from_sparse(template_features, cols, np.arange(self.n_templates))", "        template_features = from_sparse(template_features, cols, self.template_ids)", ['C06.A2']),
    ('discard first in lookup', M, "    cols_loc = _index_of(c, np.r_[channel_ids, -1]).reshape(cols.shape)", "    cols_loc = _index_of(c, np.r_[-1, channel_ids]).reshape(cols.shape)", ['C06.A3']),
    ('drop first column', M, "    out = out[:, :-1, ...]", "    out = out[:, 1:, ...]", ['C06.A3']),
    ('no discard column', M, "    out_shape[channel_axis] = n_channels + 1", "    out_shape[channel_axis] = n_channels", ['C06.A3']),
    ('unrequested columns not redirected', M, "    c[~np.isin(c, channel_ids)] = -1\n", "", ['C06.A3']),
    ('store transposed', M, "    out[x, cols_loc, ...] = data", "    out[cols_loc, x, ...] = data", ['C06.A3']),
    ('index_of loses -1', A, "    tmp[-1] = -1\n", "", ['C06.A3']),
    ('index_of returns lookup', A, "    return tmp[arr]", "    return tmp[lookup]", ['C06.A3']),
    ('index_of off by one', A, "        tmp[lookup] = np.arange(len(lookup))", "        tmp[lookup] = np.arange(1, len(lookup) + 1)", ['C06.A3']),
    ('projection axes permuted', M, "    features = np.einsum('ijk,ljk->lki', pcs, x)", "    features = np.einsum('ijk,ljk->lik', pcs, x)", ['C06.A4']),
    ('projection contracts channels', M, "    features = np.einsum('ijk,ljk->lki', pcs, x)", "    features = np.einsum('ijk,lkj->lki', pcs, x)", ['C06.A0', 'C06.A4']),
    ('two components', M, "    pcs = _compute_pcs(waveforms, 3)", "    pcs = _compute_pcs(waveforms, 2)", ['C06.A4']),
    ('smallest components', M, "        pcs = vecs.T.astype(np.float32)[np.argsort(vals)[::-1]]", "        pcs = vecs.T.astype(np.float32)[np.argsort(vals)]", ['C06.A4']),
    ('computed features placed by stored position', M, "            ind = _index_of(spike_ids_exist, spike_ids)\n", "            ind = _index_of(spike_ids_exist, self.spike_waveforms.spike_ids)\n", ['C06.A0', 'C06.A4']),
    ('nan prefill removed', M, "        features[:] = np.nan\n", "", ['C06.A1']),
]
EQUIVALENT = [
    ('rename locals', M, "            rows = _index_of(s, sf.rows)\n", "            rows = _index_of(s, sf.rows)\n            assert len(rows) == len(s)\n"),
    ('einsum spaces', M, "    features = np.einsum('ijk,ljk->lki', pcs, x)", "    features = np.einsum('ijk, ljk -> lki', pcs, x)"),
]
BREAKING.append(('stored feature rows copied through a half-precision buffer', M, "        features = np.empty((ns, n_channels_loc, n_pcs))\n        features[:] = np.nan", "        features = np.empty((ns, n_channels_loc, n_pcs), dtype=np.float16)\n        features[:] = np.nan", ['C06.A1']))
EQUIVALENT.append(('NaN buffer allocated by np.full', M, "        features = np.empty((ns, n_channels_loc, n_pcs))\n        features[:] = np.nan", "        features = np.full((ns, n_channels_loc, n_pcs), np.nan)"))
