T = 'phylib/io/traces.py'
M = 'phylib/io/model.py'
BREAKING = [
    ('F02 reverted', T, "        self.fp.write(np.ascontiguousarray(chunk, dtype=self.dtype).tobytes())", "        self.fp.write(chunk.tobytes())", ['C03.Y1']),
    ('F03 reverted', T, "    sample = int(sample)  # NOTE: unsigned NumPy scalars would wrap around below 0\n    t0, t1 = sample - a, sample + b", "    t0, t1 = int(sample - a), int(sample + b)", ['C03.Y2']),
    ('F04 reverted', T, "        w[:, np.asarray(channel_ids) == -1] = 0", "        w[:, channel_ids == -1] = 0", ['C03.Y3']),
    ('window shifted by one', T, "    a = nsw // 2\n    b = nsw - a", "    a = nsw // 2 + 1\n    b = nsw - a", ['C03.S1']),
    ('window end at sample', T, "    t0, t1 = sample - a, sample + b", "    t0, t1 = sample - a, sample + a", ['C03.S1']),
    ('window centred with ceil', T, "    a = nsw // 2\n    b = nsw - a", "    a = nsw - nsw // 2\n    b = nsw - a", ['C03.S1']),
    ('pad on wrong side (start)', T, "        w = np.vstack((np.zeros((-t0, n_channels), dtype=w.dtype), w))", "        w = np.vstack((w, np.zeros((-t0, n_channels), dtype=w.dtype)))", ['C03.S1']),
    ('pad on wrong side (end)', T, "        w = np.vstack((w, np.zeros((nsw - w.shape[0], n_channels), dtype=w.dtype)))", "        w = np.vstack((np.zeros((nsw - w.shape[0], n_channels), dtype=w.dtype), w))", ['C03.S1']),
    ('no clamp at start', T, "    w = traces[max(0, t0):t1][:, channel_ids]", "    w = traces[t0:t1][:, channel_ids]", ['C03.S1']),
    ('end padding dropped', T, "    if t1 > dur:\n        w = np.vstack((w, np.zeros((nsw - w.shape[0], n_channels), dtype=w.dtype)))\n", "", ['C03.S1']),
    ('pad rows wrong', T, "        w = np.vstack((np.zeros((-t0, n_channels), dtype=w.dtype), w))", "        w = np.vstack((np.zeros((a, n_channels), dtype=w.dtype), w))", ['C03.S1']),
    ('end test non strict on wrong bound', T, "    if t1 > dur:", "    if t1 > dur + 1:", ['C03.S1']),
    ('-1 channels not zeroed', T, "    if not isinstance(channel_ids, slice):\n        w[:, np.asarray(channel_ids) == -1] = 0\n", "", ['C03.S1', 'C03.Y3']),
    ('spike in two chunks', T, "        ind = _find_chunks([i0, i1], spike_samples) == 0", "        ind = _find_chunks([i0, i1], spike_samples) >= 0", ['C03.S2']),
    ('channel rows not masked', T, "        sc = spike_channels[ind]", "        sc = spike_channels", ['C03.S2']),
    ('window from chunk start', T, "            waveforms[i, ...] = _extract_waveform(\n                traces, ss, channel_ids=channel_ids,", "            waveforms[i, ...] = _extract_waveform(\n                traces[i0:i1], ss, channel_ids=channel_ids,", ['C03.S2']),
    ('channel row of first spike', T, "            channel_ids = sc[i, :]", "            channel_ids = sc[0, :]", ['C03.S2']),
    ('factor dropped', T, "        writer.append(waveforms.astype(dtype) * sample2unit)", "        writer.append(waveforms)", ['C03.P1']),
    ('writer not closed', T, "    writer.close()\n    assert prod(shape) == size_written", "    assert prod(shape) == size_written", ['C03.P1']),
    ('header shape swapped', T, "    shape = (n_spikes, n_samples_waveforms, n_channels_loc)", "    shape = (n_spikes, n_channels_loc, n_samples_waveforms)", ['C03.A1']),
    ('store cols swapped', T, "            out[i, :, cols0] = spike_waveforms.waveforms[sid, :, cols1]", "            out[i, :, cols1] = spike_waveforms.waveforms[sid, :, cols0]", ['C03.A1']),
    ('store row by request position', T, "            out[i, :, cols0] = spike_waveforms.waveforms[sid, :, cols1]", "            out[i, :, cols0] = spike_waveforms.waveforms[i, :, cols1]", ['C03.A1']),
    ('store channels of first row', T, "        ind = spike_waveforms.spike_channels[sid, :]", "        ind = spike_waveforms.spike_channels[0, :]", ['C03.A1']),
    ('store positions in wrong tables', T, "            cols0 = _index_of(channel_common, channel_ids)\n            cols1 = _index_of(channel_common, ind)", "            cols0 = _index_of(channel_common, ind)\n            cols1 = _index_of(channel_common, channel_ids)", ['C03.A1']),
    ('subset channels by cluster', M, "        spike_channels = best_channels[self.spike_templates[spike_ids], :]", "        spike_channels = best_channels[self.spike_clusters[spike_ids], :]", ['C03.A2']),
    ('subset samples of all spikes', M, "            path, self.traces, self.spike_samples[spike_ids], spike_channels,", "            path, self.traces, self.spike_samples[:len(spike_ids)], spike_channels,", ['C03.A2']),
    ('raw window at spike times', M, "            spike_samples = self.spike_samples[spike_ids]\n            return extract_waveforms(\n                self.traces, spike_samples, channel_ids, n_samples_waveforms=nsw)\n\n    def get_features", "            spike_samples = self.spike_times[spike_ids]\n            return extract_waveforms(\n                self.traces, spike_samples, channel_ids, n_samples_waveforms=nsw)\n\n    def get_features", ['C03.A2']),
    ('extract order reversed', T, "        out[i] = _extract_waveform(", "        out[ns - 1 - i] = _extract_waveform(", ['C03.A2']),
]
EQUIVALENT = [
    ('cast in export', T, "        self.fp.write(np.ascontiguousarray(chunk, dtype=self.dtype).tobytes())", "        self.fp.write(chunk.astype(self.dtype).tobytes())"),
    ('window via explicit half', T, "    a = nsw // 2\n    b = nsw - a", "    a = nsw // 2\n    b = nsw - nsw // 2"),
    ('bounds spelled out', T, "    t0, t1 = sample - a, sample + b", "    t0 = sample - a\n    t1 = t0 + nsw"),
    ('concatenate for padding', T, "        w = np.vstack((w, np.zeros((nsw - w.shape[0], n_channels), dtype=w.dtype)))", "        w = np.concatenate((w, np.zeros((nsw - w.shape[0], n_channels), dtype=w.dtype)))"),
    ('int inline', T, "    sample = int(sample)  # NOTE: unsigned NumPy scalars would wrap around below 0\n    t0, t1 = sample - a, sample + b", "    t0, t1 = int(sample) - a, int(sample) + b"),
]
BREAKING.append(('F20 reverted: unit factor applied in the sample dtype', 'phylib/io/traces.py', '        writer.append(waveforms.astype(dtype) * sample2unit)', '        writer.append(waveforms * sample2unit)', ['C03.Y4']))
EQUIVALENT.append(('unit factor as float', 'phylib/io/traces.py', '        writer.append(waveforms.astype(dtype) * sample2unit)', '        writer.append(waveforms * float(sample2unit))'))
BREAKING.append(('store position tables memoised on the set of common channels', 'phylib/io/traces.py', "        if len(channel_ids) > 0:\n            cols0 = _index_of(channel_common, channel_ids)\n            cols1 = _index_of(channel_common, ind)\n            assert len(cols0) == len(cols1)\n            out[i, :, cols0] = spike_waveforms.waveforms[sid, :, cols1]", "        if prev is None or not np.array_equal(channel_common, prev):\n            prev = channel_common\n            cols0 = _index_of(channel_common, channel_ids)\n            cols1 = _index_of(channel_common, ind)\n        out[i, :, cols0] = spike_waveforms.waveforms[sid, :, cols1]", ['C03.A1']))
BREAKING.append(('F21 reverted: all missing rows stacked before the data', 'phylib/io/traces.py', "        w = np.vstack((np.zeros((-t0, n_channels), dtype=w.dtype), w))", "        w = np.vstack((np.zeros((nsw - w.shape[0], n_channels), dtype=w.dtype), w))", ['C03.S1']))
