"""Demonstrations of the defects F01..F21 against the real code (dynamic, scratch only; not a check).
usage: /venv/bin/python findings/repro_all.py [/path/to/repo]   -> prints PASS/FAIL per finding."""
import os, sys, tempfile, shutil, traceback
sys.path.insert(0, os.path.dirname(__file__))
import shim  # noqa
import numpy as np
from pathlib import Path

R = {}
def case(name):
    def deco(f):
        try:
            f(); R[name] = 'PASS'
        except Exception as e:
            R[name] = 'FAIL %s: %s' % (type(e).__name__, str(e)[:150])
        return f
    return deco

def tmp():
    return Path(tempfile.mkdtemp(prefix='phyrepro_'))

def make_dataset(d, n_spikes=40, n_tmpl=4, n_chan=20, n_samp=10, nan_template=None, sparse=False, alf=False,
                 with_clusters=True, amplitudes=True, seed=0, curated=None, raw=False, n_chan_dat=None, feats=False):
    rng = np.random.RandomState(seed)
    d.mkdir(parents=True, exist_ok=True)
    st = np.sort(rng.randint(20, 2000, n_spikes)).astype(np.uint64)
    tm = rng.randint(0, n_tmpl, n_spikes).astype(np.int32); tm[:n_tmpl] = np.arange(n_tmpl)
    np.save(d / 'spike_times.npy', st)
    np.save(d / 'spike_templates.npy', tm)
    if with_clusters:
        np.save(d / 'spike_clusters.npy', (tm if curated is None else curated).astype(np.int32))
    if amplitudes:
        np.save(d / 'amplitudes.npy', rng.rand(n_spikes) + .5)
    np.save(d / 'channel_map.npy', np.arange(n_chan).astype(np.int32))
    pos = np.c_[np.zeros(n_chan), np.arange(n_chan) * 10.]
    np.save(d / 'channel_positions.npy', pos)
    T = rng.randn(n_tmpl, n_samp, n_chan).astype(np.float32)
    if nan_template is not None:
        T[nan_template] = np.nan
    np.save(d / 'templates.npy', T)
    np.save(d / 'whitening_mat.npy', np.eye(n_chan) + .01 * rng.rand(n_chan, n_chan))
    if feats:
        np.save(d / 'pc_features.npy', rng.rand(n_spikes, 3, 5).astype(np.float32))
        np.save(d / 'pc_feature_ind.npy', np.tile(np.arange(5), (n_tmpl, 1)).astype(np.uint32))
    dat = []
    if raw:
        arr = (rng.randn(2100, n_chan_dat or n_chan) * 100).astype(np.int16)
        arr.tofile(d / 'raw.dat'); dat = 'raw.dat'
    (d / 'params.py').write_text("dat_path = %r\nn_channels_dat = %d\ndtype = 'int16'\noffset = 0\nsample_rate = 1000.\nhp_filtered = False\n" % (dat, n_chan_dat or n_chan))
    return d

@case('F01 reader[array, cols]')
def _():
    from phylib.io.traces import get_ephys_reader
    a = np.arange(40).reshape(10, 4)
    r = get_ephys_reader(a, sample_rate=100.)
    out = r[np.array([0, 1]), 1:]
    assert np.array_equal(out, a[np.array([0, 1]), 1:])

@case('F02 export_waveforms header dtype == bytes dtype')
def _():
    from phylib.io.traces import get_ephys_reader, export_waveforms
    d = tmp()
    try:
        a = (np.arange(200 * 3).reshape(200, 3)).astype(np.int16)
        r = get_ephys_reader(a, sample_rate=100.)
        export_waveforms(d / 'w.npy', r, np.array([10, 50]), np.array([[0, 1], [1, 2]]), n_samples_waveforms=6, sample2unit=1)
        w = np.load(d / 'w.npy')
        assert w.shape == (2, 6, 2)
        assert np.array_equal(w[0], a[7:13][:, [0, 1]])
    finally:
        shutil.rmtree(d)

@case('F03 unsigned spike sample near 0')
def _():
    from phylib.io.traces import extract_waveforms
    a = np.arange(60).reshape(20, 3).astype(np.float32)
    w = extract_waveforms(a, np.array([1], dtype=np.uint64), [0, 1], n_samples_waveforms=6)
    exp = np.vstack((np.zeros((2, 2)), a[0:4][:, [0, 1]]))
    assert np.array_equal(w[0], exp)

@case('F04 channel list with -1 given as a Python list')
def _():
    from phylib.io.traces import extract_waveforms
    a = np.arange(60).reshape(20, 3).astype(np.float32) + 1
    w = extract_waveforms(a, [10], [0, -1], 4)
    assert np.all(w[0][:, 1] == 0)

@case('F05 loading leaves templates.npy byte-identical')
def _():
    from phylib.io.model import load_model
    d = make_dataset(tmp(), nan_template=2)
    try:
        b = (d / 'templates.npy').read_bytes()
        m = load_model(d / 'params.py'); m.close()
        assert (d / 'templates.npy').read_bytes() == b
    finally:
        shutil.rmtree(d)

@case('F06 ALF-named dataset without spikes.clusters loads')
def _():
    from phylib.io.model import load_model
    d = make_dataset(tmp(), with_clusters=False)
    try:
        os.rename(d / 'spike_templates.npy', d / 'spikes.templates.npy')
        m = load_model(d / 'params.py')
        assert np.array_equal(m.spike_clusters, m.spike_templates); m.close()
    finally:
        shutil.rmtree(d)

def _check_record(m, t, rec):
    tpl = rec.template
    assert tpl.shape[1] == len(rec.channel_ids) == len(rec.amplitude), (tpl.shape, len(rec.channel_ids), len(rec.amplitude))
    ptp = tpl.max(axis=0) - tpl.min(axis=0)
    assert np.allclose(ptp, rec.amplitude, rtol=1e-5), 'amplitude not aligned with columns'

@case('F07 dense template record amplitude aligned')
def _():
    from phylib.io.model import load_model
    d = make_dataset(tmp(), n_chan=20, seed=3)
    try:
        m = load_model(d / 'params.py')
        for t in range(4):
            _check_record(m, t, m.get_template(t))
        m.close()
    finally:
        shutil.rmtree(d)

@case('F08 dense template record with explicit channel list')
def _():
    from phylib.io.model import load_model
    d = make_dataset(tmp(), n_chan=20, seed=3)
    try:
        m = load_model(d / 'params.py')
        _check_record(m, 0, m.get_template(0, channel_ids=np.array([3, 1])))
        m.close()
    finally:
        shutil.rmtree(d)

@case('F09 sparse template record amplitude aligned')
def _():
    from phylib.io.model import load_model
    d = make_dataset(tmp(), n_chan=20, seed=5)
    try:
        T = np.load(d / 'templates.npy')[:, :, :6]
        np.save(d / 'templates.npy', T)
        np.save(d / 'template_ind.npy', np.tile(np.array([4, 9, 2, 7, 11, 5]), (4, 1)))
        m = load_model(d / 'params.py')
        for t in range(4):
            _check_record(m, t, m.get_template(t))
        m.close()
    finally:
        shutil.rmtree(d)

@case('F10 amplitudes when the highest template has no spikes')
def _():
    from phylib.io.model import load_model
    d = make_dataset(tmp(), n_tmpl=4)
    try:
        tm = np.load(d / 'spike_templates.npy'); tm[tm == 3] = 0
        np.save(d / 'spike_templates.npy', tm); np.save(d / 'spike_clusters.npy', tm)
        m = load_model(d / 'params.py')
        sa, tv, ta = m.get_amplitudes_true()
        assert ta.shape == (4,) and np.isnan(ta[3]) and tv.shape[0] == 4
        m.close()
    finally:
        shutil.rmtree(d)

def _merge3(root, nch=(6, 9, 4), feat_dtype=np.int32):
    from phylib.io.merge import Merger
    subs = []
    for k, nc in enumerate(nch):
        d = make_dataset(root / ('p%d' % k), n_spikes=30 + k, n_tmpl=3 + k, n_chan=nc, seed=10 + k, amplitudes=True)
        rng = np.random.RandomState(k)
        np.save(d / 'pc_feature_ind.npy', np.tile(np.arange(min(3, nc)), (3 + k, 1)).astype(feat_dtype))
        np.save(d / 'template_feature_ind.npy', np.tile(np.arange(3), (3 + k, 1)).astype(feat_dtype))
        np.save(d / 'similar_templates.npy', rng.rand(3 + k, 3 + k))
        np.save(d / 'whitening_mat_inv.npy', np.linalg.inv(np.load(d / 'whitening_mat.npy')))
        subs.append(d)
    out = root / 'merged'
    mg = Merger(subs, out)
    return subs, out, mg

@case('F11 merged templates: block of probe k on cumulative channel offset (3 probes)')
def _():
    root = tmp()
    try:
        subs, out, mg = _merge3(root)
        mg.write_templates()
        T = np.load(out / 'templates.npy')
        c0 = 0; t0 = 0
        for s in subs:
            Tk = np.load(s / 'templates.npy')
            nt, _, nc = Tk.shape
            blk = T[t0:t0 + nt]
            assert np.array_equal(blk[:, :, c0:c0 + nc], Tk), 'probe block misplaced at channel offset %d' % c0
            rest = np.delete(blk, np.s_[c0:c0 + nc], axis=2)
            assert np.all(rest == 0)
            c0 += nc; t0 += nt
    finally:
        shutil.rmtree(root)

@case('F12 merged pc_feature_ind / template_feature_ind shifted into merged numbering')
def _():
    root = tmp()
    try:
        subs, out, mg = _merge3(root, feat_dtype=np.uint32)
        mg.write_spike_times(); mg.write_spike_clusters(); mg.write_channel_data(); mg.write_template_data()
        pc = np.load(out / 'pc_feature_ind.npy'); tf = np.load(out / 'template_feature_ind.npy')
        c0 = 0; t0 = 0; r = 0
        for s in subs:
            pk = np.load(s / 'pc_feature_ind.npy'); tk = np.load(s / 'template_feature_ind.npy')
            nt = pk.shape[0]
            assert np.array_equal(pc[r:r + nt], pk + c0), 'pc_feature_ind of probe not shifted by %d' % c0
            assert np.array_equal(tf[r:r + nt], tk + t0), 'template_feature_ind not shifted by %d' % t0
            c0 += np.load(s / 'channel_map.npy').shape[0]; t0 += np.load(s / 'spike_templates.npy').max() + 1; r += nt
    finally:
        shutil.rmtree(root)

@case('F13 ALF rawInd of a merged 3-probe dataset restores each probe map')
def _():
    from phylib.io.alf import EphysAlfCreator
    class M: pass
    root = tmp()
    try:
        subs, out, mg = _merge3(root)
        mg.write_channel_data()
        m = M(); m.dir_path = out
        m.channel_mapping = np.load(out / 'channel_map.npy'); m.channel_probes = np.load(out / 'channel_probe.npy')
        m.spike_clusters = np.array([0, 1, 1])
        c = EphysAlfCreator(m); c.out_path = root / 'alf'; c.out_path.mkdir()
        c.make_channel_objects()
        raw = np.load(c.out_path / 'channels.rawInd.npy')
        exp = np.concatenate([np.load(s / 'channel_map.npy') for s in subs])
        assert np.array_equal(raw, exp), (raw, exp)
    finally:
        shutil.rmtree(root)

@case('F14 ALF export of a curated dataset without empty cluster ids')
def _():
    from phylib.io.model import load_model
    from phylib.io.alf import EphysAlfCreator
    root = tmp()
    try:
        d = make_dataset(root / 'ks', n_tmpl=4, seed=2)
        tm = np.load(d / 'spike_templates.npy')
        sc = tm.copy(); sc[tm == 3] = 2          # merge 3 into 2: ids 0..2 all non-empty
        np.save(d / 'spike_clusters.npy', sc.astype(np.int32))
        m = load_model(d / 'params.py')
        assert np.asarray(m.nan_idx).dtype.kind in 'iu', 'nan_idx dtype %s' % np.asarray(m.nan_idx).dtype
        c = EphysAlfCreator(m); c.out_path = root / 'alf'; c.out_path.mkdir(); c.label = ''; c.ampfactor = 1
        c.make_cluster_objects()
        m.close()
    finally:
        shutil.rmtree(root)

@case('F15 nested silent() keeps events silenced')
def _():
    from phylib.utils.event import EventEmitter
    e = EventEmitter(); got = []
    e.connect(lambda sender: got.append(1), event='x')
    with e.silent():
        with e.silent():
            e.emit('x', None)
        e.emit('x', None)
    assert got == [], got
    e.emit('x', None); assert got == [1]

@case('F16 ProgressReporter.reset re-arms completion')
def _():
    from phylib.utils.event import ProgressReporter, connect, unconnect
    pr = ProgressReporter(); n = []
    @connect(sender=pr)
    def on_complete(sender, **kw): n.append(1)
    pr.value_max = 5
    pr.set_complete(); pr.reset(); pr.set_complete()
    unconnect(on_complete)
    assert len(n) == 2, n

@case('F17a JSON negative integer keys')
def _():
    from phylib.utils._misc import save_json, load_json
    d = tmp()
    try:
        save_json(d / 'a.json', {-3: 'x', 4: 'y'})
        assert load_json(d / 'a.json') == {-3: 'x', 4: 'y'}
    finally:
        shutil.rmtree(d)

@case('F17b JSON digit-string keys stay strings')
def _():
    from phylib.utils._misc import save_json, load_json
    d = tmp()
    try:
        save_json(d / 'a.json', {'7': 'x'})
        assert load_json(d / 'a.json') == {'7': 'x'}
    finally:
        shutil.rmtree(d)

@case('F18 write_python with quotes in a string value')
def _():
    from phylib.utils._misc import write_python, read_python
    d = tmp()
    try:
        data = {'a': 'q"q', 'b': 'back\\slash', 'c': 3}
        write_python(d / 'p.py', data)
        assert read_python(d / 'p.py') == data
    finally:
        shutil.rmtree(d)

@case('F19 metadata field named "info" survives save/reload')
def _():
    from phylib.io.model import load_model
    d = make_dataset(tmp())
    try:
        m = load_model(d / 'params.py')
        m.save_metadata('info', {0: 5, 1: 7}); m.save_metadata('quality', {0: 1}); m.close()
        m2 = load_model(d / 'params.py')
        assert m2.metadata.get('quality') == {0: 1}
        assert m2.metadata.get('info') == {0: 5, 1: 7}, m2.metadata.get('info')
        m2.close()
    finally:
        shutil.rmtree(d)

@case('F20 export_waveforms: int16 samples x integer unit factor')
def _():
    from phylib.io.traces import export_waveforms, get_ephys_reader, extract_waveforms
    d = tmp()
    try:
        arr = (np.arange(200 * 4).reshape(200, 4) * 40).astype(np.int16)
        tr = get_ephys_reader(arr, sample_rate=1000.)
        ss, sc = np.array([50, 150]), np.array([[0, 1], [2, 3]])
        export_waveforms(d / 'w.npy', tr, ss, sc, n_samples_waveforms=6, sample2unit=3)
        ref = np.stack([extract_waveforms(arr, [s_], c_, 6)[0] for s_, c_ in zip(ss, sc)]).astype(np.float64) * 3
        assert np.array_equal(np.load(d / 'w.npy'), ref)
    finally:
        shutil.rmtree(d)

@case('F21 extract_waveforms: recording shorter than the window')
def _():
    from phylib.io.traces import extract_waveforms
    arr = (np.arange(4 * 2).reshape(4, 2) + 1).astype(np.int16)
    n, s_ = 10, 2
    w = extract_waveforms(arr, [s_], [0, 1], n)[0]
    ref = np.zeros((n, 2), dtype=arr.dtype)
    for r in range(n):
        if 0 <= s_ - n // 2 + r < len(arr):
            ref[r] = arr[s_ - n // 2 + r]
    assert np.array_equal(w, ref)

for k, v in R.items():
    print('%-75s %s' % (k, v))
