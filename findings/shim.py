"""Scratch-only shim used by the repro scripts in this directory (NOT by any check).

phylib/io/traces.py imports two private names from numpy.lib.format that NumPy >= 2 moved to
numpy.lib._format_impl; the 52 baseline tests never import phylib.io. To demonstrate a defect
against the real code the names are injected here, in the demonstrating process only.
"""
import sys
import numpy.lib.format as _f
try:
    import numpy.lib._format_impl as _impl
    for _n in ('_check_version', '_write_array_header'):
        if not hasattr(_f, _n):
            setattr(_f, _n, getattr(_impl, _n))
except ImportError:
    pass
sys.path.insert(0, sys.argv[1] if len(sys.argv) > 1 and sys.argv[1].startswith('/') else '/repo')
