"""C08 - curated clusters get the right template provenance and waveforms.

Decided (shape engine + structural rules)
  A0  no index-space / dimension conflict in get_merge_map, cluster_waveforms, get_cluster_mean_waveforms, get_template_counts
  A1  get_merge_map: a dictionary keyed by every cluster id 0..max (range(max(spike_clusters) + 1)) whose values are lists of
      TEMPLATE ids, filled from the clusters of each template's spikes; the empty-id list = the keys whose list is empty, as
      cluster indices
  A2  cluster_waveforms: an array over (cluster ids 0..max, samples, channels); single-template clusters copy the stored waveform of
      that template on all channels; multi-template clusters store the mean waveform on the mean's channel list with the axes in the
      order NumPy's advanced indexing produces
  A3  get_cluster_mean_waveforms: weights = per-template spike counts of the cluster restricted to the contributing templates (the same
      subset as the stacked waveforms), channels = those of the template with most spikes, every template scattered on its own
      channel list, the unwhiten flag forwarded
  A4  _load_data: merged clusters iff assignments differ and storage is dense; n_clusters = max + 1 of the respective id vector;
      identical assignments reuse the template waveforms
  +   the averaging weights count the spikes of a RESTRICTION of the spike table (the cluster), not all spikes (histograms carry what they count)
Not decided: weighted-mean values; which template wins when the top spike counts are exactly tied (the statement does not define it).
"""
import ast

from vlib import q
from vlib.pat import Pat, returned
from vlib.front import unparse, dotted, const_value, AnchorMissing
from vlib.shape import Shape, Space, Ix, Q, D, BoolT, StrT, NoneT, SizeOf, UNK, is_unk, Arr, Rec, Tup, ListT, DictT, B
from obligations.shape_tables import (model_attrs, M, Tmpl, Clu, Chan, Samp, Spike, AMP, AMPWH, CNT)

FLOOR = 11          # decided obligations below this = the analysis lost its footing (exit 2); clean tree: 32
RULES = ('C08.A0', 'C08.A1', 'C08.A2', 'C08.A3', 'C08.A4')          # every obligation group must report (holds / violated / undecided): a group that vanishes silently is an analysis error
EXPLANATION = ('shape engine over the curation methods of TemplateModel with callees inline (get_template, get_template_counts, '
               'get_cluster_spikes, _spikes_in_clusters): dictionary key/value kinds, array axes, alignment of weights with the averaged axis, '
               'scatter/gather index spaces; plus structural rules on the branch of _load_data')
TRUSTED = ['python ast', 'NumPy transfer rules of vlib/shape.py (advanced-index axis placement, average weights)', 'attribute signatures']
ASSUMPTIONS = ['dense templates']


def flush(ctx, S, label):
    n = 0
    for r in S.reports:
        n += 1
        ctx.violated('C08.A0', r.fi, r.node, '[%s] %s' % (label, r.msg))
    return n


def _flag_sites(repo, fi, pname, depth):
    """get_template call sites reached from `fi` (through helpers that did not exist on the pinned tree) -> [(function, call, 'ok' | 'bad' | 'unknown')]:
    ok = the call receives the caller's unwhiten flag (`pname`: the local holding it in `fi`, None when the flag did not reach `fi`)."""
    from vlib.proto import known_functions
    out = []
    for c in fi.calls():
        if q.method_name(c) == 'get_template':
            v = q.arg(c, 1, 'unwhiten')
            if v is None or const_value(v) is not None or isinstance(v, ast.Constant):
                out.append((fi, c, 'bad'))
            elif isinstance(v, ast.Name) and pname is not None and v.id == pname and len(fi.defs().get(pname, [])) <= 1:
                out.append((fi, c, 'ok'))
            else:
                out.append((fi, c, 'unknown'))
            continue
        if depth >= 3:
            continue
        try:
            tgs = repo.resolve_call(fi, c, virtual=False)
        except Exception:
            tgs = []
        for t in tgs:
            if t.where in known_functions():
                continue
            inner = None
            params = [p_ for p_ in t.params if p_ != 'self']
            for k_, p_ in enumerate(params):
                a_ = q.arg(c, k_, p_)
                if isinstance(a_, ast.Name) and pname is not None and a_.id == pname:
                    inner = p_
            out.extend(_flag_sites(repo, t, inner, depth + 1))
    return out


def a4_branch(ctx, ld):
    """Curated / uncurated branch of _load_data (or of the helper extracted from it), decided path by path: the two conditions of the statement are replaced by
    atoms SAME (`np.all(spike_clusters == spike_templates)` and its spellings) and DENSE (`sparse_templates.cols is None`), the statements that set the four
    attributes are walked with the path-sensitive interpreter, and on every path the stores are compared with what the facts of that path demand:
    SAME false and DENSE true -> merge map, then cluster waveforms, n_clusters = max(spike_clusters) + 1; SAME true or DENSE false -> the template tables."""
    import copy as _copy
    from vlib import proto
    from vlib.proto import T, C, is_t, is_c, show, subterms
    repo = ctx.repo
    ATTRS = ('sparse_clusters', 'n_clusters', 'merge_map', 'nan_idx')

    def stores_attr(n):
        return any(isinstance(x, ast.Attribute) and x.attr in ATTRS and isinstance(x.ctx, ast.Store) for x in ast.walk(n))
    homes = [f_ for f_ in repo.transparent_closure(ld) if any(stores_attr(st_) for st_ in f_.body())]
    if len(homes) != 1:
        return ctx.undecided('C08.A4', ld, 'the statements setting sparse_clusters / n_clusters / merge_map / nan_idx were not found in one function')
    F = homes[0]
    body = F.body()
    keep = [k_ for k_, st_ in enumerate(body) if stores_attr(st_)]
    need = {n.id for k_ in keep for n in ast.walk(body[k_]) if isinstance(n, ast.Name) and isinstance(n.ctx, ast.Load)}
    for k_ in range(max(keep), -1, -1):
        st_ = body[k_]
        if k_ not in keep and isinstance(st_, ast.Assign) and any(isinstance(t_, ast.Name) and t_.id in need for t_ in st_.targets):
            keep.append(k_)
            need |= {n.id for n in ast.walk(st_.value) if isinstance(n, ast.Name)}
    stmts = [_copy.deepcopy(body[k_]) for k_ in sorted(keep)]
    SAMES = ['np.all(self.spike_clusters == self.spike_templates)', 'np.array_equal(self.spike_clusters, self.spike_templates)', '(self.spike_clusters == self.spike_templates).all()',
             'np.array_equal(self.spike_templates, self.spike_clusters)']
    DIFFS = ['np.any(self.spike_clusters != self.spike_templates)', '(self.spike_clusters != self.spike_templates).any()']

    class Atoms(ast.NodeTransformer):
        def visit(self, n):
            if isinstance(n, ast.expr):
                if Pat().any(SAMES, n):
                    return ast.copy_location(ast.Name(id='SAME__', ctx=ast.Load()), n)
                if Pat().any(DIFFS, n):
                    return ast.copy_location(ast.UnaryOp(op=ast.Not(), operand=ast.Name(id='SAME__', ctx=ast.Load())), n)
                if Pat().m('self.sparse_templates.cols is None', n):
                    return ast.copy_location(ast.Name(id='DENSE__', ctx=ast.Load()), n)
                if Pat().m('self.sparse_templates.cols is not None', n):
                    return ast.copy_location(ast.UnaryOp(op=ast.Not(), operand=ast.Name(id='DENSE__', ctx=ast.Load())), n)
            return self.generic_visit(n)
    stmts = [ast.fix_missing_locations(Atoms().visit(st_)) for st_ in stmts]
    SAME, DENSE, me = T('SAME'), T('DENSE'), T('self')
    I = proto.Interp(repo, unroll=1, inline_depth=0)
    I.fi_stack = [F]
    I._pending = []
    outs = I.block(stmts, proto.State({F.params[0]: me, 'SAME__': SAME, 'DENSE__': DENSE}))
    ctx.analysed['paths'] += len(outs)

    def kind_of(heap):
        sc, nc, mm, ni = (heap.get((me, a_)) for a_ in ATTRS)
        def is_call(t, suffix):
            return is_t(t) and t[1] == 'call' and isinstance(t[2], str) and t[2].endswith(suffix)
        def max_plus_one(t, attr):
            return is_t(t) and t[1] == 'Add' and C(1) in t[2:] and any(is_t(x) and x[1] == 'call' and (x[2].endswith('.max') or x[2] in ('np.max', 'np.amax')) and
                                                                      any(y == T('attr', me, attr) for y in subterms(x)) for x in t[2:])
        cur = [is_call(sc, 'cluster_waveforms'), max_plus_one(nc, 'spike_clusters'),
               is_t(mm) and any(is_call(x, 'get_merge_map') for x in subterms(mm)), is_t(ni) and any(is_call(x, 'get_merge_map') for x in subterms(ni))]
        unc = [sc == T('attr', me, 'sparse_templates'), max_plus_one(nc, 'spike_templates') or nc == T('attr', me, 'n_templates'),
               is_t(mm) and mm[1] == 'dict' and len([x for x in mm[2:] if x != T('dict')]) <= 1 and '{}' in show(mm), (is_t(ni) and ni[1] == 'list' and len(ni) == 2) or
               (is_t(ni) and ni[1] == 'call' and ni[2] in ('np.array', 'np.asarray', 'np.zeros', 'np.empty'))]
        return cur, unc, (sc, nc, mm, ni)
    names = ('cluster waveforms', 'number of clusters', 'merge map', 'empty ids')
    problems, unknown, n_ok = [], [], 0
    for kind, val, st in outs:
        if kind not in ('fall', 'return'):
            continue
        same, dense = st.facts.get(('truth', SAME)), st.facts.get(('truth', DENSE))
        cur, unc, vals = kind_of(st.heap)
        if all(v is None for v in vals):
            continue
        facts = 'assignments %s, templates %s' % ({True: 'identical', False: 'different', None: 'not compared'}[same], {True: 'dense', False: 'sparse', None: 'not tested'}[dense])
        if same is False and dense is True:
            want, got = 'curated', cur
        elif same is True or dense is False:
            want, got = 'uncurated', unc
        else:
            # the path decided without one of the two facts: whatever it stores is wrong for one completion
            if all(cur) or all(unc):
                problems.append('the %s tables are set on a path that does not establish both conditions (%s): moving spikes between existing clusters, or sparse templates, '
                                'are not told apart' % ('curated' if all(cur) else 'template', facts))
            else:
                unknown.append('path with %s: stores not recognised' % facts)
            continue
        if all(got):
            n_ok += 1
            if want == 'curated':
                calls = [(e_[1], k_) for k_, e_ in enumerate(st.trace) if e_[0] == 'store']
                mm_t, sc_t = st.heap.get((me, 'merge_map')), st.heap.get((me, 'sparse_clusters'))
                n_mm = [x[3][1] for x in subterms(mm_t) if is_t(x) and x[1] == 'call' and x[2].endswith('get_merge_map') and is_c(x[3])]
                n_sc = [x[3][1] for x in subterms(sc_t) if is_t(x) and x[1] == 'call' and x[2].endswith('cluster_waveforms') and is_c(x[3])]
                if n_mm and n_sc and min(n_sc) < min(n_mm):
                    problems.append('cluster_waveforms runs before the merge map exists')
        else:
            other = unc if want == 'curated' else cur
            wrong = [names[k_] for k_ in range(4) if not got[k_]]
            blank = want == 'uncurated' and not got[0] and any(is_t(x) and x[1] == 'call' and x[2] in ('np.zeros_like', 'np.zeros', 'np.empty', 'np.empty_like', 'np.ones_like', 'np.full_like')
                                                               for x in subterms(vals[0]))
            if blank:
                problems.append('with %s the cluster waveforms are a freshly allocated array (%s), not the template waveforms' % (facts, show(vals[0])[:60]))
            elif any(other[k_] and not got[k_] for k_ in range(4)):
                problems.append('with %s the %s %s set as for the %s case' % (facts, ' / '.join(names[k_] for k_ in range(4) if other[k_] and not got[k_]),
                                                                                 'is' if sum(1 for k_ in range(4) if other[k_] and not got[k_]) == 1 else 'are', 'uncurated' if want == 'curated' else 'curated'))
            else:
                unknown.append('with %s: %s not recognised (%s)' % (facts, ' / '.join(wrong), '; '.join(show(vals[k_])[:40] for k_ in range(4) if not got[k_])))
    if problems:
        for msg in sorted(set(problems))[:3]:
            ctx.violated('C08.A4', F, msg[:120], msg)
    elif unknown or n_ok == 0:
        ctx.undecided('C08.A4', F, (sorted(set(unknown)) or ['no path sets the cluster tables'])[0])
    else:
        ctx.holds('C08.A4', F, 'on every path: assignments different and templates dense -> merge map, then cluster waveforms, n_clusters = max(spike_clusters) + 1; otherwise the cluster '
                  'tables ARE the template tables, as many clusters as templates, nothing empty (%d paths)' % n_ok, 'curated / uncurated branch')


def run(ctx):
    repo = ctx.repo
    cls = repo.cls(M, 'TemplateModel')

    def meth(n):
        m = repo.lookup_method(cls, n)
        if m is None:
            raise AnchorMissing('TemplateModel.%s' % n)
        return m
    nrep = 0
    # ---- A1
    gm = meth('get_merge_map')
    S = Shape(repo, selfattrs=model_attrs(), inline_depth=2)
    res = S.result(gm, {'self': UNK})
    nrep += flush(ctx, S, 'get_merge_map')
    if isinstance(res, Tup) and len(res.items) == 2 and isinstance(res.items[0], DictT):
        d, nan = res.items
        ctx.check(isinstance(d.key, Ix) and d.key.space is Clu, 'C08.A1', gm, 'map keys', 'the map is keyed by cluster ids', 'the map is keyed by %s, expected cluster ids' % d.key)
        ve = d.val.elem if isinstance(d.val, ListT) else None
        if isinstance(ve, Ix):
            ctx.check(ve.space is Tmpl, 'C08.A1', gm, 'map values', 'the values are lists of template ids', 'the values are lists of %s, expected template ids' % ve)
        else:
            ctx.undecided('C08.A1', gm, 'element kind of the map values not derived (%s)' % ve)
        ctx.check(isinstance(nan, Arr) and isinstance(nan.elem, Ix) and nan.elem.space is Clu, 'C08.A1', gm, 'empty ids', 'the empty-id list holds cluster ids', 'the empty-id list holds %s' % nan, value=getattr(nan, 'elem', nan))
    else:
        ctx.undecided('C08.A1', gm, 'get_merge_map returns %s' % res)
    PG = Pat(gm)
    dc = [n for n in gm.nodes(ast.DictComp)]
    if not dc:
        ctx.undecided('C08.A1', gm, 'initialisation of the map (dictionary comprehension over the cluster ids) not recognised')
    else:
        it = gm.expand(dc[0].generators[0].iter)
        good = Pat().any(['range(np.max(self.spike_clusters) + 1)', 'range(self.spike_clusters.max() + 1)', 'range(int(np.max(self.spike_clusters)) + 1)', 'range(self.n_clusters)',
                          'np.arange(np.max(self.spike_clusters) + 1)'], it) and isinstance(dc[0].value, ast.List) and not dc[0].value.elts
        bad = not good and (Pat().any(['range(np.max(self.spike_clusters))', 'range(self.spike_clusters.max())', 'np.unique(self.spike_clusters)', 'self.cluster_ids', 'range(np.max(self.spike_templates) + 1)',
                                       'range(self.n_templates)', 'range(1, np.max(self.spike_clusters) + 1)'], it))
        if good:
            ctx.holds('C08.A1', gm, 'every cluster id from 0 to the maximum gets an (initially empty) entry', dc[0])
        elif bad:
            ctx.violated('C08.A1', gm, dc[0], 'the map is initialised over `%s`, not over every id in range(max(spike_clusters) + 1): ids without spikes (or the highest id) get no entry' % unparse(it))
        else:
            ctx.undecided('C08.A1', gm, 'initialisation of the map `%s` not in a recognised form' % unparse(dc[0])[:70], dc[0])
    loops = gm.nodes(ast.For)
    if not loops:
        ctx.undecided('C08.A1', gm, 'loop over the templates not recognised')
    else:
        it = loops[0].iter
        good = Pat().any(['np.unique(self.spike_templates)', 'self.template_ids', '_unique(self.spike_templates)', 'range(self.n_templates)', 'range(np.max(self.spike_templates) + 1)'], it)
        bad = False     # iterating the clusters instead of the templates is a different but legitimate way to fill the map: not judged here
        if good:
            ctx.holds('C08.A1', gm, 'every template that has spikes is distributed', it)
        elif bad:
            ctx.violated('C08.A1', gm, it, 'the loop runs over `%s`, not over the templates that have spikes' % unparse(it))
        else:
            ctx.undecided('C08.A1', gm, 'iteration `%s` of get_merge_map not recognised' % unparse(it), it)
        tvar = unparse(loops[0].target)
        sel = PG.stmt('V_sel = np.where(self.spike_templates == %s)[0]' % tvar) or PG.stmt('V_sel = np.nonzero(self.spike_templates == %s)[0]' % tvar) or \
            PG.stmt('V_sel = self.spike_templates == %s' % tvar) or PG.stmt('V_sel = np.flatnonzero(self.spike_templates == %s)' % tvar)
        clu_good = PG.stmt('V_clu = self.spike_clusters[V_sel]') if sel is not None else None
        clu_bad = None
        if sel is not None and clu_good is None:
            clu_bad = PG.stmt('V_clu = self.spike_templates[V_sel]') or PG.stmt('V_clu = self.spike_clusters')
            if clu_bad is None:
                other = PG.stmt('V_clu = self.spike_clusters[E_ix]')
                if other is not None and {n.id for n in ast.walk(other.value.slice) if isinstance(n, ast.Name)} <= {PG.name('V_sel'), 'len', tvar}:
                    clu_bad = other     # the same local vocabulary arranged differently: the clusters read are not those of the selected spikes
        inline = PG.expr('self.spike_clusters[self.spike_templates == %s]' % tvar)
        if clu_good is not None or inline is not None:
            ctx.holds('C08.A1', gm, 'a template is attributed to the clusters of ITS spikes', clu_good or inline)
        elif clu_bad is not None:
            ctx.violated('C08.A1', gm, clu_bad, 'a template is not attributed to the clusters of its own spikes (`%s`)' % unparse(clu_bad))
        else:
            ctx.undecided('C08.A1', gm, 'selection of the clusters of a template\'s spikes not recognised')
    emp = [n for n in ast.walk(gm.node) if isinstance(n, (ast.Compare, ast.UnaryOp)) and Pat().any(['len(V_v) == 0', 'not V_v', 'len(V_v) < 1', 'V_v == []'], n)]
    emp_bad = [n for n in ast.walk(gm.node) if isinstance(n, ast.Compare) and Pat().any(['len(V_v) > 0', 'len(V_v) == 1', 'len(V_v) != 0', 'len(V_v) >= 1'], n)]
    if emp:
        ctx.holds('C08.A1', gm, 'ids without any template are reported as empty', emp[0])
    elif emp_bad:
        ctx.violated('C08.A1', gm, emp_bad[0], 'the empty-id list is built on `%s`, not on ids whose template list is empty' % unparse(emp_bad[0]))
    else:
        ctx.undecided('C08.A1', gm, 'the test selecting the empty ids was not recognised')
    # ---- A3
    mw = meth('get_cluster_mean_waveforms')
    for unw in (True, False):
        S = Shape(repo, selfattrs=model_attrs(), inline_depth=8)
        res = S.result(mw, {'self': UNK, 'cluster_id': Ix(Clu), 'unwhiten': BoolT(unw)})
        nrep += flush(ctx, S, 'get_cluster_mean_waveforms(unwhiten=%s)' % unw)
        lab = 'unwhiten=%s' % unw
        if isinstance(res, Rec) and isinstance(res.fields.get('mean_waveforms'), Arr) and isinstance(res.fields.get('channel_ids'), Arr):
            w, ch = res.fields['mean_waveforms'], res.fields['channel_ids']
            ctx.check(len(w.axes) == 2 and w.axes[0] is Samp and w.axes[1] is ch.axes[0], 'C08.A3', mw, lab + ' axes', '%s: mean waveform is (samples x the listed channels)' % lab,
                      '%s: mean waveform axes %s vs channel list axis %s' % (lab, w.axes, ch.axes), value=w)
            want = AMP if unw else AMPWH
            ctx.check(isinstance(w.elem, Q) and w.elem.dim == want.dim, 'C08.A3', mw, lab + ' dimension', '%s: mean waveform has dimension %s' % (lab, want),
                      '%s: mean waveform has dimension %s, expected %s (the unwhiten flag must reach every template)' % (lab, w.elem, want), value=getattr(w, 'elem', w))
            ctx.check(isinstance(w.elem, Q) and any(t.startswith('wmean:') for t in w.elem.tags), 'C08.A3', mw, lab + ' weighting', '%s: the templates are combined by a WEIGHTED mean' % lab,
                      '%s: the templates are not combined by a weighted mean (%s)' % (lab, sorted(w.elem.tags) if isinstance(w.elem, Q) else w.elem), value=getattr(w, 'elem', w))
            # the weights are the counts of THIS cluster's spikes per template: a histogram of a restriction of the spike table, not of the whole table
            wc = sorted(t[len('wcountof:'):] for t in w.elem.tags if t.startswith('wcountof:')) if isinstance(w.elem, Q) else []
            ctx.tri(bool(wc) and all(x != str(Spike) for x in wc), bool(wc) and any(x == str(Spike) for x in wc), 'C08.A3', mw, lab + ' weights',
                    '%s: the weights count the spikes of a restriction of the spike table (%s), i.e. of the cluster' % (lab, ', '.join(wc)),
                    '%s: the weights are a histogram over ALL spikes (template totals), not over the spikes of the cluster: after a split the mean and the dominant template are wrong' % lab,
                    '%s: what the averaging weights count was not determined' % lab)
            ctx.check(isinstance(ch.elem, Ix) and ch.elem.space is Chan, 'C08.A3', mw, lab + ' channels', '%s: channel_ids are channel indices' % lab, '%s: channel_ids hold %s' % (lab, ch.elem), value=getattr(ch, 'elem', ch))
        else:
            ctx.undecided('C08.A3', mw, '%s: result %s' % (lab, res))
    # structure: weights, dominant template, scatter
    txt = {unparse(a.targets[0]): a for a in mw.nodes(ast.Assign) if isinstance(a.targets[0], ast.Name)}
    cnt = [a for a in mw.nodes(ast.Assign) if isinstance(a.value, ast.Call) and q.method_name(a.value) == 'get_template_counts']
    gt = [c for c in mw.calls() if q.method_name(c) == 'get_template']
    # the template whose channel list is used: the first get_template call that is not inside a loop / comprehension over the contributors
    lone = [c for c in gt if c.args and not any(isinstance(x, (ast.For, ast.ListComp, ast.GeneratorExp)) for x in mw.ancestors(c))]
    if not lone or not cnt:
        ctx.undecided('C08.A3', mw, 'the lookup of the dominant template (a get_template call outside the loop over contributors) was not found')
    else:
        c0 = lone[0]
        arg = c0.args[0]
        # all definitions that feed the argument, in source order, up to the call
        defs = [a for a in mw.nodes(ast.Assign) if a.lineno < c0.lineno]
        chain, names = [], {n.id for n in ast.walk(arg) if isinstance(n, ast.Name)}
        for a in reversed(defs):
            if unparse(a.targets[0]) in names:
                chain.append(a)
                names |= {n.id for n in ast.walk(a.value) if isinstance(n, ast.Name)}
        text = ' ; '.join(unparse(a.value) for a in chain).replace(' ', '') + ' ; ' + unparse(arg).replace(' ', '')
        cname = unparse(cnt[0].targets[0])
        from_counts = unparse(cnt[0].value.args[0]) == mw.params[1] if cnt[0].value.args else False
        restricted_before = any(unparse(a.targets[0]) == cname and a is not cnt[0] for a in chain)
        if not from_counts:
            ctx.violated('C08.A3', mw, cnt[0], 'the per-template spike counts are not those of THIS cluster (get_template_counts(%s))' % (unparse(cnt[0].value.args[0]) if cnt[0].value.args else ''))
        elif 'argmin' in text:
            ctx.violated('C08.A3', mw, c0, 'the channel list is taken from the template with the FEWEST spikes of the cluster (argmin), not from the dominant one')
        elif 'argmax' in text and not restricted_before:
            ctx.holds('C08.A3', mw, 'the dominant template is the arg-max of the per-template spike counts of this cluster, and its channel list is used', c0)
        elif ('argmax' in text or ('argsort' in text and ('[::-1]' in text or '[-1]' in text))) and restricted_before and any(
                isinstance(n, ast.Subscript) and isinstance(n.value, ast.Name) for a in chain[:1] for n in [a.value]):
            ctx.holds('C08.A3', mw, 'the dominant template is the contributing template with the largest spike count, and its channel list is used', c0)
        elif 'arg' not in text and any(t_ in text for t_ in ('[0]', '[-1]')) and 'nonzero' in text:
            ctx.violated('C08.A3', mw, c0, 'the channel list is taken from the first / last contributing template (`%s`), not from the one with most spikes' % unparse(arg))
        else:
            ctx.undecided('C08.A3', mw, 'selection of the dominant template `%s` not recognised' % text[:80], c0)
    # "the mean of its templates' CHANNEL-RESTRICTED waveforms": every contributing template is looked up on its own (default) channel restriction - an
    # explicit channel list makes get_template return the full waveform on those channels, without the restriction to the template's own best channels
    contrib = [(f_, c_) for f_ in repo.transparent_closure(mw) for c_ in f_.calls() if q.method_name(c_) == 'get_template']
    explicit = [(f_, c_) for f_, c_ in contrib if q.arg(c_, 1, 'channel_ids') is not None and not (isinstance(q.arg(c_, 1, 'channel_ids'), ast.Constant) and q.arg(c_, 1, 'channel_ids').value is None)]
    if explicit:
        ctx.violated('C08.A3', explicit[0][0], explicit[0][1], 'a template of the cluster is looked up on the explicit channel list `%s`: get_template then returns its full waveform on those '
                     'channels instead of its channel-restricted waveform (zero outside its own channels), and the weighted mean is wrong wherever templates peak on different channels'
                     % unparse(q.arg(explicit[0][1], 1, 'channel_ids')))
    elif len(contrib) >= 2:
        ctx.holds('C08.A3', mw, 'every template of the cluster is looked up on its own channel restriction (no explicit channel list)', contrib[0][1])
    else:
        ctx.undecided('C08.A3', mw, 'the template lookups of get_cluster_mean_waveforms were not found')
    # the flag reaches every template lookup, in this function and in the helpers extracted from it (the dimension obligations above decide the same fact
    # semantically; this names the call)
    sites = _flag_sites(repo, mw, mw.params[2], 0)
    bad = [x for x in sites if x[2] == 'bad']
    if bad:
        ctx.violated('C08.A3', bad[0][0], bad[0][1], 'the unwhiten flag is not forwarded to the template lookup `%s`' % unparse(bad[0][1]))
    elif len(sites) >= 2 and all(x[2] == 'ok' for x in sites):
        ctx.holds('C08.A3', mw, 'the unwhiten flag is forwarded to every template lookup (%d call sites)' % len(sites), sites[0][1])
    else:
        ctx.undecided('C08.A3', mw, 'the forwarding of the unwhiten flag to the template lookups was not recognised (%s)' % ', '.join('%s:%s' % (unparse(x[1])[:40], x[2]) for x in sites))
    avg = [c for c in mw.calls() if dotted(c.func) == 'np.average']
    okw = False
    if avg:
        w = q.kwarg(avg[0], 'weights')
        ax = q.kwarg(avg[0], 'axis')
        okw = w is not None and const_value(ax) == 0
    ctx.check(okw, 'C08.A3', mw, avg[0] if avg else 'get_cluster_mean_waveforms', 'np.average over the template axis with weights', 'the mean over templates is not np.average(axis=0, weights=...)')
    # ---- get_template_counts
    tc = meth('get_template_counts')
    S = Shape(repo, selfattrs=model_attrs(), inline_depth=4)
    res = S.result(tc, {'self': UNK, 'cluster_id': Ix(Clu)})
    nrep += flush(ctx, S, 'get_template_counts')
    ctx.check(isinstance(res, Arr) and res.axes == (Tmpl,) and isinstance(res.elem, Q) and res.elem.d() == {'cnt': 1}, 'C08.A3', tc, 'get_template_counts',
              'per-template spike counts over the full template table', 'get_template_counts returns %s, expected counts over all templates (minlength = n_templates)' % res, value=res)
    # ---- A2
    cw = meth('cluster_waveforms')
    S = Shape(repo, selfattrs=model_attrs(), inline_depth=9)
    res = S.result(cw, {'self': UNK})
    nrep += flush(ctx, S, 'cluster_waveforms')
    if isinstance(res, Rec) and isinstance(res.fields.get('data'), Arr):
        dta = res.fields['data']
        ctx.check(dta.axes == (Clu, Samp, Chan), 'C08.A2', cw, 'axes', 'cluster waveforms over (cluster ids 0..max, samples, channels)', 'cluster waveforms are over %s' % (dta.axes,), value=dta)
        ctx.check(isinstance(dta.elem, Q) and dta.elem.dim == AMPWH.dim, 'C08.A2', cw, 'dimension', 'cluster waveforms are stored whitened like the templates (same dimension)',
                  'cluster waveforms have dimension %s, the stored templates %s: they are later unwhitened again' % (dta.elem, AMPWH), value=getattr(dta, 'elem', dta))
        ctx.check(isinstance(res.fields.get('cols'), NoneT), 'C08.A2', cw, 'cols', 'cluster waveforms are dense (cols=None)', 'cluster waveforms are not marked dense')
    else:
        ctx.undecided('C08.A2', cw, 'cluster_waveforms returns %s' % res)
    z = [c for c in cw.calls() if dotted(c.func) == 'np.zeros']
    zx = cw.expand(z[0].args[0]) if z and z[0].args else None
    first = zx.elts[0] if isinstance(zx, ast.Tuple) and zx.elts else None
    okz = first is not None and Pat().any(['np.max(self.cluster_ids) + 1', 'self.cluster_ids.max() + 1', 'np.max(self.spike_clusters) + 1', 'self.spike_clusters.max() + 1',
                                           'int(np.max(self.cluster_ids)) + 1', 'self.n_clusters'], first)
    badz = first is not None and not okz and Pat().any(['len(self.cluster_ids)', 'np.max(self.cluster_ids)', 'self.cluster_ids.size', 'len(self.merge_map)', 'self.n_templates',
                                                        'np.max(self.spike_templates) + 1', 'len(np.unique(self.spike_clusters))'], first)
    if okz:
        ctx.holds('C08.A2', cw, 'one (zero-initialised) waveform per cluster id up to the maximum', z[0])
    elif badz:
        ctx.violated('C08.A2', cw, z[0], 'the array has `%s` rows, not max(cluster id) + 1' % unparse(first))
    else:
        ctx.undecided('C08.A2', cw, 'number of rows of the cluster waveform array not recognised', z[0] if z else None)
    loopc = [f for f in cw.nodes(ast.For) if Pat().m('self.merge_map.items()', f.iter) and isinstance(f.target, ast.Tuple) and len(f.target.elts) == 2]
    if not loopc:
        ctx.undecided('C08.A2', cw, 'loop over self.merge_map.items() not recognised')
        multi = [c for c in cw.calls() if q.method_name(c) == 'get_cluster_mean_waveforms']
    else:
        cvar_, vvar_ = unparse(loopc[0].target.elts[0]), unparse(loopc[0].target.elts[1])
        PW = Pat(cw)
        single = [a for a in ast.walk(loopc[0]) if isinstance(a, ast.Assign) and isinstance(a.targets[0], ast.Subscript) and 'self.sparse_templates.data[' in unparse(a.value)]
        if not single:
            ctx.undecided('C08.A2', cw, 'the copy of a single template into its cluster row was not recognised')
        else:
            ifn = [i for i in cw.ancestors(single[0]) if isinstance(i, ast.If)]
            cond_ok = any(Pat().any(['len(%s) == 1' % vvar_], i.test) for i in ifn)
            src_good = Pat().any(['self.sparse_templates.data[%s[0], :, :]' % vvar_, 'self.sparse_templates.data[%s[0]]' % vvar_, 'self.sparse_templates.data[%s[0], ...]' % vvar_,
                                  'self.sparse_templates.data[%s[-1], :, :]' % vvar_], single[0].value)
            dst_good = Pat().any(['data[%s, :, :]' % cvar_, 'data[%s]' % cvar_, 'data[%s, ...]' % cvar_], single[0].targets[0]) or \
                (isinstance(single[0].targets[0].value, ast.Name) and Pat().any(['ANY[%s, :, :]' % cvar_, 'ANY[%s]' % cvar_, 'ANY[%s, ...]' % cvar_], single[0].targets[0]))
            # per-cluster buffer: `w[...] = template` followed by `data[clust] = w` in the same loop is the same copy
            tbase = single[0].targets[0].value
            if not dst_good and isinstance(tbase, ast.Name) and Pat().any(['%s[...]' % tbase.id, '%s[:]' % tbase.id, '%s[:, :]' % tbase.id], single[0].targets[0]):
                later = [a_ for a_ in ast.walk(loopc[0]) if isinstance(a_, ast.Assign) and isinstance(a_.targets[0], ast.Subscript) and isinstance(a_.value, ast.Name) and a_.value.id == tbase.id and
                         Pat().any(['ANY[%s, :, :]' % cvar_, 'ANY[%s]' % cvar_, 'ANY[%s, ...]' % cvar_], a_.targets[0])]
                dst_good = bool(later)
            buffer_store = isinstance(tbase, ast.Name) and tbase.id != 'data' and not dst_good
            vocab_ = {cvar_, vvar_, 'self', 'data'} | ({unparse(single[0].targets[0].value)} if not buffer_store else set())
            same_vocab = {n.id for n in ast.walk(single[0]) if isinstance(n, ast.Name)} <= vocab_
            if cond_ok and src_good and dst_good:
                ctx.holds('C08.A2', cw, 'a cluster stemming from exactly one template copies that template unchanged', single[0])
            elif same_vocab and ifn:
                ctx.violated('C08.A2', cw, single[0], 'single-template clusters do not copy sparse_templates.data[that template] into their own row (`%s` under `%s`)' %
                             (unparse(single[0]), unparse(ifn[-1].test)))
            else:
                ctx.undecided('C08.A2', cw, 'single-template copy not in a recognised form', single[0])
        multi = [c for c in ast.walk(loopc[0]) if isinstance(c, ast.Call) and q.method_name(c) == 'get_cluster_mean_waveforms']
        if not multi:
            ctx.undecided('C08.A2', cw, 'the call computing the mean waveform of a multi-template cluster was not found')
        else:
            ifn = [i for i in cw.ancestors(multi[0]) if isinstance(i, ast.If) and 'len(' in unparse(i.test)]
            cond_good = any(Pat().any(['len(%s) > 1' % vvar_, 'len(%s) >= 2' % vvar_], i.test) for i in ifn)
            cond_bad = not cond_good and any(isinstance(n, ast.Compare) for i in ifn for n in ast.walk(i.test))
            unw = q.kwarg(multi[0], 'unwhiten')
            arg_ok = bool(multi[0].args) and unparse(multi[0].args[0]) == cvar_
            if cond_good and const_value(unw) is False and arg_ok:
                ctx.holds('C08.A2', cw, 'a cluster stemming from several templates stores their (whitened) weighted mean', multi[0])
            elif cond_bad or (unw is not None and const_value(unw) is True) or unw is None or (multi[0].args and not arg_ok and isinstance(multi[0].args[0], ast.Name)):
                ctx.violated('C08.A2', cw, multi[0], 'multi-template clusters do not store get_cluster_mean_waveforms(cluster, unwhiten=False) under `len(templates) > 1` '
                             '(`%s` under `%s`)' % (unparse(multi[0]), unparse(ifn[-1].test) if ifn else 'no test'))
            else:
                ctx.undecided('C08.A2', cw, 'multi-template branch not in a recognised form', multi[0])
    # the mean stored for a cluster is computed FOR THAT cluster (it depends on the cluster's own spike counts, not only on its set of templates)
    if multi:
        loop = [f for f in cw.nodes(ast.For) if q.contains(f, multi[0])]
        cvar = unparse(loop[0].target.elts[0]) if loop and isinstance(loop[0].target, ast.Tuple) else (unparse(loop[0].target) if loop else None)
        stores = [a for a in cw.nodes(ast.Assign) if isinstance(a.targets[0], ast.Subscript) and unparse(a.targets[0].value) == 'data' and 'mean_waveforms' in unparse(a.value)]
        verdict = None
        if stores and loop:
            src = [n.value.id for n in ast.walk(stores[0].value) if isinstance(n, ast.Attribute) and n.attr == 'mean_waveforms' and isinstance(n.value, ast.Name)]
            defs_ = [a for a in ast.walk(loop[0]) if isinstance(a, ast.Assign) and src and unparse(a.targets[0]) == src[0]]
            if defs_:
                v = defs_[-1].value
                if isinstance(v, ast.Call) and q.method_name(v) == 'get_cluster_mean_waveforms':
                    extra = [i for i in cw.ancestors(v) if isinstance(i, ast.If) and q.contains(loop[0], i) and 'len(' not in unparse(i.test)]
                    verdict = 'cond' if extra else 'ok'
                    cache_key = unparse(extra[0].test) if extra else ''
                elif isinstance(v, ast.Subscript) or (isinstance(v, ast.Call) and q.method_name(v) in ('get', 'setdefault')):
                    key = unparse(v.slice) if isinstance(v, ast.Subscript) else (unparse(v.args[0]) if v.args else '')
                    verdict = 'ok' if key == cvar else 'cache'
                    cache_key = key
        if verdict == 'ok':
            ctx.holds('C08.A2', cw, 'the mean waveform stored for a cluster is the one computed for that cluster in the same iteration', stores[0])
        elif verdict in ('cache', 'cond'):
            ctx.violated('C08.A2', cw, stores[0], 'the mean waveform stored for a cluster is looked up / computed under `%s`, not computed for this cluster: clusters sharing that key '
                         'receive the weighted mean and channels of another cluster, although the weights are each cluster\'s own spike counts' % cache_key)
        else:
            ctx.undecided('C08.A2', cw, 'provenance of the stored mean waveform not recognised')
    # ---- A4
    ctx.part('C08.A4', a4_branch, meth('_load_data'))
    if nrep == 0:
        ctx.holds('C08.A0', gm, 'no index-space / dimension conflict in get_merge_map, get_template_counts, get_cluster_mean_waveforms (2 modes), cluster_waveforms', 'curation methods')


LEVEL_TEXT = ('Static typing of the curation methods: key/value kinds of the merge map, axes and dimension of the cluster waveforms, advanced-index '
              'axis order of the scatter, alignment of the averaging weights with the stacked templates, dominant-template channel list, '
              'forwarding of the unwhiten flag, and the structure of the curated / uncurated branch of _load_data.')
LEVEL_NOTE = ('Trusted: NumPy transfer rules (advanced-index axis placement, np.average weights) and attribute signatures. Not decided: values, ties.')
TECHNIQUE = 'static analysis: abstract interpretation (index-space typing) plus structural rules on the ast'
