"""C08 - curated clusters get the right template provenance and waveforms.

Decided (shape engine + structural rules)
  A0  no index-space / dimension conflict in get_merge_map, cluster_waveforms, get_cluster_mean_waveforms, get_template_counts
  A1  get_merge_map: a dictionary keyed by every cluster id 0..max (range(max(spike_clusters) + 1)) whose values are lists of
      TEMPLATE ids, filled from the clusters of each template's spikes; the empty-id list = the keys whose list is empty, as
      cluster indices
  A2  cluster_waveforms: an array over (cluster ids 0..max, samples, channels); single-template clusters copy the stored waveform of
      that template on all channels; multi-template clusters store the mean waveform on the mean's channel list with the axes in the
      order NumPy's advanced indexing produces
  A3  get_cluster_mean_waveforms: weights = per-template spike counts of the cluster restricted to the contributing templates (the same
      subset as the stacked waveforms), channels = those of the template with most spikes, every template scattered on its own
      channel list, the unwhiten flag forwarded
  A4  _load_data: merged clusters iff assignments differ and storage is dense; n_clusters = max + 1 of the respective id vector;
      identical assignments reuse the template waveforms
Not decided: weighted-mean values; which template wins when the top spike counts are exactly tied (the statement does not define it).
"""
import ast

from vlib import q
from vlib.front import unparse, dotted, const_value, AnchorMissing
from vlib.shape import Shape, Space, Ix, Q, D, BoolT, StrT, NoneT, SizeOf, UNK, is_unk, Arr, Rec, Tup, ListT, DictT, B
from obligations.shape_tables import (model_attrs, M, Tmpl, Clu, Chan, Samp, Spike, AMP, AMPWH, CNT)

FLOOR = 25
EXPLANATION = ('shape engine over the curation methods of TemplateModel with callees inline (get_template, get_template_counts, '
               'get_cluster_spikes, _spikes_in_clusters): dictionary key/value kinds, array axes, alignment of weights with the averaged axis, '
               'scatter/gather index spaces; plus structural rules on the branch of _load_data')
TRUSTED = ['python ast', 'NumPy transfer rules of vlib/shape.py (advanced-index axis placement, average weights)', 'attribute signatures']
ASSUMPTIONS = ['dense templates']


def flush(ctx, S, label):
    n = 0
    for r in S.reports:
        n += 1
        ctx.violated('C08.A0', r.fi, r.node, '[%s] %s' % (label, r.msg))
    return n


def run(ctx):
    repo = ctx.repo
    cls = repo.cls(M, 'TemplateModel')

    def meth(n):
        m = repo.lookup_method(cls, n)
        if m is None:
            raise AnchorMissing('TemplateModel.%s' % n)
        return m
    nrep = 0
    # ---- A1
    gm = meth('get_merge_map')
    S = Shape(repo, selfattrs=model_attrs(), inline_depth=2)
    res = S.result(gm, {'self': UNK})
    nrep += flush(ctx, S, 'get_merge_map')
    if isinstance(res, Tup) and len(res.items) == 2 and isinstance(res.items[0], DictT):
        d, nan = res.items
        ctx.check(isinstance(d.key, Ix) and d.key.space is Clu, 'C08.A1', gm, 'map keys', 'the map is keyed by cluster ids', 'the map is keyed by %s, expected cluster ids' % d.key)
        ve = d.val.elem if isinstance(d.val, ListT) else None
        ctx.check(isinstance(ve, Ix) and ve.space is Tmpl, 'C08.A1', gm, 'map values', 'the values are lists of template ids', 'the values are lists of %s, expected template ids' % ve)
        ctx.check(isinstance(nan, Arr) and isinstance(nan.elem, Ix) and nan.elem.space is Clu, 'C08.A1', gm, 'empty ids', 'the empty-id list holds cluster ids', 'the empty-id list holds %s' % nan)
    else:
        ctx.undecided('C08.A1', gm, 'get_merge_map returns %s' % res)
    dc = [n for n in gm.nodes(ast.DictComp)]
    okr = bool(dc) and unparse(dc[0].generators[0].iter).replace(' ', '') in ('range(np.max(self.spike_clusters)+1)', 'range(self.spike_clusters.max()+1)') and \
        unparse(dc[0].value) == '[]'
    ctx.check(okr, 'C08.A1', gm, dc[0] if dc else 'get_merge_map', 'every cluster id from 0 to the maximum gets an (initially empty) entry',
              'the map does not start with an empty entry for every id in range(max(spike_clusters) + 1)')
    loops = gm.nodes(ast.For)
    oks = bool(loops) and unparse(loops[0].iter).replace(' ', '') in ('np.unique(self.spike_templates)', 'self.template_ids')
    ctx.check(oks, 'C08.A1', gm, loops[0].iter if loops else 'get_merge_map', 'every template that has spikes is distributed', 'the loop does not run over the templates that have spikes')
    sel = [a for a in gm.nodes(ast.Assign) if 'self.spike_templates == ' in unparse(a.value)]
    clu = [a for a in gm.nodes(ast.Assign) if unparse(a.value).startswith('self.spike_clusters[')]
    ctx.check(bool(sel) and bool(clu) and unparse(clu[0].value) == 'self.spike_clusters[%s]' % unparse(sel[0].targets[0]), 'C08.A1', gm, clu[0] if clu else 'get_merge_map',
              'a template is attributed to the clusters of ITS spikes', 'a template is not attributed to the clusters of its own spikes')
    emp = [n for n in ast.walk(gm.node) if isinstance(n, ast.Compare) and unparse(n).replace(' ', '') in ('len(val)==0', 'notval')]
    ctx.check(bool(emp), 'C08.A1', gm, emp[0] if emp else 'get_merge_map', 'ids without any template are reported as empty', 'the empty-id test is not `len(val) == 0`')
    # ---- A3
    mw = meth('get_cluster_mean_waveforms')
    for unw in (True, False):
        S = Shape(repo, selfattrs=model_attrs(), inline_depth=8)
        res = S.result(mw, {'self': UNK, 'cluster_id': Ix(Clu), 'unwhiten': BoolT(unw)})
        nrep += flush(ctx, S, 'get_cluster_mean_waveforms(unwhiten=%s)' % unw)
        lab = 'unwhiten=%s' % unw
        if isinstance(res, Rec) and isinstance(res.fields.get('mean_waveforms'), Arr) and isinstance(res.fields.get('channel_ids'), Arr):
            w, ch = res.fields['mean_waveforms'], res.fields['channel_ids']
            ctx.check(len(w.axes) == 2 and w.axes[0] is Samp and w.axes[1] is ch.axes[0], 'C08.A3', mw, lab + ' axes', '%s: mean waveform is (samples x the listed channels)' % lab,
                      '%s: mean waveform axes %s vs channel list axis %s' % (lab, w.axes, ch.axes))
            want = AMP if unw else AMPWH
            ctx.check(isinstance(w.elem, Q) and w.elem.dim == want.dim, 'C08.A3', mw, lab + ' dimension', '%s: mean waveform has dimension %s' % (lab, want),
                      '%s: mean waveform has dimension %s, expected %s (the unwhiten flag must reach every template)' % (lab, w.elem, want))
            ctx.check(isinstance(w.elem, Q) and any(t.startswith('wmean:') for t in w.elem.tags), 'C08.A3', mw, lab + ' weighting', '%s: the templates are combined by a WEIGHTED mean' % lab,
                      '%s: the templates are not combined by a weighted mean (%s)' % (lab, sorted(w.elem.tags) if isinstance(w.elem, Q) else w.elem))
            ctx.check(isinstance(ch.elem, Ix) and ch.elem.space is Chan, 'C08.A3', mw, lab + ' channels', '%s: channel_ids are channel indices' % lab, '%s: channel_ids hold %s' % (lab, ch.elem))
        else:
            ctx.undecided('C08.A3', mw, '%s: result %s' % (lab, res))
    # structure: weights, dominant template, scatter
    txt = {unparse(a.targets[0]): a for a in mw.nodes(ast.Assign) if isinstance(a.targets[0], ast.Name)}
    cnt = [a for a in mw.nodes(ast.Assign) if isinstance(a.value, ast.Call) and q.method_name(a.value) == 'get_template_counts']
    gt = [c for c in mw.calls() if q.method_name(c) == 'get_template']
    # the template whose channel list is used: the first get_template call that is not inside a loop / comprehension over the contributors
    lone = [c for c in gt if c.args and not any(isinstance(x, (ast.For, ast.ListComp, ast.GeneratorExp)) for x in mw.ancestors(c))]
    if not lone or not cnt:
        ctx.undecided('C08.A3', mw, 'the lookup of the dominant template (a get_template call outside the loop over contributors) was not found')
    else:
        c0 = lone[0]
        arg = c0.args[0]
        # all definitions that feed the argument, in source order, up to the call
        defs = [a for a in mw.nodes(ast.Assign) if a.lineno < c0.lineno]
        chain, names = [], {n.id for n in ast.walk(arg) if isinstance(n, ast.Name)}
        for a in reversed(defs):
            if unparse(a.targets[0]) in names:
                chain.append(a)
                names |= {n.id for n in ast.walk(a.value) if isinstance(n, ast.Name)}
        text = ' ; '.join(unparse(a.value) for a in chain).replace(' ', '') + ' ; ' + unparse(arg).replace(' ', '')
        cname = unparse(cnt[0].targets[0])
        from_counts = unparse(cnt[0].value.args[0]) == mw.params[1] if cnt[0].value.args else False
        restricted_before = any(unparse(a.targets[0]) == cname and a is not cnt[0] for a in chain)
        if not from_counts:
            ctx.violated('C08.A3', mw, cnt[0], 'the per-template spike counts are not those of THIS cluster (get_template_counts(%s))' % (unparse(cnt[0].value.args[0]) if cnt[0].value.args else ''))
        elif 'argmin' in text:
            ctx.violated('C08.A3', mw, c0, 'the channel list is taken from the template with the FEWEST spikes of the cluster (argmin), not from the dominant one')
        elif 'argmax' in text and not restricted_before:
            ctx.holds('C08.A3', mw, 'the dominant template is the arg-max of the per-template spike counts of this cluster, and its channel list is used', c0)
        elif ('argmax' in text or ('argsort' in text and ('[::-1]' in text or '[-1]' in text))) and restricted_before and any(
                isinstance(n, ast.Subscript) and isinstance(n.value, ast.Name) for a in chain[:1] for n in [a.value]):
            ctx.holds('C08.A3', mw, 'the dominant template is the contributing template with the largest spike count, and its channel list is used', c0)
        elif 'arg' not in text and any(t_ in text for t_ in ('[0]', '[-1]')) and 'nonzero' in text:
            ctx.violated('C08.A3', mw, c0, 'the channel list is taken from the first / last contributing template (`%s`), not from the one with most spikes' % unparse(arg))
        else:
            ctx.undecided('C08.A3', mw, 'selection of the dominant template `%s` not recognised' % text[:80], c0)
    fw = all(q.kwarg(c, 'unwhiten') is not None and unparse(q.kwarg(c, 'unwhiten')) == mw.params[2] for c in gt) and len(gt) >= 2
    ctx.check(fw, 'C08.A3', mw, 'unwhiten flag', 'the unwhiten flag is forwarded to every template lookup', 'the unwhiten flag is not forwarded to every get_template call')
    avg = [c for c in mw.calls() if dotted(c.func) == 'np.average']
    okw = False
    if avg:
        w = q.kwarg(avg[0], 'weights')
        ax = q.kwarg(avg[0], 'axis')
        okw = w is not None and const_value(ax) == 0
    ctx.check(okw, 'C08.A3', mw, avg[0] if avg else 'get_cluster_mean_waveforms', 'np.average over the template axis with weights', 'the mean over templates is not np.average(axis=0, weights=...)')
    # ---- get_template_counts
    tc = meth('get_template_counts')
    S = Shape(repo, selfattrs=model_attrs(), inline_depth=4)
    res = S.result(tc, {'self': UNK, 'cluster_id': Ix(Clu)})
    nrep += flush(ctx, S, 'get_template_counts')
    ctx.check(isinstance(res, Arr) and res.axes == (Tmpl,) and isinstance(res.elem, Q) and res.elem.d() == {'cnt': 1}, 'C08.A3', tc, 'get_template_counts',
              'per-template spike counts over the full template table', 'get_template_counts returns %s, expected counts over all templates (minlength = n_templates)' % res)
    # ---- A2
    cw = meth('cluster_waveforms')
    S = Shape(repo, selfattrs=model_attrs(), inline_depth=9)
    res = S.result(cw, {'self': UNK})
    nrep += flush(ctx, S, 'cluster_waveforms')
    if isinstance(res, Rec) and isinstance(res.fields.get('data'), Arr):
        dta = res.fields['data']
        ctx.check(dta.axes == (Clu, Samp, Chan), 'C08.A2', cw, 'axes', 'cluster waveforms over (cluster ids 0..max, samples, channels)', 'cluster waveforms are over %s' % (dta.axes,))
        ctx.check(isinstance(dta.elem, Q) and dta.elem.dim == AMPWH.dim, 'C08.A2', cw, 'dimension', 'cluster waveforms are stored whitened like the templates (same dimension)',
                  'cluster waveforms have dimension %s, the stored templates %s: they are later unwhitened again' % (dta.elem, AMPWH))
        ctx.check(isinstance(res.fields.get('cols'), NoneT), 'C08.A2', cw, 'cols', 'cluster waveforms are dense (cols=None)', 'cluster waveforms are not marked dense')
    else:
        ctx.undecided('C08.A2', cw, 'cluster_waveforms returns %s' % res)
    z = [c for c in cw.calls() if dotted(c.func) == 'np.zeros']
    okz = bool(z) and unparse(z[0].args[0]).replace(' ', '').startswith(('(np.max(self.cluster_ids)+1,', '(self.cluster_ids.max()+1,', '(np.max(self.spike_clusters)+1,', '(self.spike_clusters.max()+1,'))
    ctx.check(okz, 'C08.A2', cw, z[0] if z else 'cluster_waveforms', 'one (zero-initialised) waveform per cluster id up to the maximum', 'the array does not have max(cluster id) + 1 rows')
    single = [a for a in cw.nodes(ast.Assign) if isinstance(a.targets[0], ast.Subscript) and 'self.sparse_templates.data[' in unparse(a.value)]
    oks = False
    if single:
        ifn = [i for i in cw.ancestors(single[0]) if isinstance(i, ast.If)]
        cond = unparse(ifn[0].test).replace(' ', '') if ifn else ''
        oks = cond in ('len(val)==1',) and unparse(single[0].value).replace(' ', '') in ('self.sparse_templates.data[val[0],:,:]', 'self.sparse_templates.data[val[0]]', 'self.sparse_templates.data[val[0],...]')
    ctx.check(oks, 'C08.A2', cw, single[0] if single else 'cluster_waveforms', 'a cluster stemming from exactly one template copies that template unchanged',
              'single-template clusters do not copy sparse_templates.data[that template]')
    multi = [c for c in cw.calls() if q.method_name(c) == 'get_cluster_mean_waveforms']
    okm = False
    if multi:
        ifn = [i for i in cw.ancestors(multi[0]) if isinstance(i, ast.If)]
        cond = unparse(ifn[-1].test).replace(' ', '') if ifn else ''
        okm = cond in ('len(val)>1', 'len(val)>=2') and const_value(q.kwarg(multi[0], 'unwhiten')) is False and unparse(multi[0].args[0]) == unparse(cw.nodes(ast.For)[0].target.elts[0])
    ctx.check(okm, 'C08.A2', cw, multi[0] if multi else 'cluster_waveforms', 'a cluster stemming from several templates stores their (whitened) weighted mean',
              'multi-template clusters do not store get_cluster_mean_waveforms(cluster, unwhiten=False)')
    # the mean stored for a cluster is computed FOR THAT cluster (it depends on the cluster's own spike counts, not only on its set of templates)
    if multi:
        loop = [f for f in cw.nodes(ast.For) if q.contains(f, multi[0])]
        cvar = unparse(loop[0].target.elts[0]) if loop and isinstance(loop[0].target, ast.Tuple) else (unparse(loop[0].target) if loop else None)
        stores = [a for a in cw.nodes(ast.Assign) if isinstance(a.targets[0], ast.Subscript) and unparse(a.targets[0].value) == 'data' and 'mean_waveforms' in unparse(a.value)]
        verdict = None
        if stores and loop:
            src = [n.value.id for n in ast.walk(stores[0].value) if isinstance(n, ast.Attribute) and n.attr == 'mean_waveforms' and isinstance(n.value, ast.Name)]
            defs_ = [a for a in ast.walk(loop[0]) if isinstance(a, ast.Assign) and src and unparse(a.targets[0]) == src[0]]
            if defs_:
                v = defs_[-1].value
                if isinstance(v, ast.Call) and q.method_name(v) == 'get_cluster_mean_waveforms':
                    extra = [i for i in cw.ancestors(v) if isinstance(i, ast.If) and q.contains(loop[0], i) and 'len(' not in unparse(i.test)]
                    verdict = 'cond' if extra else 'ok'
                    cache_key = unparse(extra[0].test) if extra else ''
                elif isinstance(v, ast.Subscript) or (isinstance(v, ast.Call) and q.method_name(v) in ('get', 'setdefault')):
                    key = unparse(v.slice) if isinstance(v, ast.Subscript) else (unparse(v.args[0]) if v.args else '')
                    verdict = 'ok' if key == cvar else 'cache'
                    cache_key = key
        if verdict == 'ok':
            ctx.holds('C08.A2', cw, 'the mean waveform stored for a cluster is the one computed for that cluster in the same iteration', stores[0])
        elif verdict in ('cache', 'cond'):
            ctx.violated('C08.A2', cw, stores[0], 'the mean waveform stored for a cluster is looked up / computed under `%s`, not computed for this cluster: clusters sharing that key '
                         'receive the weighted mean and channels of another cluster, although the weights are each cluster\'s own spike counts' % cache_key)
        else:
            ctx.undecided('C08.A2', cw, 'provenance of the stored mean waveform not recognised')
    # ---- A4
    ld = meth('_load_data')
    br = None
    for i in ld.nodes(ast.If):
        asg = {unparse(a.targets[0]) for a in list(i.body) + list(i.orelse) if isinstance(a, ast.Assign)}
        if 'self.sparse_clusters' in asg:
            br = i
    if br is None:
        ctx.violated('C08.A4', ld, '_load_data', '_load_data no longer distinguishes curated from uncurated assignments')
    else:
        t = unparse(br.test).replace(' ', '')
        same = ('np.all(self.spike_clusters==self.spike_templates)', 'np.array_equal(self.spike_clusters,self.spike_templates)', '(self.spike_clusters==self.spike_templates).all()')
        good = tuple('not%sandself.sparse_templates.colsisNone' % x for x in same) + tuple('self.sparse_templates.colsisNoneandnot%s' % x for x in same)
        if t in good:
            ctx.holds('C08.A4', ld, 'merged cluster waveforms are computed iff the per-spike assignments differ and the templates are dense', br.test)
        elif 'cluster_ids' in t or 'template_ids' in t or 'n_clusters' in t or 'n_templates' in t:
            ctx.violated('C08.A4', ld, br.test, 'the curated branch is decided on `%s`, which compares the SETS of ids: moving spikes between existing clusters (no new id) is treated as '
                         'uncurated and the cluster waveforms / merge map stay those of the templates' % unparse(br.test))
        elif not any(x in t for x in same):
            ctx.violated('C08.A4', ld, br.test, 'the curated branch is taken on `%s`, not on a per-spike comparison of cluster and template assignments' % unparse(br.test))
        elif 'colsisNone' not in t:
            ctx.violated('C08.A4', ld, br.test, 'the curated branch is taken for sparse templates too (`%s`)' % unparse(br.test))
        else:
            ctx.undecided('C08.A4', ld, 'curation test `%s` not recognised' % unparse(br.test), br.test)
        b = {unparse(a.targets[0]).replace(' ', ''): unparse(a.value).replace(' ', '') for a in br.body if isinstance(a, ast.Assign)}
        o = {unparse(a.targets[0]).replace(' ', ''): unparse(a.value).replace(' ', '') for a in br.orelse if isinstance(a, ast.Assign)}
        okb = b.get('self.sparse_clusters') == 'self.cluster_waveforms()' and b.get('self.n_clusters') in ('self.spike_clusters.max()+1', 'np.max(self.spike_clusters)+1') and \
            (b.get('self.merge_map,self.nan_idx') == 'self.get_merge_map()' or b.get('(self.merge_map,self.nan_idx)') == 'self.get_merge_map()')
        oko = o.get('self.sparse_clusters') == 'self.sparse_templates' and o.get('self.n_clusters') in ('self.spike_templates.max()+1', 'np.max(self.spike_templates)+1', 'self.n_templates') and \
            o.get('self.merge_map') == '{}' and o.get('self.nan_idx') in ('[]', 'np.array([],dtype=np.int64)', 'np.array([],dtype=int)')
        ctx.check(okb, 'C08.A4', ld, 'curated branch', 'curated: merge map + cluster waveforms, n_clusters = max(spike_clusters) + 1', 'curated branch sets %s' % b)
        ctx.check(oko, 'C08.A4', ld, 'uncurated branch', 'uncurated: cluster waveforms ARE the template waveforms, as many clusters as templates, nothing empty', 'uncurated branch sets %s' % o)
        order = [unparse(a.targets[0]) for a in br.body if isinstance(a, ast.Assign)]
        ctx.check('self.sparse_clusters' in order and any('merge_map' in x for x in order) and order.index('self.sparse_clusters') > [i for i, x in enumerate(order) if 'merge_map' in x][0],
                  'C08.A4', ld, 'order', 'the merge map is available before the cluster waveforms are computed', 'cluster_waveforms runs before the merge map exists')
    if nrep == 0:
        ctx.holds('C08.A0', gm, 'no index-space / dimension conflict in get_merge_map, get_template_counts, get_cluster_mean_waveforms (2 modes), cluster_waveforms', 'curation methods')


LEVEL_TEXT = ('Static typing of the curation methods: key/value kinds of the merge map, axes and dimension of the cluster waveforms, advanced-index '
              'axis order of the scatter, alignment of the averaging weights with the stacked templates, dominant-template channel list, '
              'forwarding of the unwhiten flag, and the structure of the curated / uncurated branch of _load_data.')
LEVEL_NOTE = ('Trusted: NumPy transfer rules (advanced-index axis placement, np.average weights) and attribute signatures. Not decided: values, ties.')
TECHNIQUE = 'static analysis: abstract interpretation (index-space typing) plus structural rules on the ast'
