"""C13 - ALF export writes consistent object tables that load back to the same spikes.

Decided
  F1  effects of EphysAlfCreator.convert (fx, whole call tree incl. the model's subset export and the reload of the output):
      everything is written under the OUTPUT directory, except - in the SOURCE directory - the three spike-subset files and
      the deletion of the names in FILE_DELETES (which must be a subset of {temp_wh.dat}); copies go source -> output
  P1  the same-directory test raises before any statement of convert that has an effect
  T1  every file name the round trip needs (spikes.times/samples/clusters/templates, channels.rawInd/localCoordinates,
      templates.waveforms, params.py) is produced by the exporter (direct save or copy table) and is matched, with and
      without a label, by exactly the intended lookup of the loader; the label patterns cover channels/clusters/spikes/
      templates and the label is inserted before the last suffix; the dtype compression finds labelled and unlabelled files
  U1  spikes.times is written from the model's spike times (s), spikes.samples from its spike samples; one uuid per cluster row
  H1  the list of empty cluster ids, used as an index by the exporter, has an integer dtype even when empty
  U2  channels.rawInd (read back by the loader as the channel map) = source channel map minus the per-probe offset the merger added,
      the offset starting at 0: an unmerged dataset exports exactly its own channel map
  A1  first dimension of every exported object table (see obligations/shape tables) - decided by the shape engine (C13.A1)
  +   no table write is skipped because the OUTPUT directory already holds the file (a re-export would keep a stale table)
  +   U1 also when the saved value is a local with several definitions: each definition must be the model's spike times
  +   F1: no exported file is created as a link (`shutil.copy(..., follow_symlinks=False)` is an alias effect): the in-place rewrites of the export would reach the source
Not decided: equality of reloaded values, uint16 range of ids.
"""
import ast
import fnmatch

from vlib import q, fx
from vlib.fx import P, K, O, L, R, U, A
from vlib.fxmodel import make_fx, model_obj, effect_sites, check_find_path_anchor
from vlib.pat import Pat, returned
from vlib.front import unparse, dotted, const_value, AnchorMissing

ALF = 'phylib/io/alf.py'
M = 'phylib/io/model.py'
FLOOR = 24          # decided obligations below this = the analysis lost its footing (exit 2); clean tree: 69
RULES = ('C13.A1', 'C13.F1', 'C13.H1', 'C13.P1', 'C13.T1', 'C13.U1', 'C13.U2')          # every obligation group must report (holds / violated / undecided): a group that vanishes silently is an analysis error
SUBSET = ['_phy_spikes_subset.waveforms.npy', '_phy_spikes_subset.spikes.npy', '_phy_spikes_subset.channels.npy']
EXPLANATION = ('fx engine over the call tree of EphysAlfCreator.convert with symbolic roots SRC / OUT (the model shares SRC) against the '
               'directory-role whitelist; tab rules compare the file names written by the exporter (direct saves and copy table), with '
               'and without the label transformation, against the lookup patterns of the loader with fnmatch')
TRUSTED = ['python ast', 'effect primitive catalogue of vlib/fx.py', 'fnmatch as model of Path.glob', 'Path.with_suffix replaces the last suffix']
ASSUMPTIONS = ['label is a non-empty token without dots or path separators', 'source and output are different directories (enforced by P1)']

ROUNDTRIP = {   # exported name -> (loader method, index of the lookup group in C04.SCHEMA order or pattern list)
    'spikes.times.npy': ['spikes.times*.npy'],
    'spikes.samples.npy': ['spikes.samples*.npy'],
    'spikes.clusters.npy': ['spike_clusters.npy', 'spikes.clusters*.npy'],
    'spikes.templates.npy': ['spike_templates.npy', 'spikes.templates*.npy'],
    'channels.rawInd.npy': ['channel_map.npy', 'channels.rawInd*.npy'],
    'channels.localCoordinates.npy': ['channel_positions.npy', 'channels.localCoordinates*.npy'],
    'templates.waveforms.npy': ['templates.npy', 'templates.waveforms.npy', 'templates.waveforms.*.npy'],
}


def creator_obj(repo):
    cls = repo.cls(ALF, 'EphysAlfCreator')
    model = model_obj(repo, 'SRC')
    model.fields.update({'traces': O(repo.cls('phylib/io/traces.py', 'BaseEphysReader')), 'spike_templates': A(), 'spike_samples': A(), 'spike_times': A(),
                         'n_templates': U, 'n_samples_waveforms': U, 'n_closest_channels': U, 'template_ids': U, 'spike_clusters': A(),
                         'sparse_templates': R({'data': A(), 'cols': K(None)}), 'sparse_clusters': R({'data': A(), 'cols': K(None)}),
                         'channel_probes': A(), 'channel_mapping': A(), 'channel_positions': A(), 'nan_idx': A(), 'amplitudes': A(), 'wmi': A(),
                         'sparse_features': K(None), 'n_clusters': U})
    return O(cls, {'model': model, 'dir_path': P('SRC', ''), 'spc': U, 'cluster_ids': U})


def f1_effects(ctx):
    repo = ctx.repo
    if not check_find_path_anchor(repo):
        raise AnchorMissing('TemplateModel._find_path no longer globs self.dir_path')
    cls = repo.cls(ALF, 'EphysAlfCreator')
    conv = repo.lookup_method(cls, 'convert')
    f = make_fx(repo)
    obj = creator_obj(repo)
    f.run(conv, self_obj=obj, args=[P('OUT', '')])
    ctx.analysed['call_sites'] += f.calls_seen
    sites = effect_sites(f.effects)
    dels = repo.module(ALF).const_strings('FILE_DELETES')
    if dels is None:
        raise AnchorMissing('FILE_DELETES')
    ctx.check(set(dels) <= {'temp_wh.dat'}, 'C13.F1', ALF + ':FILE_DELETES', 'FILE_DELETES = %s' % dels, 'only the temporary whitened-data file is deleted from the source',
              'FILE_DELETES = %s: the export deletes source files other than temp_wh.dat' % dels)
    bad = 0
    n_src = 0
    for e, root, pat in sites:
        if root == 'OUT':
            continue
        if root == 'SRC' and e.kind == 'write' and pat in SUBSET:
            n_src += 1
            continue
        if root == 'SRC' and e.kind == 'delete' and pat is not None and pat in dels:
            n_src += 1
            continue
        bad += 1
        what = {'write': 'writes', 'delete': 'deletes', 'mmap-write': 'modifies in place', 'mkdir': 'creates directory'}[e.kind]
        ctx.violated('C13.F1', e.fi, e.node, 'the export %s %s/%s [%s; call chain %s]: only the output directory, the three spike-subset files and the '
                     'deletion of temp_wh.dat are allowed' % (what, {'SRC': 'SOURCE'}.get(root, root), pat, e.detail, e.chain()))
    # an exported file must be an independent file: convert() rewrites some of them in place (uint16 compression, column-vector squeeze), and a link would
    # carry those writes into the source ("leaves every pre-existing source file byte-identical")
    for e in f.effects:
        if e.kind == 'alias':
            bad += 1
            ctx.violated('C13.F1', e.fi, e.node, 'an exported file can be created as a LINK (%s; call chain %s): the in-place rewrites of the export then modify the source data' % (e.detail, e.chain()))
            break
    if not bad:
        ctx.holds('C13.F1', conv, '%d effect sites: all under the output directory except %d allowed source effects (subset store, temp_wh.dat) '
                  '(%d call sites interpreted)' % (len(sites), n_src, f.calls_seen), 'convert')
    # a health condition of the analysis, not a property of the code: when the call graph no longer reaches the writers the whitelist above is vacuous - undecided, never violated
    ctx.tri(len([1 for e, root, pat in sites if root == 'OUT' and e.kind == 'write']) >= 15, False, 'C13.F1', conv, 'convert', 'the effect analysis sees the writes of the export',
            '', 'the effect analysis reaches fewer than 15 writes of the export: the call tree of convert was not fully resolved, the whitelist result above is not conclusive')
    # copy direction: shutil.copy(src under SRC, dst under OUT)
    cp = repo.lookup_method(cls, 'copy_files')
    okd = False
    for a in cp.nodes(ast.Assign):
        pass
    txt = {unparse(a.targets[0]): unparse(a.value).replace(' ', '') for a in cp.nodes(ast.Assign)}
    calls = [c for c in cp.calls() if dotted(c.func) == '_copy_if_possible']
    if calls:
        a0, a1 = unparse(calls[0].args[0]), unparse(calls[0].args[1])
        okd = txt.get(a0, '').startswith('self.dir_path/') and txt.get(a1, '').startswith('self.out_path/')
    ctx.check(okd, 'C13.F1', cp, calls[0] if calls else 'copy_files', 'files are copied from the source directory to the output directory',
              'copy_files does not copy source -> output')
    ci = repo.func(ALF, '_copy_if_possible')
    sc = [c for c in ci.calls() if (dotted(c.func) or '').startswith('shutil.')]
    sc_args = [ci.expand(a) for a in sc[0].args[:2]] if sc else []
    copies = bool(sc) and dotted(sc[0].func) in ('shutil.copy', 'shutil.copyfile', 'shutil.copy2')
    straight = len(sc_args) == 2 and all(Pat().any([p_, 'str(%s)' % p_, 'Path(%s)' % p_], x) for x, p_ in zip(sc_args, ci.params[:2]))
    swapped = len(sc_args) == 2 and all(Pat().any([p_, 'str(%s)' % p_], x) for x, p_ in zip(sc_args, ci.params[:2][::-1]))
    moves = bool(sc) and dotted(sc[0].func) in ('shutil.move', 'os.rename', 'os.replace', 'shutil.copytree')
    ctx.tri(copies and straight, moves or (copies and swapped), 'C13.F1', ci, sc[0] if sc else '_copy_if_possible', '_copy_if_possible copies (never moves) path -> new_path',
            '_copy_if_possible does not copy (path, new_path) with shutil.copy: `%s`' % (unparse(sc[0]) if sc else 'no shutil call'), 'the copy primitive of _copy_if_possible was not recognised')
    return f, sites


def p1_guard(ctx, f, sites):
    repo = ctx.repo
    cls = repo.cls(ALF, 'EphysAlfCreator')
    conv = repo.lookup_method(cls, 'convert')
    guard = None
    for i in conv.nodes(ast.If):
        if any(isinstance(s_, ast.Raise) for s_ in i.body):
            c = q.simple_compare(i.test)
            if c and c[1] == '==':
                sides = {unparse(c[0]).replace('.resolve()', ''), unparse(c[2]).replace('.resolve()', '')}
                if sides == {'self.out_path', 'self.dir_path'}:
                    guard = i
    if guard is None:
        ctx.violated('C13.P1', conv, 'convert', 'convert no longer refuses to write into the source directory (no `out_path == dir_path -> raise` test)')
        return
    both_resolved = unparse(guard.test).count('.resolve()') == 2 or unparse(guard.test).count('samefile') == 1
    ctx.check(both_resolved, 'C13.P1', conv, guard.test, 'both directories are resolved before they are compared', 'the directories are compared without resolving both')
    first = None
    for e, root, pat in sites:
        top = None
        for fr, node, g in e.stack:
            if fr is not None and fr.node is conv.node:
                top = node
                break
        if top is None and e.fi.node is conv.node:
            top = e.node
        if top is not None and (first is None or top.lineno < first.lineno):
            first = top
    ctx.check(first is None or guard.lineno < first.lineno, 'C13.P1', conv, guard, 'the same-directory test precedes every effect of convert',
              'an effect (line %d) happens before the same-directory test (line %d)' % (first.lineno if first is not None else 0, guard.lineno))
    # the guard must not sit inside another condition
    nested = [a for a in conv.ancestors(guard) if isinstance(a, (ast.If, ast.For, ast.While, ast.Try))]
    ctx.check(not nested, 'C13.P1', conv, guard, 'the same-directory test is unconditional', 'the same-directory test is itself conditional')


def exported_names(repo):
    """name -> how (direct save / copy) for every constant file name the exporter writes."""
    out = {}
    cls = repo.cls(ALF, 'EphysAlfCreator')
    for m in cls.methods.values():
        for c in m.calls():
            if q.method_name(c) == '_save_npy' and c.args:
                n = const_value(c.args[0])
                if isinstance(n, str):
                    out[n] = ('save', m, c)
                elif isinstance(c.args[0], ast.Attribute) and c.args[0].attr == 'name' and isinstance(c.args[0].value, ast.Name):
                    d = m.unique_def(c.args[0].value.id)
                    if isinstance(d, ast.BinOp) and isinstance(const_value(d.right), str):
                        out[const_value(d.right)] = ('save', m, c)
            if dotted(c.func) == 'np.save' and c.args:
                a0 = c.args[0]
                if isinstance(a0, ast.Call) and q.method_name(a0) == 'joinpath' and a0.args and isinstance(const_value(a0.args[0]), str):
                    n = const_value(a0.args[0])
                    out[n if n.endswith('.npy') else n + '.npy'] = ('save', m, c)
    ren = repo.module(ALF).consts.get('_FILE_RENAMES')
    if isinstance(ren, (ast.List, ast.Tuple)):
        for e in ren.elts:
            if isinstance(e, ast.Tuple) and len(e.elts) >= 2:
                out[const_value(e.elts[1])] = ('copy', const_value(e.elts[0]), e)
    return out


def loader_groups(repo):
    cls = repo.cls(M, 'TemplateModel')
    groups = []
    forwarders = {}
    for m in cls.methods.values():
        for c in m.calls():
            if q.method_name(c) == '_find_path':
                pats = [const_value(a) for a in c.args if isinstance(const_value(a), str)]
                if pats:
                    groups.append((m, pats))
                elif len(c.args) == 1 and isinstance(c.args[0], ast.Starred) and isinstance(c.args[0].value, ast.Name) and c.args[0].value.id == m.vararg and \
                        m.unique_def(m.vararg) is None:
                    forwarders[m.name] = m          # helper(..., *names) handing its names to _find_path: one lookup per call site of the helper
    for m in cls.methods.values():
        for c in m.calls():
            h = forwarders.get(q.method_name(c))
            if h is not None and m is not h:
                n_fixed = len([p_ for p_ in h.params if p_ != h.self_name])
                pats = [const_value(a) for a in c.args[n_fixed:] if isinstance(const_value(a), str)]
                if pats and len(pats) == len(c.args[n_fixed:]):
                    groups.append((m, pats))
    return groups


def t1_names(ctx):
    repo = ctx.repo
    names = exported_names(repo)
    groups = loader_groups(repo)
    label = 'LBL'
    for name, pats in ROUNDTRIP.items():
        how = names.get(name)
        if how is None:
            ctx.violated('C13.T1', ALF + ':EphysAlfCreator', name, 'the exporter no longer writes %s, which the reloaded dataset needs' % name)
            continue
        stem, suf = name.rsplit('.', 1)
        labelled = '%s.%s.%s' % (stem, label, suf)
        for variant in (name, labelled):
            own = [g for g in groups if set(g[1]) == set(pats)]
            hit_own = any(fnmatch.fnmatchcase(variant, p) for p in pats)
            others = [(m.name, p) for m, ps in groups if set(ps) != set(pats) and ps[0] != pats[0] and m.name.startswith('_load')
                      for p in ps if fnmatch.fnmatchcase(variant, p) and not any(p == p2 for p2 in pats)]
            ctx.check(bool(own) and hit_own and not others, 'C13.T1', ALF + ':EphysAlfCreator', '%s ~ %s' % (variant, pats),
                      'exported %s is found by the lookup %s of the loader and by no other lookup' % (variant, pats),
                      'exported %s: %s' % (variant, ('no loader lookup %s exists' % pats) if not own else
                                           ('not matched by %s' % pats) if not hit_own else 'also captured by %s' % others))
    # spikes.times / samples special lookups (not _find_path groups with KS names)
    cls = repo.cls(ALF, 'EphysAlfCreator')
    ctx.check(names.get('params.py', (None, None))[1] == 'params.py', 'C13.T1', ALF + ':_FILE_RENAMES', 'params.py', 'params.py is copied to the output (the output can be loaded)',
              'params.py is not copied to the output')
    for src, dst in (('spike_clusters.npy', 'spikes.clusters.npy'), ('spike_templates.npy', 'spikes.templates.npy'), ('channel_positions.npy', 'channels.localCoordinates.npy'),
                     ('channel_probe.npy', 'channels.probes.npy'), ('cluster_probes.npy', 'clusters.probes.npy')):
        how = names.get(dst)
        ctx.check(how is not None and how[0] == 'copy' and how[1] == src, 'C13.T1', ALF + ':_FILE_RENAMES', '%s -> %s' % (src, dst), '%s is the copy of %s' % (dst, src),
                  '%s is not produced as the copy of %s (%s)' % (dst, src, how[:2] if how else 'missing'))
    # squeeze flags: (n,1) vectors are squeezed for the per-spike / per-channel id vectors
    ren = repo.module(ALF).consts.get('_FILE_RENAMES')
    flags = {const_value(e.elts[1]): const_value(e.elts[2]) for e in ren.elts if isinstance(e, ast.Tuple) and len(e.elts) == 3}
    for dst in ('spikes.clusters.npy', 'spikes.templates.npy'):
        ctx.check(flags.get(dst) is True, 'C13.T1', ALF + ':_FILE_RENAMES', 'squeeze %s' % dst, '%s is squeezed when stored as (n, 1)' % dst, '%s is not squeezed when stored as (n, 1)' % dst)
    # label handling
    rl = repo.lookup_method(cls, 'rename_with_label')
    # the glob patterns the renamer really uses: every `.glob(<expr>)` argument evaluated for every value of the loop variables it depends on
    from vlib.front import str_eval
    pats = None
    for gcall in [c for c in rl.calls() if q.method_name(c) == 'glob' and c.args]:
        arg = gcall.args[0]
        loop_vals = {}
        for lp_ in rl.nodes(ast.For):
            if isinstance(lp_.target, ast.Name) and q.contains(lp_, gcall):
                tbl = rl.expand(lp_.iter)
                if isinstance(tbl, (ast.List, ast.Tuple)) and all(isinstance(const_value(e), str) for e in tbl.elts):
                    loop_vals[lp_.target.id] = [const_value(e) for e in tbl.elts]
        got = []
        if not loop_vals:
            v_ = str_eval(arg, {}, rl)
            got = [v_] if v_ is not None else []
        elif len(loop_vals) == 1:
            (lv, vals), = loop_vals.items()
            got = [str_eval(arg, {lv: x}, rl) for x in vals]
        if got and all(x is not None for x in got):
            pats = (pats or []) + got
    need = ['channels.x.npy', 'clusters.x.npy', 'spikes.x.npy', 'templates.x.npy', 'clusters.uuids.csv']
    miss = [n for n in need if not any(fnmatch.fnmatchcase(n, p) for p in (pats or []))]
    ctx.tri(pats is not None and not miss, pats is not None and bool(miss), 'C13.T1', rl, 'label patterns %s' % pats, 'the label is applied to all channels.* / clusters.* / spikes.* / templates.* files',
            'the label patterns %s do not cover %s' % (pats, miss), 'the glob patterns of rename_with_label were not recognised')
    extra = [p for p in (pats or []) if any(fnmatch.fnmatchcase(n, p) for n in ('params.py', '_phy_spikes_subset.spikes.npy', 'cluster_KSLabel.tsv'))]
    ctx.check(not extra, 'C13.T1', rl, 'label patterns', 'files outside the four object families keep their names', 'label patterns %s also rename params.py / subset / tsv files' % extra)
    rn = [c for c in rl.calls() if q.method_name(c) == 'rename']
    if not rn or not rn[0].args or not isinstance(rn[0].func.value, ast.Name):
        ctx.undecided('C13.T1', rl, 'the rename call of rename_with_label was not recognised')
    else:
        fv = rn[0].func.value.id
        a = rn[0].args[0]
        goods = ["%s.with_suffix(f'.{self.label}{%s.suffix}')" % (fv, fv), "%s.with_suffix('.%%s%%s' %% (self.label, %s.suffix))" % (fv, fv), "%s.with_suffix('.' + self.label + %s.suffix)" % (fv, fv),
                 "%s.with_name(f'{%s.stem}.{self.label}{%s.suffix}')" % (fv, fv, fv)]
        bads = ["%s.with_suffix(f'{%s.suffix}.{self.label}')" % (fv, fv), "%s.with_suffix(f'.{self.label}')" % fv, "%s.with_name(f'{self.label}.{%s.name}')" % (fv, fv),
                "%s.with_suffix(f'{self.label}{%s.suffix}')" % (fv, fv), "%s.with_name(f'{%s.name}.{self.label}')" % (fv, fv)]
        g = Pat().any(goods, a)
        b_ = not g and (Pat().any(bads, a) or (isinstance(a, ast.Call) and q.method_name(a) in ('with_suffix', 'with_name') and {n.id for n in ast.walk(a) if isinstance(n, ast.Name)} <= {fv, 'self'}
                                              and isinstance(a.args[0] if a.args else None, ast.JoinedStr)))
        if g:
            ctx.holds('C13.T1', rl, 'the label is inserted before the last suffix: name.ext -> name.<label>.ext', rn[0])
        elif b_:
            ctx.violated('C13.T1', rl, rn[0], 'the label is not inserted as name.<label>.ext (`%s`)' % unparse(a))
        else:
            ctx.undecided('C13.T1', rl, 'new name `%s` not in a recognised form' % unparse(a), rn[0])
    if rn:
        loops_ = [a for a in rl.ancestors(rn[0]) if isinstance(a, ast.For)]
        skips = [x for l_ in loops_ for x in ast.walk(l_) if isinstance(x, (ast.Continue, ast.Break))]
        conds = [ifn for ifn, br in q.enclosing_ifs(rl, rn[0]) if any(q.contains(l_, ifn) for l_ in loops_)]
        ctx.check(not skips and not conds, 'C13.T1', rl, (skips or conds or [rn[0]])[0], 'every file matched by the label patterns is renamed (no per-file exception)',
                  'some matched files are not renamed (`%s`): the label is not inserted into every object file' % unparse((conds or skips)[0] if (conds or skips) else rn[0])[:80])
    guard = [i for i in rl.nodes(ast.If) if Pat().any(['not self.label', "self.label == ''", 'self.label is None', 'not self.label or ANY', "self.label in ('', None)", 'len(self.label) == 0'], i.test) and
             any(isinstance(x, ast.Return) for x in i.body)]
    guard += [i for i in rl.nodes(ast.If) if Pat().any(['self.label', "self.label != ''", 'self.label is not None'], i.test) and not i.orelse and
              all(q.contains(i, c_) for c_ in rl.calls() if q.method_name(c_) in ('rename', 'replace'))]
    mentions_label_test = any(any(isinstance(n, ast.Attribute) and n.attr == 'label' for n in ast.walk(i.test)) for i in rl.nodes(ast.If))
    ctx.tri(bool(guard), not guard and not mentions_label_test, 'C13.T1', rl, guard[0] if guard else 'rename_with_label', 'an empty label renames nothing', 'an empty label is not a no-op',
            'the test on an empty label was not recognised')
    # order in convert: rename after all files are written, compression after rename (finds labelled names)
    conv = repo.lookup_method(cls, 'convert')
    want = ['make_cluster_objects', 'make_channel_objects', 'make_template_and_spikes_objects', 'save_spikes_subset_waveforms', 'make_depths', 'rm_files', 'copy_files',
            'rename_with_label', 'compress_spikes_dtypes']
    from vlib.proto import known_functions

    def steps_of(f_, depth=0):
        # the steps of the conversion in execution order: direct method calls, helpers extracted after the pinned tree (followed), and calls through a table of method values
        out_ = []
        for c in f_.calls():
            nm_ = q.method_name(c) if isinstance(c.func, ast.Attribute) else None
            if nm_ in want:
                out_.append(nm_)
                continue
            try:
                tgs_ = repo.resolve_call(f_, c, virtual=False)
            except Exception:
                tgs_ = []
            for t_ in tgs_:
                if t_.name in want:
                    out_.append(t_.name)
                elif depth < 2 and t_.where not in known_functions():
                    out_.extend(steps_of(t_, depth + 1))
        return out_
    seq = steps_of(conv)
    complete = all(x in seq for x in want[:8])
    ctx.tri(complete and seq.index('rename_with_label') > max(seq.index(x) for x in want[:7]), complete and seq.index('rename_with_label') < max(seq.index(x) for x in want[:7]),
            'C13.T1', conv, 'step order', 'the label is applied after every object file has been written or copied',
            'rename_with_label runs before some file is written: that file stays unlabelled (%s)' % seq, 'the sequence of conversion steps was not recognised (%s)' % seq)
    both = 'make_depths' in seq and 'make_cluster_objects' in seq
    ctx.tri(both and seq.index('make_depths') > seq.index('make_cluster_objects'), both and seq.index('make_depths') < seq.index('make_cluster_objects'), 'C13.T1', conv, 'step order',
            'cluster depths are computed after clusters.channels is written (make_depths reloads it)', 'make_depths runs before clusters.channels.npy exists',
            'the order of make_cluster_objects and make_depths was not recognised')
    cs = repo.lookup_method(cls, 'compress_spikes_dtypes')
    js = [n for n in ast.walk(cs.node) if isinstance(n, ast.JoinedStr)]
    attrs = None
    for lp in cs.nodes(ast.For):
        if isinstance(lp.iter, (ast.List, ast.Tuple)):
            attrs = [const_value(e) for e in lp.iter.elts]
    okc = False
    loopvar = None
    for lp in cs.nodes(ast.For):
        if isinstance(lp.iter, (ast.List, ast.Tuple)) and isinstance(lp.target, ast.Name):
            loopvar = lp.target.id
    if js and attrs:
        from vlib.front import str_eval
        okc = True
        for a in attrs:
            pat = str_eval(js[0], {loopvar or 'attribute': a})
            for nm in ('spikes.%s.npy' % a, 'spikes.%s.%s.npy' % (a, label)):
                okc = okc and pat is not None and fnmatch.fnmatchcase(nm, pat)
    ctx.check(okc and set(attrs or []) == {'templates', 'clusters'}, 'C13.T1', cs, js[0] if js else 'compress_spikes_dtypes',
              'the id compression finds spikes.templates / spikes.clusters with and without label', 'the id compression does not find the labelled or unlabelled spikes.templates / spikes.clusters file')
    sv = [c for c in cs.calls() if dotted(c.func) == 'np.save']
    if not sv or len(sv[0].args) < 2:
        ctx.undecided('C13.T1', cs, 'write-back of the compressed ids not recognised')
    else:
        dst = unparse(sv[0].args[0])
        lds = [unparse(c.args[0]) for c in ast.walk(sv[0].args[1]) if isinstance(c, ast.Call) and dotted(c.func) == 'np.load' and c.args]
        if lds and all(x == dst for x in lds):
            ctx.holds('C13.T1', cs, 'the compressed ids overwrite the same file they were read from', sv[0])
        elif lds:
            ctx.violated('C13.T1', cs, sv[0], 'the compressed ids are read from `%s` but written to `%s`' % (lds[0], dst))
        else:
            ctx.undecided('C13.T1', cs, 'source of the compressed ids not recognised', sv[0])


def u1_h1(ctx):
    repo = ctx.repo
    cls = repo.cls(ALF, 'EphysAlfCreator')
    mt = repo.lookup_method(cls, 'make_template_and_spikes_objects')
    saves = {const_value(c.args[0]): c for c in mt.calls() if q.method_name(c) == '_save_npy' and c.args and isinstance(const_value(c.args[0]), str)}
    for nm, src, what in (('spikes.times.npy', 'self.model.spike_times', 'spike times in seconds'), ('spikes.samples.npy', 'self.model.spike_samples', 'spike samples')):
        c = saves.get(nm)
        v_x = mt.expand(c.args[1]) if c is not None and len(c.args) >= 2 else None
        other_attr = v_x is not None and not Pat().m(src, v_x) and isinstance(v_x, ast.Attribute) and Pat().m('self.model', v_x.value)
        if isinstance(v_x, ast.Name):
            # a local assigned on several paths: the file is written from EACH of its definitions on some path
            cands = [mt.expand(a_.value) for a_ in mt.nodes(ast.Assign) if any(isinstance(t_, ast.Name) and t_.id == v_x.id for t_ in a_.targets)]
            wrong = [x_ for x_ in cands if isinstance(x_, ast.Attribute) and Pat().m('self.model', x_.value) and not Pat().m(src, x_)]
            if wrong:
                other_attr, v_x = True, wrong[0]
        ctx.tri(v_x is not None and Pat().m(src, v_x), other_attr, 'C13.U1', mt, c or nm, '%s is written from the model\'s %s' % (nm, what),
                '%s is written from `%s`, not from the model\'s %s' % (nm, unparse(v_x) if v_x is not None else '?', what), '%s: what is written was not recognised' % nm)
    mc = repo.lookup_method(cls, 'make_cluster_objects')
    # the uuid file: header line 'uuids' + one fresh uuid4 per ROW of the cluster tables. The lines are either one expression
    # (['uuids'] + [str(uuid.uuid4()) for _ in range(n)]) or a list started with the header and extended by the comprehension
    joins = [c for c in mc.calls() if isinstance(c.func, ast.Attribute) and c.func.attr == 'join' and const_value(c.func.value) == '\n' and c.args]
    header, comp = None, None
    for jn in joins:
        e = mc.expand(jn.args[0])
        if isinstance(e, ast.BinOp) and isinstance(e.op, ast.Add) and isinstance(e.left, ast.List) and isinstance(e.right, (ast.ListComp, ast.GeneratorExp)):
            header, comp = e.left, e.right
        elif isinstance(e, ast.List) and isinstance(jn.args[0], ast.Name):
            header = e
            for c in mc.calls():
                if q.method_name(c) == 'extend' and isinstance(c.func.value, ast.Name) and c.func.value.id == jn.args[0].id and c.args:
                    x = mc.expand(c.args[0])
                    if isinstance(x, (ast.ListComp, ast.GeneratorExp)):
                        comp = x
        elif isinstance(e, (ast.ListComp, ast.GeneratorExp)):
            header, comp = False, e
    if comp is None:
        ctx.undecided('C13.U1', mc, 'construction of the uuid lines not recognised')
    else:
        fresh = any(isinstance(n, ast.Call) and dotted(n.func) in ('uuid.uuid4', 'uuid4') for n in ast.walk(comp.elt))
        it = mc.expand(comp.generators[0].iter)
        n_e = it.args[0] if isinstance(it, ast.Call) and dotted(it.func) == 'range' and len(it.args) == 1 else None
        n_txt = unparse(mc.expand(n_e, depth=8)) if n_e is not None else ''
        rows = 'self.model.clusters_channels' in n_txt
        wrong = any(x in n_txt for x in ('self.model.n_clusters', 'self.model.cluster_ids', 'self.model.n_templates', 'self.model.template_ids', 'self.cluster_ids'))
        if fresh and rows and not comp.generators[0].ifs:
            ctx.holds('C13.U1', mc, 'one fresh uuid per row of the cluster tables (number of clusters_channels entries)', comp)
        elif not fresh or wrong or comp.generators[0].ifs:
            ctx.violated('C13.U1', mc, comp, 'the uuid list is not one uuid4 per cluster row (`%s` over `%s`)' % (unparse(comp.elt)[:40], n_txt[:60]))
        else:
            ctx.undecided('C13.U1', mc, 'number of uuid lines `%s` not recognised' % n_txt[:60], comp)
        if header is False or (isinstance(header, ast.List) and [const_value(e_) for e_ in header.elts] != ['uuids']):
            ctx.violated('C13.U1', mc, jn, "the uuid file does not start with the header line 'uuids'")
        elif isinstance(header, ast.List):
            ctx.holds('C13.U1', mc, "the uuid file starts with the header line 'uuids'", header)
        else:
            ctx.undecided('C13.U1', mc, 'header of the uuid file not recognised')
    # H1
    gm = repo.func(M, 'TemplateModel.get_merge_map')
    arrs = [c for c in gm.calls() if dotted(c.func) in ('np.array', 'np.asarray') and c.args and isinstance(c.args[0], (ast.ListComp, ast.List))]
    for c in arrs:
        dt = q.arg(c, 1, 'dtype')
        t = unparse(dt) if dt is not None else None
        ctx.check(t is not None and any(x in t for x in ('int', 'np.int64', 'np.int32', 'np.intp', 'np.uint')), 'C13.H1', gm, c,
                  'the array of empty cluster ids is created with an integer dtype (usable as an index when empty)',
                  '`%s` has dtype float64 when no cluster id is empty: using it as an index (ALF export of clusters.peakToTrough / depths) raises IndexError' % unparse(c)[:80])
    if not arrs:
        ctx.holds('C13.H1', gm, 'no untyped array built from a possibly empty list in get_merge_map', 'get_merge_map', nontrivial=False)
    # exporter uses nan_idx as an index
    from obligations.C14 import blanked
    from obligations.shape_tables import alf_run
    for meth_, file_, what_ in (('make_cluster_objects', 'clusters.peakToTrough.npy', 'durations'), ('make_depths', 'clusters.depths.npy', 'depths')):
        S_, saved_, fi_ = alf_run(repo, meth_)
        blanked(ctx, repo, fi_, saved_.get(file_, (None, None))[1], 'C13.H1', what_)


def a1_regenerated(ctx):
    """First dimensions agree only if every table of one export is computed from the SAME model state: a table whose write is skipped because the OUTPUT directory
    already holds a file of that name is stale after a re-export (another curation, `force=True`). A write may be skipped only because the SOURCE directory already
    provides the file (it is then copied)."""
    repo = ctx.repo
    cls = repo.cls(ALF, 'EphysAlfCreator')
    n_ok, n_und = 0, 0
    bad = []
    for m in cls.methods.values():
        for i in m.nodes(ast.If):
            tests = [n for n in ast.walk(i.test) if isinstance(n, ast.Call) and q.method_name(n) in ('exists', 'is_file')]
            if not tests:
                continue
            writes = [c for b in (i.body + i.orelse) for c in ast.walk(b) if isinstance(c, ast.Call) and (q.method_name(c) in ('_save_npy',) or dotted(c.func) in ('np.save',))]
            if not writes:
                continue
            for t in tests:
                px = m.expand(t.func.value)
                roots = {n.attr for n in ast.walk(px) if isinstance(n, ast.Attribute) and isinstance(n.value, ast.Name) and n.value.id == m.self_name}
                if 'out_path' in roots and 'dir_path' not in roots:
                    bad.append((m, i, unparse(px)))
                elif 'dir_path' in roots and 'out_path' not in roots:
                    n_ok += 1
                else:
                    n_und += 1
    if bad:
        m, i, txt = bad[0]
        ctx.violated('C13.A1', m, i.test, 'the write of a table is skipped when the OUTPUT directory already holds `%s`: a second export into the same directory (after a merge or split, force=True) keeps the '
                     'stale table, whose first dimension no longer matches the tables that are rewritten' % txt)
    elif n_und:
        ctx.undecided('C13.A1', ALF + ':EphysAlfCreator', 'an existence test guarding a table write is on a path that is neither the source nor the output directory')
    else:
        ctx.holds('C13.A1', ALF + ':EphysAlfCreator', 'no table write is skipped because of a file in the output directory (%d existence tests, all on the source directory): every export rewrites its tables from the current model' % n_ok,
                  'table writes')


def run(ctx):
    ctx.part('C13.A1', a1_regenerated)
    f, sites = f1_effects(ctx)
    p1_guard(ctx, f, sites)
    t1_names(ctx)
    u1_h1(ctx)
    from obligations import shape_tables
    shape_tables.c13_a1(ctx)
    # U2: channels.rawInd is what the loader reads back as the channel map: for an unmerged dataset it must be the source channel map itself
    # (offset 0), for a merged one the per-probe inverse of the merger's shift (same obligation as C14.S1, reported here under C13.U2)
    from obligations.C14 import s1_rawind
    s1_rawind(ctx, rule='C13.U2')


LEVEL_TEXT = ('Static effect analysis of the ALF export (directory-role whitelist: output directory, the three subset files and the deletion of '
              'temp_wh.dat in the source; copy direction; same-directory test before any effect), name agreement between everything the exporter '
              'writes and the lookups of the loader with and without label, label/compression/step-order rules, provenance of spikes.times / '
              'spikes.samples / uuids, integer dtype of the empty-id index, and first dimensions of the exported tables (shape engine).')
LEVEL_NOTE = ('Trusted: effect catalogue, fnmatch as glob model, with_suffix semantics. Not decided: equality of reloaded values, uint16 range.')
TECHNIQUE = 'static analysis: interprocedural effect analysis, writer/reader name-table agreement, index-space typing of exported arrays'
