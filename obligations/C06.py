"""C06 - sparse feature storage is densified exactly.

Decided
  A0  no index-space conflict in get_features (with / without a row table; from waveforms), get_template_features
  A1  get_features: stored rows are addressed through the row table (positions of the requested spikes IN the table) and written to
      the positions of those spikes IN the request; without a row table stored row == spike id; the column table is that of the
      spike's TEMPLATE; result axes (requested spikes, requested channels, components)
  A2  get_template_features likewise, densified over all templates
  A3  from_sparse: columns not requested are redirected to a discard slot; the lookup table is (requested channels, discard);
      the output has ONE extra column, the last, which is dropped; values are stored at (row, looked-up column); _index_of returns
      positions in the lookup table and keeps -1
  A4  features from waveforms: projection contracts the sample axis and returns (spike, channel, component); 3 components;
      computed features are written at the positions of the stored spikes within the request
  +   a buffer that receives stored values holds them exactly: float64 (NumPy default) or the dtype of the store, never a narrower type (the loader accepts float64 stores)
  +   the column table is flattened and the looked-up positions reshaped back in the same (row-major) order: order='K' / 'A' / 'F' on one side is a violation
  +   the loaders drop the row / column table only when its file is absent (`x = None` only inside the handler of the read)
Not decided: PCA numerics, value equality.
"""
import ast

from vlib import q
from vlib.pat import Pat, returned
from vlib.front import unparse, dotted, const_value, AnchorMissing
from vlib.shape import Shape, Space, Ix, Q, D, BoolT, StrT, NoneT, SizeOf, UNK, is_unk, Arr, Rec, Tup, ListT, DictT, B
from obligations.shape_tables import (model_attrs, COMMON_SIGS, M, AR, Tmpl, Clu, Chan, Samp, Spike, Loc, LocT, PC, FeatRow, FEAT, RAW)

FLOOR = 10          # decided obligations below this = the analysis lost its footing (exit 2); clean tree: 28
RULES = ('C06.A0', 'C06.A1', 'C06.A2', 'C06.A3', 'C06.A4')          # every obligation group must report (holds / violated / undecided): a group that vanishes silently is an analysis error
EXPLANATION = ('shape engine over get_features / get_template_features / compute_features with from_sparse and _index_of replaced by their '
               'signatures (checked against their bodies by structural rules): which table an index vector points into, which axis it is '
               'applied to, and the axes of the results')
TRUSTED = ['python ast', 'NumPy transfer rules of vlib/shape.py (fancy indexing, einsum)', 'signatures of from_sparse / _index_of (verified structurally by A3)']
ASSUMPTIONS = ['requested channels are distinct', 'requested spikes are valid spike ids']


def flush(ctx, S, label):
    n = 0
    for r in S.reports:
        n += 1
        ctx.violated('C06.A0', r.fi, r.node, '[%s] %s' % (label, r.msg))
    return n


def run(ctx):
    repo = ctx.repo
    cls = repo.cls(M, 'TemplateModel')
    gf = repo.lookup_method(cls, 'get_features')
    gtf = repo.lookup_method(cls, 'get_template_features')
    if gf is None or gtf is None:
        raise AnchorMissing('TemplateModel.get_features / get_template_features')
    ReqS, ReqC = B('ReqS'), B('ReqC')
    req_s, req_c = Arr((ReqS,), Ix(Spike)), Arr((ReqC,), Ix(Chan))
    nrep = 0
    for rows in (False, True):
        S = Shape(repo, selfattrs=model_attrs(feat_rows=rows), sigs=COMMON_SIGS, inline_depth=2)
        res = S.result(gf, {'self': UNK, 'spike_ids': req_s, 'channel_ids': req_c})
        lab = 'row table' if rows else 'no row table'
        nrep += flush(ctx, S, 'get_features, ' + lab)
        ok = isinstance(res, Arr) and res.axes == (ReqS, ReqC, PC)
        ctx.check(ok, 'C06.A1', gf, lab + ' axes', '%s: features on (requested spikes, requested channels, components)' % lab, '%s: features are %s' % (lab, res))
        ctx.check(isinstance(res, Arr) and isinstance(res.elem, Q) and res.elem.d() == {'f': 1}, 'C06.A1', gf, lab + ' values', '%s: the values are stored feature values' % lab,
                  '%s: the values are %s' % (lab, getattr(res, 'elem', res)), value=getattr(res, 'elem', res))
        S = Shape(repo, selfattrs=model_attrs(feat_rows=rows), sigs=COMMON_SIGS, inline_depth=2)
        res = S.result(gtf, {'self': UNK, 'spike_ids': req_s})
        nrep += flush(ctx, S, 'get_template_features, ' + lab)
        ok = isinstance(res, Arr) and len(res.axes) == 2 and res.axes[1] is Tmpl and (res.axes[0] is ReqS or res.axes[0].kind == 'Isect')
        ctx.check(ok, 'C06.A2', gtf, lab + ' axes', '%s: template features on (spikes, all templates)' % lab, '%s: template features are %s' % (lab, res))
    # structural: which vector goes where (patterns with metavariables for the locals)
    sidp, chp_ = gf.params[1], gf.params[2]
    P = Pat(gf)
    sfd = P.stmt('V_sf = self.sparse_features')
    sfn = P.name('V_sf') or 'self.sparse_features'
    ini = P.stmt('V_feat = np.empty(ANY)') or P.stmt('V_feat = np.empty(ANY, REST)') or P.stmt('V_feat = np.full(ANY, np.nan)') or P.stmt('V_feat = np.full(ANY, np.nan, REST)')
    def tri(rule, node, good, bad, ok_msg, bad_msg, und_msg):
        if good:
            ctx.holds(rule, gf, ok_msg, node)
        elif bad:
            ctx.violated(rule, gf, node, bad_msg)
        else:
            ctx.undecided(rule, gf, und_msg, node if not isinstance(node, str) else None)
    if ini is None:
        ctx.undecided('C06.A1', gf, 'allocation of the sparse feature block not recognised')
    else:
        fn_ = P.name('V_feat')
        r_in = P.stmt('V_rows = _index_of(V_s, %s.rows)' % sfn)
        r_out = P.stmt('V_rows_out = _index_of(V_s, %s)' % sidp) if r_in is not None else None
        st = P.stmt('%s[V_rows_out, ...] = %s.data[V_rows]' % (fn_, sfn)) or P.stmt('%s[V_rows_out] = %s.data[V_rows]' % (fn_, sfn)) if r_out is not None else None
        sw = None
        if r_in is not None and r_out is not None and st is None:
            sw = Pat(gf, P.b).stmt('%s[V_rows, ...] = %s.data[V_rows_out]' % (fn_, sfn)) or Pat(gf, P.b).stmt('%s[V_rows_out, ...] = %s.data[V_rows_out]' % (fn_, sfn)) or \
                Pat(gf, P.b).stmt('%s[V_rows, ...] = %s.data[V_rows]' % (fn_, sfn))
        swapped_tables = None
        if r_in is None:
            PX = Pat(gf, P.b)
            swapped_tables = PX.stmt('V_rows = _index_of(V_s, %s)' % sidp) and PX.stmt('V_rows_out = _index_of(V_s, %s.rows)' % sfn) and PX.stmt('%s[V_rows_out, ...] = %s.data[V_rows]' % (fn_, sfn))
        tri('C06.A1', st or sw or r_in or 'rows', st is not None, sw is not None or bool(swapped_tables), 'stored rows (positions in the row table) are written to the positions of those spikes in the request',
            'the stored rows are not written as features[positions in the request, ...] = data[positions in the row table] (`%s`)' % (unparse(sw) if sw is not None else 'position tables swapped'),
            'row bookkeeping of get_features not recognised')
        fill = P.stmt('%s[:] = np.nan' % fn_) or P.stmt('%s[...] = np.nan' % fn_) or P.stmt('%s.fill(np.nan)' % fn_)
        full_nan = isinstance(ini.value, ast.Call) and dotted(ini.value.func) == 'np.full'
        zero_init = P.stmt('V_feat2 = np.zeros(ANY)') is not None
        tri('C06.A1', fill or ini, fill is not None or full_nan, fill is None and not full_nan and dotted(ini.value.func) == 'np.empty',
            'spikes absent from the store are marked NaN before densification (values are claimed for stored spikes only)', 'rows of spikes absent from the store are left uninitialised (np.empty without a NaN fill)',
            'pre-fill of the feature block not recognised')
        col = P.stmt('V_cols = %s.cols[self.spike_templates[%s]]' % (sfn, sidp))
        col_bad = None
        if col is None:
            col_bad = P.stmt('V_cols = %s.cols[self.spike_clusters[%s]]' % (sfn, sidp)) or P.stmt('V_cols = %s.cols[%s]' % (sfn, sidp)) or P.stmt('V_cols = %s.cols[E_x]' % sfn)
        tri('C06.A1', col or col_bad or 'cols', col is not None, col_bad is not None, 'the column table of a spike is the row of its template',
            'the columns of a spike are `%s`, not cols[spike_templates[spike_ids]]' % (unparse(col_bad.value) if col_bad is not None else ''), 'column table of the requested spikes not recognised')
        dens = [c for c in gf.calls() if dotted(c.func) == 'from_sparse']
        if not dens or len(dens[0].args) < 3:
            ctx.undecided('C06.A1', gf, 'densification call from_sparse(...) not recognised')
        else:
            a0, a1, a2 = dens[0].args[:3]
            g = isinstance(a0, ast.Name) and a0.id == fn_ and isinstance(a1, ast.Name) and a1.id == (P.name('V_cols') or '?') and Pat().m(chp_, a2)
            vocab = {fn_, P.name('V_cols'), chp_, sidp}
            b_ = not g and {n.id for a_ in (a0, a1, a2) for n in ast.walk(a_) if isinstance(n, ast.Name)} <= vocab
            tri('C06.A1', dens[0], g, b_, 'densification over the requested channels', 'from_sparse is called as `%s`, not with (features, column table, requested channels)' % unparse(dens[0]),
                'arguments of from_sparse not recognised')
    dens = [c for c in gtf.calls() if dotted(c.func) == 'from_sparse']
    dens = [(f_, c) for f_ in repo.transparent_closure(gtf) for c in f_.calls() if dotted(c.func) == 'from_sparse' and len(c.args) + len(c.keywords) >= 3]
    req = dens[0][0].expand(q.arg(dens[0][1], 2, 'channel_ids')) if dens and q.arg(dens[0][1], 2, 'channel_ids') is not None else None
    ctx.tri(req is not None and Pat().any(['np.arange(self.n_templates)', 'np.arange(0, self.n_templates)', 'np.arange(len(self.template_ids))' if False else 'np.arange(self.n_templates, dtype=ANY)'], req),
            req is not None and Pat().any(['np.arange(E_n)', 'np.arange(E_a, E_n)', 'self.template_ids', 'np.unique(ANY)'], req) and not Pat().any(['np.arange(self.n_templates)', 'np.arange(0, self.n_templates)'], req),
            'C06.A2', gtf, dens[0][1] if dens else 'get_template_features', 'template features are densified over all templates 0..n_templates-1',
            'template features are not densified over np.arange(n_templates) (`%s`)' % (unparse(req) if req is not None else ''), 'the template list of the densification was not recognised')
    # ---- A3 from_sparse / _index_of bodies (three-valued: recognised good form -> holds, recognised wrong form -> violated, else undecided)
    def tri(good, bad, node, ok_msg, bad_msg, where):
        if good:
            ctx.holds('C06.A3', where, ok_msg, node)
        elif bad:
            ctx.violated('C06.A3', where, node, bad_msg)
        else:
            ctx.undecided('C06.A3', where, 'form not recognised: ' + ok_msg, node)
    fs = repo.func(M, 'from_sparse')
    dp, cp, chp = fs.params[:3]
    src = ast.unparse(fs.node)
    PF = Pat(fs)
    # the body of from_sparse under its own typing: only the construct-level reports (promises about uniqueness, casts of ids) are taken from this run - the
    # list-valued output shape is outside the engine's rank tracking
    Sb = Shape(repo, inline_depth=2)
    Sb.result(fs, {dp: Arr((B('Row'), Loc, B('PCx')), FEAT), cp: Arr((B('Row'), Loc), Ix(Chan)), chp: Arr((B('ReqC'),), Ix(Chan))})
    body_reports = [r_ for r_ in Sb.reports if r_.kind in ('unique', 'dtype')]
    for r_ in body_reports:
        ctx.violated('C06.A3', r_.fi, r_.node, '[from_sparse] %s' % r_.msg)
    if not body_reports:
        ctx.holds('C06.A3', fs, 'no uniqueness promise on a flattened table and no narrowing cast of ids in from_sparse', 'from_sparse body')
    # the value that replaces a column which was not requested (the sentinel) and the last entry of the lookup table
    PR = Pat(fs)
    red = PR.stmt('V_c[~np.isin(V_c, %s)] = E_sent' % chp) or PR.stmt('V_c[np.isin(V_c, %s, invert=True)] = E_sent' % chp) or PR.stmt('V_c[np.logical_not(np.isin(V_c, %s))] = E_sent' % chp) or \
        PR.stmt('V_c = np.where(np.isin(V_c, %s), V_c, E_sent)' % chp) or PR.stmt('V_c2 = np.where(np.isin(V_c, %s), V_c, E_sent)' % chp) or \
        PR.stmt('V_c = np.where(~np.isin(V_c, %s), E_sent, V_c)' % chp) or PR.stmt('V_c[~np.in1d(V_c, %s)] = E_sent' % chp)
    any_isin = any(isinstance(c_, ast.Call) and dotted(c_.func) in ('np.isin', 'np.in1d') and not any(isinstance(a_, ast.Assert) for a_ in fs.ancestors(c_)) for c_ in fs.calls())

    def sentinel(e):
        """'out': a negative constant, never a channel id; 'in': a value a requested channel can have (non-negative constant, a count of the requested channels);
        None: not recognised."""
        if e is None:
            return None
        x = fs.expand(e)
        c_ = const_value(x)
        if isinstance(c_, int) and not isinstance(c_, bool):
            return 'out' if c_ < 0 else 'in'
        if Pat().any(['len(%s)' % chp, '%s.size' % chp, '%s.shape[0]' % chp, 'len(%s) + E_k' % chp, 'np.max(%s) + 1' % chp, '%s.max() + 1' % chp], x):
            # len(requested) is the id of a channel as soon as that id is requested (ids are arbitrary); max + 1 of the REQUESTED ids can be a stored id
            return 'in' if not Pat().any(['np.max(%s) + 1' % chp, '%s.max() + 1' % chp], x) else None
        return None
    sent_node = None
    if red is not None:
        sent_node = red.value if isinstance(red.targets[0], ast.Subscript) else [a_ for a_ in red.value.args[1:] if not (isinstance(a_, ast.Name) and a_.id == PR.name('V_c'))][0]
    sv = sentinel(sent_node)
    if red is not None and sv == 'out':
        ctx.holds('C06.A3', fs, 'stored columns that were not requested are redirected to the discard slot (a negative value, never a channel id)', red)
    elif red is not None and sv == 'in':
        ctx.violated('C06.A3', fs, red, 'columns that were not requested are replaced by `%s`, which a requested channel id can equal: their values then land in the column of that channel' % unparse(sent_node))
    elif red is None and not any_isin and any(isinstance(c_, ast.Call) and dotted(c_.func) == '_index_of' for c_ in fs.calls()):
        ctx.violated('C06.A3', fs, 'from_sparse', 'stored columns that were not requested are not redirected to the discard slot: their values land in a requested column or raise')
    else:
        ctx.undecided('C06.A3', fs, 'form not recognised: stored columns that were not requested are redirected to the discard slot', red)
    look = [c for c in fs.calls() if dotted(c.func) == '_index_of' and len(c.args) >= 2]
    lx = fs.expand(look[0].args[1]) if look else None
    PL = Pat()
    if lx is not None and PL.m('np.r_[%s, E_last]' % chp, lx) or (lx is not None and PL.any(['np.append(%s, E_last)' % chp, 'np.concatenate((%s, [E_last]))' % chp, 'np.hstack((%s, [E_last]))' % chp], lx)):
        last = lx.slice.elts[1] if isinstance(lx, ast.Subscript) else (lx.args[1] if dotted(lx.func) == 'np.append' else lx.args[0].elts[1].elts[0])
        same = sent_node is not None and ast.dump(fs.expand(last)) == ast.dump(fs.expand(sent_node))
        if same:
            ctx.holds('C06.A3', fs, 'lookup table = requested channels followed by the discard value', look[0])
        elif sent_node is not None and const_value(fs.expand(last)) is not None and const_value(fs.expand(sent_node)) is not None:
            ctx.violated('C06.A3', fs, look[0], 'the lookup table ends with `%s` but columns that were not requested hold `%s`: they are not found in the table' % (unparse(last), unparse(sent_node)))
        else:
            ctx.undecided('C06.A3', fs, 'form not recognised: the last entry of the lookup table is the discard value', look[0])
    elif lx is not None and (Pat().m('np.r_[E_first, %s]' % chp, lx) or Pat().m(chp, lx) or Pat().m('np.r_[%s]' % chp, lx) or Pat().m('np.asarray(%s)' % chp, lx)):
        ctx.violated('C06.A3', fs, look[0], 'the lookup table is `%s`, expected the requested channels followed by the discard value (discard LAST, matching the dropped column)' % unparse(lx))
    else:
        ctx.undecided('C06.A3', fs, 'form not recognised: lookup table = requested channels followed by the discard value', look[0] if look else None)
    shp = [x for x in fs.nodes(ast.Assign) if isinstance(x.targets[0], ast.Subscript) and unparse(x.targets[0]).startswith('out_shape[')]
    st_ = unparse(shp[0].value).replace(' ', '') if shp else ''
    if not shp:
        # tuple form: out_shape = (n_spikes, <columns>) + data.shape[2:]
        tup = PF.stmt('V_shape = (ANY, E_ncols) + %s.shape[2:]' % dp) or PF.stmt('V_shape = (ANY, E_ncols, REST)')
        z_ = [c for c in fs.calls() if dotted(c.func) == 'np.zeros' and c.args]
        if tup is None and z_:
            zx = fs.expand(z_[0].args[0])
            if isinstance(zx, ast.BinOp) and isinstance(zx.left, ast.Tuple) and len(zx.left.elts) == 2:
                tup = z_[0]
                st_ = unparse(fs.expand(zx.left.elts[1])).replace(' ', '')
        elif tup is not None:
            v_ = tup.value.left if isinstance(tup.value, ast.BinOp) else tup.value
            st_ = unparse(fs.expand(v_.elts[1])).replace(' ', '')
        shp = [tup] if tup is not None else []
        st_ = st_.replace('len(%s)' % chp, 'n_channels')
    tri(st_ in ('n_channels+1', '1+n_channels', 'len(%s)+1' % chp), st_ in ('n_channels', 'len(%s)' % chp, 'n_channels+2'), shp[0] if shp else 'from_sparse',
        'the dense array has one extra (discard) column', 'the dense array has `%s` columns, expected requested + 1 (the discard column)' % st_, fs)
    sto = [x for x in fs.nodes(ast.Assign) if isinstance(x.targets[0], ast.Subscript) and unparse(x.targets[0].value) == 'out' and unparse(x.value) == dp]
    so = unparse(sto[0].targets[0]).replace(' ', '') if sto else ''
    tri(so == 'out[x,cols_loc,...]', so in ('out[cols_loc,x,...]', 'out[x,%s,...]' % cp, 'out[x,c,...]'), sto[0] if sto else 'from_sparse', 'values are stored at (row, looked-up column)',
        'values are stored as `%s`, expected out[row, looked-up column, ...]' % so, fs)
    xr = [x for x in fs.nodes(ast.Assign) if unparse(x.targets[0]) == 'x']
    xt = unparse(xr[0].value).replace(' ', '') if xr else ''
    rep_form = bool(xr) and Pat().any(['np.repeat(np.arange(n_spikes), n_channels_loc).reshape(ANY)', 'np.arange(n_spikes)[:, np.newaxis] * np.ones((1, n_channels_loc), dtype=int)',
                                         'np.broadcast_to(np.arange(n_spikes)[:, np.newaxis], (n_spikes, n_channels_loc))', 'np.arange(n_spikes)[:, np.newaxis]', 'np.arange(n_spikes)[:, None]'], xr[0].value)
    tri(xt == 'np.tile(np.arange(n_spikes)[:,np.newaxis],(1,n_channels_loc))' or rep_form, xt in ('np.tile(np.arange(n_channels_loc)[:,np.newaxis],(1,n_spikes))', 'np.tile(np.arange(n_spikes)[np.newaxis,:],(n_channels_loc,1))'),
        xr[0] if xr else 'from_sparse', 'row indices are 0..n-1 repeated across the stored slots', 'the row index grid is `%s`' % xt, fs)
    drop = [x for x in fs.nodes(ast.Assign) if unparse(x.targets[0]) == 'out' and isinstance(x.value, ast.Subscript) and unparse(x.value.value) == 'out']
    dt = unparse(drop[0].value).replace(' ', '') if drop else ''
    if not drop:
        rdrop = [r_ for r_ in fs.returns() if isinstance(r_.value, ast.Subscript) and unparse(r_.value.value) == 'out']
        if rdrop:
            drop, dt = rdrop, unparse(rdrop[0].value).replace(' ', '')
    tri(dt == 'out[:,:-1,...]', dt in ('out[:,1:,...]', 'out[:-1,...]', 'out[:,:-2,...]') or (not drop and bool(shp)), drop[0] if drop else 'from_sparse', 'the LAST (discard) column is dropped',
        'the column dropped is `%s`, not the last one where discarded values were written' % (dt or 'none'), fs)
    loc = [x for x in fs.nodes(ast.Assign) if unparse(x.targets[0]) == 'cols_loc']
    tri(bool(loc) and '.reshape(%s.shape)' % cp in unparse(loc[0].value), False, loc[0] if loc else 'from_sparse', 'looked-up columns keep the layout of the column table', '', fs)
    # the column table is flattened and the looked-up positions reshaped back: both in C (row-major) order. A flattening in memory order ('K' / 'A') or column-major
    # order ('F') pairs position k of the flat table with another (row, slot) than reshape(cols.shape) puts it back to, for tables that are not C-contiguous
    flat_calls = [c_ for c_ in fs.calls() if (q.method_name(c_) in ('flatten', 'ravel') or dotted(c_.func) in ('np.ravel',) or (q.method_name(c_) == 'reshape' and c_.args and const_value(c_.args[0]) == -1))]
    reshp = [c_ for c_ in fs.calls() if q.method_name(c_) == 'reshape' and not (c_.args and const_value(c_.args[0]) == -1)]

    def order_of(c_):
        o_ = q.kwarg(c_, 'order')
        if o_ is None and q.method_name(c_) in ('flatten', 'ravel') and c_.args:
            o_ = c_.args[0]
        if o_ is None and dotted(c_.func) == 'np.ravel' and len(c_.args) > 1:
            o_ = c_.args[1]
        return 'C' if o_ is None else const_value(o_)
    orders = {order_of(c_) for c_ in flat_calls + reshp}
    tri(bool(flat_calls) and orders == {'C'}, bool(orders - {'C', None}), (([c_ for c_ in flat_calls + reshp if order_of(c_) != 'C'] or flat_calls or ['from_sparse'])[0]),
        'the column table is flattened and the positions reshaped back in the same (row-major) order',
        'the column table is flattened / reshaped with order=%s while the other side uses row-major order: for a column table that is not C-contiguous (a transposed or broadcast view, '
        'a column-major array) stored values land in the wrong (spike, channel) cell' % sorted(str(o_) for o_ in orders - {'C'}), fs)
    io = repo.func(AR, '_index_of')
    ap, lp = io.params[:2]
    from obligations.shape_tables import empty_lookup_guard
    t = {unparse(x.targets[0]).replace(' ', ''): unparse(io.expand(x.value)).replace(' ', '') for x in io.nodes(ast.Assign)}
    r = [x for x in io.returns() if x.value is not None and not empty_lookup_guard(io, x)]
    rt = unparse(r[-1].value).replace(' ', '') if r else ''
    fills = ('np.arange(len(%s))' % lp, 'np.arange(%s.size)' % lp, 'np.arange(%s.shape[0])' % lp)
    good = t.get('tmp[%s]' % lp) in fills and t.get('tmp[-1]') == '-1' and rt == 'tmp[%s]' % ap
    bad = ('tmp[%s]' % lp in t and t.get('tmp[%s]' % lp) not in fills) or ('tmp[-1]' in t and t.get('tmp[-1]') != '-1') or rt == 'tmp[%s]' % lp or \
        ('tmp[%s]' % lp in t and 'tmp[-1]' not in t)
    tri(good, bad, r[-1] if r else '_index_of', '_index_of: table[lookup[k]] = k, table[-1] = -1, result = table[values]',
        '_index_of no longer maps lookup[k] -> k with -1 kept (table[lookup] = %s, table[-1] = %s, returns %s)' % (t.get('tmp[%s]' % lp), t.get('tmp[-1]'), rt), io)
    from obligations.shape_tables import check_index_of
    check_index_of(ctx, 'C06.A3')
    # ---- A4 features from waveforms
    Spk, Ch = B('Spk'), B('Ch')
    cf = repo.func(M, 'compute_features')
    if repo.has_func(M, '_project_pcs'):
        pp = repo.func(M, '_project_pcs')
        S = Shape(repo, inline_depth=1)
        res = S.result(pp, {pp.params[0]: Arr((Spk, Samp, Ch), RAW), pp.params[1]: Arr((PC, Samp, Ch), Q())})
        nrep += flush(ctx, S, '_project_pcs')
        ctx.check(isinstance(res, Arr) and res.axes == (Spk, Ch, PC), 'C06.A4', pp, '_project_pcs', 'projection contracts samples and returns (spike, channel, component)',
                  '_project_pcs returns %s, expected (spike, channel, component) with the sample axis contracted' % res, value=res)
    else:
        # the projection helper was merged into compute_features: the contraction is judged there (an einsum / tensordot of the components with the waveforms)
        es = [c_ for c_ in cf.calls() if dotted(c_.func) in ('np.einsum', 'np.tensordot')]
        sub = const_value(es[0].args[0]) if es and dotted(es[0].func) == 'np.einsum' and es[0].args else None
        ok_ = isinstance(sub, str) and sub.replace(' ', '') in ('ijk,ljk->lki', 'ljk,ijk->lki') and len(es[0].args) == 3
        if ok_:
            first_pcs = sub.replace(' ', '').startswith('ijk')
            a_pcs, a_x = (es[0].args[1], es[0].args[2]) if first_pcs else (es[0].args[2], es[0].args[1])
            ok_ = Pat().m(cf.params[0], cf.expand(a_x))
        ctx.tri(bool(ok_), bool(es) and isinstance(sub, str) and not ok_ and '->' in sub, 'C06.A4', cf, es[0] if es else 'compute_features',
                'projection contracts samples and returns (spike, channel, component) (einsum in compute_features)',
                'the projection `%s` does not contract the sample axis of the given waveforms into (spike, channel, component)' % (unparse(es[0])[:70] if es else ''),
                'the projection of the waveforms on their components was not recognised')
    c = [x for x in cf.calls() if dotted(x.func) == '_compute_pcs']
    npc = cf.expand(q.arg(c[0], 1, 'npcs')) if c and q.arg(c[0], 1, 'npcs') is not None else None
    a0_ = cf.expand(c[0].args[0]) if c and c[0].args else None
    ctx.tri(bool(c) and const_value(npc) == 3 and a0_ is not None and Pat().m(cf.params[0], a0_),
            bool(c) and ((npc is not None and isinstance(const_value(npc), int) and const_value(npc) != 3) or (a0_ is not None and isinstance(a0_, ast.Name) and a0_.id != cf.params[0] and a0_.id in cf.params)),
            'C06.A4', cf, c[0] if c else 'compute_features', 'three leading components of the given waveforms', 'compute_features does not use the 3 leading components of its waveforms',
            'the call computing the principal components was not recognised')
    pj = [x for x in cf.calls() if dotted(x.func) == '_project_pcs']
    pj0 = cf.expand(pj[0].args[0]) if pj and pj[0].args else None
    if not pj and not repo.has_func(M, '_project_pcs'):
        pj0 = ast.Name(id=cf.params[0], ctx=ast.Load()) if any(dotted(c_.func) in ('np.einsum', 'np.tensordot') for c_ in cf.calls()) else None     # judged above
    ctx.tri(pj0 is not None and Pat().m(cf.params[0], pj0), pj0 is not None and isinstance(pj0, (ast.Name, ast.Subscript)) and not Pat().m(cf.params[0], pj0), 'C06.A4', cf,
            pj[0] if pj else 'compute_features', 'the same waveforms are projected on their components', 'the projected data are not the given waveforms', 'the projection call was not recognised')
    cp_ = repo.func(M, '_compute_pcs')
    PC_ = Pat(cp_)
    eig = PC_.stmt('(V_vals, V_vecs) = np.linalg.eigh(ANY)') or PC_.stmt('(V_vals, V_vecs) = np.linalg.eig(ANY)')
    if eig is None:
        ctx.undecided('C06.A4', cp_, 'eigen-decomposition in _compute_pcs not recognised')
    else:
        desc = PC_.expr('np.argsort(V_vals)[::-1]') or PC_.expr('np.argsort(-V_vals)') or PC_.expr('V_vals.argsort()[::-1]')
        asc = PC_.expr('np.argsort(V_vals)') if desc is None else None
        if desc is not None:
            ctx.holds('C06.A4', cp_, 'components are ordered by decreasing eigenvalue (leading first)', desc)
        elif asc is not None:
            ctx.violated('C06.A4', cp_, asc, 'components are ordered by INCREASING eigenvalue: the first npcs components are the least significant ones')
        else:
            ctx.undecided('C06.A4', cp_, 'ordering of the components by eigenvalue not recognised')
    S = Shape(repo, selfattrs=model_attrs(no_features=True, store=True), sigs=COMMON_SIGS, inline_depth=3)
    res = S.result(gf, {'self': UNK, 'spike_ids': req_s, 'channel_ids': req_c})
    nrep += flush(ctx, S, 'get_features from waveforms')
    ok = isinstance(res, Arr) and len(res.axes) == 3 and res.axes[0] is ReqS and res.axes[1] is ReqC
    ctx.check(ok, 'C06.A4', gf, 'from waveforms axes', 'features from waveforms on (requested spikes, requested channels, 3)', 'features from waveforms are %s' % res)
    PW = Pat(gf)
    ex_ = PW.stmt('V_exist = np.intersect1d(%s, self.spike_waveforms.spike_ids)' % sidp)
    ind = PW.stmt('V_ind = _index_of(V_exist, %s)' % sidp) if ex_ is not None else None
    ind_bad = Pat(gf, PW.b).stmt('V_ind = _index_of(%s, V_exist)' % sidp) if ex_ is not None and ind is None else None
    if ind is not None:
        ctx.holds('C06.A4', gf, 'computed features are placed at the positions of the stored spikes within the request', ind)
    elif ind_bad is not None:
        ctx.violated('C06.A4', gf, ind_bad, 'computed features are placed by `%s`, not by the positions of the stored spikes within the request' % unparse(ind_bad.value))
    else:
        ctx.undecided('C06.A4', gf, 'placement of the computed features not recognised')
    if nrep == 0:
        ctx.holds('C06.A0', gf, 'no index-space conflict in get_features (3 configurations), get_template_features (2), _project_pcs', 'feature access')
    ctx.part('C06.A1', value_buffers)
    ctx.part('C06.A1', tables_kept)


def tables_kept(ctx):
    """The loaders hand the row (spike-id) and column tables they read to the accessors: a table is None only when its FILE is absent (the `except IOError` of the
    read). A table dropped under another condition (e.g. "one row per spike, so the store is complete") makes the accessors address rows by spike id although the
    rows are in the table's order."""
    repo = ctx.repo
    cls = repo.cls(M, 'TemplateModel')
    for nm in ('_load_features', '_load_template_features'):
        fi = repo.lookup_method(cls, nm)
        if fi is None:
            raise AnchorMissing('TemplateModel.%s' % nm)
        bun = [c for c in fi.calls() if dotted(c.func) == 'Bunch' and q.kwarg(c, 'rows') is not None]
        if not bun:
            ctx.undecided('C06.A1', fi, '%s: the returned store (Bunch(data=, cols=, rows=)) was not recognised' % nm)
            continue
        for field in ('rows', 'cols'):
            v = q.kwarg(bun[0], field)
            if not isinstance(v, ast.Name):
                ctx.undecided('C06.A1', fi, '%s: the %s table of the returned store is `%s`' % (nm, field, unparse(v) if v is not None else 'absent'))
                continue
            nones = [a for a in fi.nodes(ast.Assign) if any(isinstance(t, ast.Name) and t.id == v.id for t in a.targets) and isinstance(a.value, ast.Constant) and a.value.value is None]
            stray = [a for a in nones if not any(isinstance(x, ast.ExceptHandler) for x in fi.ancestors(a))]
            reads = [a for a in fi.nodes(ast.Assign) if any(isinstance(t, ast.Name) and t.id == v.id for t in a.targets) and isinstance(a.value, ast.Call)]
            ctx.tri(bool(reads) and not stray, bool(stray), 'C06.A1', fi, (stray or reads or [bun[0]])[0],
                    '%s: the %s table is dropped only when its file is absent' % (nm, field),
                    '%s: the %s table that was read is discarded under a condition other than "file absent" (`%s = None` outside the handler of the read): the accessors then address the '
                    'store by spike id / channel position although its entries are in the table\'s order' % (nm, field, v.id),
                    '%s: how the %s table is read was not recognised' % (nm, field))


def value_buffers(ctx):
    """"returns the stored value": a buffer that receives stored feature values must be able to hold them exactly. The stores may be float64 (the loader accepts
    float32 and float64), so the buffer is float64 (NumPy's default), has the dtype of the store, or - anything narrower (float32, float16, an integer type) rounds."""
    repo = ctx.repo
    cls = repo.cls(M, 'TemplateModel')
    fs_ = repo.func(M, 'from_sparse')
    sites = []
    for fi in (repo.lookup_method(cls, 'get_features'), repo.lookup_method(cls, 'get_template_features'), fs_):
        for f_ in repo.transparent_closure(fi):
            def is_data(e, f_=f_):
                for n_ in ast.walk(e):
                    if isinstance(n_, ast.Attribute) and n_.attr == 'data' and isinstance(n_.ctx, ast.Load):
                        return True
                    if f_ is fs_ and isinstance(n_, ast.Name) and n_.id == fs_.params[0]:
                        return True
                return False
            for a in f_.nodes(ast.Assign):
                t = a.targets[0]
                if isinstance(t, ast.Subscript) and isinstance(t.value, ast.Name) and is_data(a.value):
                    d_ = f_.unique_def(t.value.id)
                    if d_ is None:
                        d_ = f_.reaching_def(t.value)
                    sites.append((f_, a, t.value.id, d_))
    if not sites:
        ctx.undecided('C06.A1', fs_, 'no buffer receiving stored feature values was found')
        return
    WIDE = ('np.float64', 'float', 'np.double', 'np.float_', 'np.longdouble')
    NARROW = ('np.float32', 'np.float16', 'np.single', 'np.half', 'np.int32', 'np.int64', 'int', 'np.int16', 'np.uint8', 'np.int8', 'np.uint16', 'np.uint32', 'bool', 'np.bool_')
    for f_, a, name, d_ in sites:
        if not (isinstance(d_, ast.Call) and (dotted(d_.func) or '').split('.')[-1] in ('empty', 'zeros', 'ones', 'full', 'empty_like', 'zeros_like', 'full_like', 'ones_like')):
            ctx.undecided('C06.A1', f_, 'allocation of the buffer `%s` that receives stored values not recognised' % name, a)
            continue
        kind = (dotted(d_.func) or '').split('.')[-1]
        dt = q.kwarg(d_, 'dtype')
        if dt is None:
            pos = {'empty': 1, 'zeros': 1, 'ones': 1, 'full': 2, 'empty_like': 1, 'zeros_like': 1, 'ones_like': 1, 'full_like': 2}[kind]
            dt = d_.args[pos] if len(d_.args) > pos else None
        dx = f_.expand(dt) if dt is not None else None
        txt = (dotted(dx) or (const_value(dx) if isinstance(dx, ast.Constant) else None)) if dx is not None else None
        like = kind.endswith('_like')
        good = (dx is None and not like) or txt in WIDE or txt in ('float64', 'f8', 'd', '<f8') or \
            (isinstance(dx, ast.Attribute) and dx.attr == 'dtype' and any(isinstance(n_, ast.Attribute) and n_.attr == 'data' for n_ in ast.walk(dx))) or \
            (f_ is fs_ and dx is not None and Pat().m('%s.dtype' % fs_.params[0], dx)) or \
            (dx is None and like and d_.args and (Pat().m(fs_.params[0], d_.args[0]) if f_ is fs_ else any(isinstance(n_, ast.Attribute) and n_.attr == 'data' for n_ in ast.walk(d_.args[0]))))
        bad = not good and (txt in NARROW or txt in ('float32', 'f4', 'float16', 'f2', 'int', 'int32', 'int64', 'i4', 'i8', '<f4'))
        ctx.tri(bool(good), bool(bad), 'C06.A1', f_, d_, 'the buffer `%s` that receives stored values holds them exactly (float64 or the dtype of the store)' % name,
                'the buffer `%s` that receives stored feature values is allocated as %s: float64 stores (accepted by the loader) are rounded, the returned value is not the stored one' % (name, txt),
                'dtype of the buffer `%s` (`%s`) not recognised' % (name, unparse(dx) if dx is not None else 'default of a *_like call'))


LEVEL_TEXT = ('Static index-space typing of feature access (row table positions vs request positions, template-indexed column table, result axes), '
              'structural rules tying from_sparse / _index_of to the discard-column scheme their signatures assume, and the axes of the '
              'waveform projection.')
LEVEL_NOTE = ('Trusted: NumPy transfer rules (fancy indexing, einsum), signatures of from_sparse / _index_of. Not decided: PCA numerics, values.')
TECHNIQUE = 'static analysis: abstract interpretation (index-space typing) plus structural rules on the ast'
