"""C04 - loading a dataset reproduces its files under every supported layout.

Decided
  F1  write / delete / in-place-map effects reachable from TemplateModel.__init__ (= load_model) are a subset of
      { create DATASET/spike_clusters.npy, create DATASET/whitening_mat_inv.npy }  (fx over the whole call tree,
      reader constructors included; a writable memory map is an effect only if an in-place store reaches it)
  F2  both creations are "only when absent": the copy is under `path is None` of the non-mandatory lookup of the same
      file; the inverse is written only from the handler of the failed load of the inverse file
  T1  every loader looks its file up under the names of the dataset schema (KiloSort name and ALF pattern)
  T2  no mandatory lookup of a name that is known absent on that path (belief contradiction)
  U1  spike times = samples / sample_rate; samples = round(times * sample_rate) for ALF; reordered times likewise
  A1  raw traces are column-selected by the channel map; the reader receives dtype, offset, n_channels_dat, sample_rate
  D1  NaN and inf are scrubbed iff the array is not memory-mapped; every array is squeezed; documented defaults for
      absent optional files (identity whitening, zero shanks / probes, zero similarity, amplitudes None)
  P1  the monotonicity test raises before any write effect
  +   the blanking of unused templates: only templates that are NaN on EVERY sample and channel (mask taken on the whole array) are zeroed
  +   F2: the try block that loads the inverse whitening matrix does not raise by itself (its handler writes the file: it must run only when the file is absent)
  +   U1: samples converted to seconds by `/ sample_rate` never come from the ALF samples file (an ALF dataset keeps its stored seconds)
Not decided: equality of the loaded values with the file contents, dtype assertions, exec of params.py.
"""
import ast

from vlib import q, fx
from vlib.pat import Pat, returned
from vlib.fx import Fx, P, K, O, L, R, U, A
from vlib.front import unparse, dotted, const_value, AnchorMissing

M = 'phylib/io/model.py'
TR = 'phylib/io/traces.py'
FLOOR = 16          # decided obligations below this = the analysis lost its footing (exit 2); clean tree: 47
RULES = ('C04.A1', 'C04.D1', 'C04.F1', 'C04.F2', 'C04.P1', 'C04.T1', 'C04.T2', 'C04.U1')          # every obligation group must report (holds / violated / undecided): a group that vanishes silently is an analysis error
EXPLANATION = ('fx engine: a context-sensitive abstract interpretation of the whole call tree of TemplateModel.__init__ (paths as root + name '
               'pattern, arrays with their source file and map mode, objects with fields) collects every may-effect on the file system '
               'with its call chain and guards; the set is compared with the whitelist of the property. Loader name tables, unit '
               'conversions, defaults and scrubbing conditions are read off the ast and compared with the dataset schema')
TRUSTED = ['python ast', 'effect primitive catalogue of vlib/fx.py (np.save/load/memmap, open, shutil, Path.*)', 'params.py does not redefine dir_path',
           'dataset schema table (DESIGN Appendix A)']
ASSUMPTIONS = ['exec of params.py has no file-system effect', 'mtscomp opens its files read-only']

SCHEMA = {   # loader -> names the property's layouts use (KS name first, ALF pattern(s) after)
    '_load_channel_map': [('channel_map.npy', 'channels.rawInd*.npy')],
    '_load_channel_positions': [('channel_positions.npy', 'channels.localCoordinates*.npy')],
    '_load_channel_probes': [('channel_probe.npy', 'channels.probes*.npy')],
    '_load_channel_shanks': [('channel_shanks.npy', 'channels.shanks*.npy')],
    '_load_amplitudes': [('amplitudes.npy', 'spikes.amps*.npy')],
    '_load_spike_templates': [('spike_templates.npy', 'spikes.templates*.npy')],
    '_load_spike_clusters': [('spike_clusters.npy', 'spikes.clusters*.npy'), ('spike_templates.npy', 'spikes.templates*.npy')],
    '_load_similar_templates': [('similar_templates.npy',)],
    '_load_templates': [('templates.npy', 'templates.waveforms.npy', 'templates.waveforms.*.npy'), ('template_ind.npy', 'templates.waveformsChannels*.npy')],
    '_load_wm': [('whitening_mat.npy',)],
    '_load_wmi': [('whitening_mat_inv.npy',)],
    '_load_features': [('pc_features.npy',), ('pc_feature_ind.npy',), ('pc_feature_spike_ids.npy',)],
    '_load_template_features': [('template_features.npy',), ('template_feature_ind.npy',), ('template_feature_spike_ids.npy',)],
}


from vlib.fxmodel import make_fx, model_obj, check_find_path_anchor


def classify(e):
    """-> (root, pattern, kind)"""
    p = e.path
    if isinstance(p, P):
        return p.root, p.pat, e.kind
    return 'unknown', None, e.kind


def guard_texts(e):
    out = []
    for g in e.all_guards():
        node, br, fi = g
        if isinstance(node, ast.Try):
            out.append(('try', br, node, fi))
        else:
            out.append(('if', br, node, fi))
    return out


def f1_effects(ctx):
    repo = ctx.repo
    init = repo.func(M, 'TemplateModel.__init__')
    if not check_find_path_anchor(repo):
        raise AnchorMissing('TemplateModel._find_path no longer globs self.dir_path (path summary invalid)')
    f = make_fx(repo)
    obj = model_obj(repo)
    f.run(init, self_obj=obj)
    ctx.analysed['call_sites'] += f.calls_seen
    effs = [e for e in f.effects if e.kind in ('write', 'delete', 'mmap-write', 'mkdir', 'alias')]
    ctx.note('load_model call tree: %d call sites interpreted, %d may-effects of kind write/delete/map-write found' % (f.calls_seen, len(effs)))
    seen = set()
    n_ok = 0
    allowed_hits = {'spike_clusters.npy': [], 'whitening_mat_inv.npy': []}
    for e in effs:
        root, pat, kind = classify(e)
        key = (kind, root, pat, e.where())
        if key in seen:
            continue
        seen.add(key)
        if kind == 'alias':
            ctx.violated('C04.F1', e.fi, e.node, 'loading creates %s/%s as a link to an existing file, not as a copy: both names share their bytes, so a later save through one '
                         'name rewrites the other pre-existing file  [%s; call chain: %s]' % (root, pat, e.detail, e.chain()))
            continue
        if root == 'DATASET' and kind == 'write' and pat in allowed_hits:
            allowed_hits[pat].append(e)
            n_ok += 1
            continue
        what = {'write': 'writes', 'delete': 'deletes', 'mmap-write': 'modifies in place (writable memory map)', 'mkdir': 'creates directory'}[kind]
        ctx.violated('C04.F1', e.fi, e.node, 'loading %s %s/%s  [%s; call chain: %s]' % (what, root, pat, e.detail, e.chain()))
    ctx.holds('C04.F1', init, 'write/delete/in-place effects reachable from TemplateModel.__init__ are confined to the whitelist '
              '(%d whitelisted effect sites, %d call sites interpreted)' % (n_ok, f.calls_seen), 'load_model') if not any(
        o.status == 'violated' and o.rule == 'C04.F1' for o in ctx.obs) else None
    # ---- F2: only when absent
    for name, es in allowed_hits.items():
        if not es:
            ctx.note('%s is never created by loading (the property allows, does not require it)' % name)
            continue
        for e in es:
            gs = guard_texts(e)
            ok = False
            why = 'no guard establishing that the file is absent'
            if name == 'spike_clusters.npy':
                for kind, br, node, gfi in gs:
                    if kind == 'if' and br in (False, 'after-exit'):
                        # in the else branch / after `if <test>: return`: the negation of the test holds
                        test0 = node.test if isinstance(node, ast.If) else node
                        c0 = q.simple_compare(test0)
                        if c0 and c0[1] == 'is not' and const_value(c0[2]) is None:
                            node = ast.copy_location(ast.Compare(left=c0[0], ops=[ast.Is()], comparators=[ast.Constant(value=None)]), test0)
                            br = True
                    if kind == 'if' and br is True:
                        c = q.simple_compare(node.test) if isinstance(node, ast.If) else q.simple_compare(node)
                        test = node.test if isinstance(node, ast.If) else node
                        c = q.simple_compare(test)
                        if c and c[1] == 'is' and const_value(c[2]) is None and isinstance(c[0], ast.Name):
                            d = [v for k_, v, st_, ex in gfi.defs().get(c[0].id, []) if k_ == 'assign']
                            for v in d:
                                if isinstance(v, ast.Call) and q.method_name(v) == '_find_path' and const_value(q.kwarg(v, 'mandatory')) is False and \
                                        any(const_value(a) == name for a in v.args):
                                    ok = True
                        if c and c[1] == 'is' and const_value(c[2]) is None and not ok:
                            why = 'the copy is guarded by `%s`, which is not the non-mandatory lookup of %s' % (unparse(test), name)
                    if kind == 'if' and br is True and not ok:
                        t = unparse(node.test if isinstance(node, ast.If) else node)
                        if 'exists()' in t and t.startswith('not ') and name.split('.')[0] in t or 'not path.exists()' in t:
                            ok = True
            else:
                for kind, br, node, gfi in gs:
                    if kind == 'try' and isinstance(br, tuple) and br[0] == 'except':
                        exc = br[1]
                        excs = exc if isinstance(exc, tuple) else (exc,)
                        if any(x in ('IOError', 'OSError', 'FileNotFoundError') for x in excs):
                            # the try body must (only) attempt to load the inverse file
                            calls = [c for s_ in node.body for c in ast.walk(s_) if isinstance(c, ast.Call)]
                            loads = [c for c in calls if _reaches_lookup(repo, gfi, c, name, {}, 0)]
                            own_raise = [n for s_ in node.body for n in ast.walk(s_) if isinstance(n, ast.Raise)]
                            if loads and own_raise:
                                why = 'the try block raises by itself (`%s`) after the load: the handler that writes %s also runs when the file exists, and overwrites it' % (
                                    unparse(own_raise[0])[:60], name)
                            elif loads:
                                ok = True
                            else:
                                why = 'the handler that writes %s does not belong to the attempt to load that file' % name
            ctx.check(ok, 'C04.F2', e.fi, e.node, '%s is created only when it is absent (guard on the call chain %s)' % (name, e.chain()),
                      '%s can be written although it exists: %s (call chain %s)' % (name, why, e.chain()))
    return f, effs


def _reaches_lookup(repo, fi, call, name, env, depth):
    """Does `call` (made in `fi`, with `env` = constant values of fi's parameters) reach a `_find_path(<name>)` within three call levels? File names may travel
    through parameters of helpers (`_load_matrix(name)`)."""
    def val(e):
        c = const_value(e)
        if c is None and isinstance(e, ast.Name):
            return env.get(e.id)
        return c
    if q.method_name(call) == '_find_path':
        return any(val(a) == name for a in call.args)
    if depth >= 3:
        return False
    try:
        tgs = repo.resolve_call(fi, call)
    except Exception:
        tgs = []
    for t in tgs:
        env2 = {}
        for k_, p_ in enumerate(t.real_params):
            a_ = q.arg(call, k_, p_)
            if a_ is not None and val(a_) is not None:
                env2[p_] = val(a_)
        for c2 in t.calls():
            if _reaches_lookup(repo, t, c2, name, env2, depth + 1):
                return True
    return False


def t1_t2_names(ctx):
    repo = ctx.repo
    cls = repo.cls(M, 'TemplateModel')
    for lname, groups in SCHEMA.items():
        fi = repo.lookup_method(cls, lname)
        if fi is None:
            raise AnchorMissing('TemplateModel.%s' % lname)
        calls, got = [], []
        clo = repo.transparent_closure(fi)
        for f_ in clo:
            for c in f_.calls():
                if q.method_name(c) != '_find_path':
                    continue
                names_ = tuple(const_value(a) for a in c.args)
                if f_ is not fi and len(c.args) == 1 and isinstance(c.args[0], ast.Starred) and isinstance(c.args[0].value, ast.Name) and c.args[0].value.id == f_.vararg and \
                        f_.unique_def(f_.vararg) is None:
                    # helper(*names) forwarding its names: _find_path(*names) - one lookup per call site of the helper, the names are its extra positional arguments
                    npos = len(f_.real_params)
                    for g_ in clo:
                        for c2 in g_.calls():
                            try:
                                tg = repo.resolve_call(g_, c2, virtual=False)
                            except Exception:
                                tg = []
                            if any(t.node is f_.node for t in tg) and not any(isinstance(a, ast.Starred) for a in c2.args):
                                calls.append(c2)
                                got.append(tuple(const_value(a) for a in c2.args[npos:]))
                    continue
                if None in names_ and f_ is not fi and all(isinstance(a, ast.Name) and a.id in f_.real_params for a in c.args):
                    # a helper extracted after the pinned tree that receives the file name(s): one lookup per call site of the helper
                    idx = [f_.real_params.index(a.id) for a in c.args]
                    for g_ in clo:
                        for c2 in g_.calls():
                            try:
                                tg = repo.resolve_call(g_, c2, virtual=False)
                            except Exception:
                                tg = []
                            if any(t.node is f_.node for t in tg):
                                calls.append(c2)
                                got.append(tuple(const_value(q.arg(c2, k_, f_.real_params[k_])) if q.arg(c2, k_, f_.real_params[k_]) is not None else None for k_ in idx))
                    continue
                calls.append(c)
                got.append(names_)
        unresolved = any(None in x for x in got)
        for g in groups:
            hit = [x for x in got if set(x) == set(g)]
            if hit:
                order_ok = hit[0][0] == g[0]
                ctx.check(order_ok, 'C04.T1', fi, calls[got.index(hit[0])], '%s looks up %s (KiloSort name first)' % (lname, ' | '.join(g)),
                          '%s lists %s before the KiloSort name %s' % (lname, hit[0][0], g[0]))
            else:
                near = [x for x in got if set(x) & set(g)]
                if unresolved and not near:
                    ctx.undecided('C04.T1', fi, '%s: a looked-up file name is not a constant; the lookup of %s was not found' % (lname, g))
                    continue
                ctx.violated('C04.T1', fi, calls[got.index(near[0])] if near else lname,
                             '%s looks up %s, the dataset schema names %s' % (lname, near[0] if near else got, g))
        # T2: belief contradiction
        for ifn in fi.nodes(ast.If):
            c = q.simple_compare(ifn.test)
            if c and c[1] == 'is' and const_value(c[2]) is None and isinstance(c[0], ast.Name):
                absent = set()
                for k_, v, st_, ex in fi.defs().get(c[0].id, []):
                    if isinstance(v, ast.Call) and q.method_name(v) == '_find_path' and const_value(q.kwarg(v, 'mandatory')) is False:
                        absent |= {const_value(a) for a in v.args}
                if not absent:
                    continue
                for s_ in ifn.body:
                    for c2 in ast.walk(s_):
                        if isinstance(c2, ast.Call) and q.method_name(c2) == '_find_path' and const_value(q.kwarg(c2, 'mandatory')) is not False:
                            names = {const_value(a) for a in c2.args}
                            bad = names & absent
                            ctx.check(not bad, 'C04.T2', fi, c2, 'fallback lookup %s does not repeat a name known to be absent' % sorted(names),
                                      'fallback lookup lists %s, which the enclosing test `%s` has just established to be absent: '
                                      'the intended fallback file is never found' % (sorted(bad), unparse(ifn.test)))
    # spike times files
    fi = repo.lookup_method(cls, '_load_spike_samples')
    txt = ' '.join(ast.unparse(f_.node) for f_ in repo.transparent_closure(fi))
    for nm in ("'spike_times.npy'", "'spikes.times*.npy'", "'spikes.samples*.npy'"):
        ctx.check(nm in txt, 'C04.T1', fi, nm, '_load_spike_samples reads %s' % nm, '_load_spike_samples no longer reads %s' % nm)


def u1_units(ctx):
    repo = ctx.repo
    cls = repo.cls(M, 'TemplateModel')
    fi = repo.lookup_method(cls, '_load_spike_samples')
    P = Pat(fi)
    # roles: the array read from spike_times.npy is in samples; the one read from spikes.times*.npy is in seconds
    rd_s = P.stmt('V_samples = self._read_array(V_path)')
    rd_t = None
    for a in fi.nodes(ast.Assign):
        if a is not rd_s and Pat(fi, P.b).m('V_times = self._read_array(V_tpath)', a, stmt=True):
            pth = [x for x in fi.nodes(ast.Assign) if isinstance(x.targets[0], ast.Name) and x.targets[0].id == a.value.args[0].id and 'spikes.times' in unparse(x.value)]
            if pth:
                rd_t = a
                P.m('V_times = self._read_array(V_tpath)', a, stmt=True)
    # "for ALF the stored seconds": only the KiloSort file (spike_times.npy, in samples) is converted by the division; samples read from the ALF file
    # spikes.samples*.npy come with their own stored seconds (spikes.times*.npy), which must be what is loaded
    PD = Pat(fi)
    dv = PD.stmt('V_t = V_s / self.sample_rate')
    if dv is not None:
        sdef = [a_ for a_ in fi.nodes(ast.Assign) if any(isinstance(t_, ast.Name) and t_.id == PD.name('V_s') for t_ in a_.targets) and isinstance(a_.value, ast.Call) and
                q.method_name(a_.value) == '_read_array' and a_.value.args and isinstance(a_.value.args[0], ast.Name)]
        pv_ = sdef[0].value.args[0].id if sdef else None
        alf_src = [a_ for a_ in fi.nodes(ast.Assign) if pv_ and any(isinstance(t_, ast.Name) and t_.id == pv_ for t_ in a_.targets) and 'spikes.samples' in unparse(a_.value)]
        if alf_src:
            ctx.violated('C04.U1', fi, alf_src[0], 'the samples converted to seconds by `/ sample_rate` can come from the ALF file (`%s`): an ALF dataset that stores both samples and seconds is '
                         'loaded with recomputed seconds instead of the stored ones' % unparse(alf_src[0])[:80])
    if rd_s is None or rd_t is None:
        ctx.undecided('C04.U1', fi, 'the reads of spike_times.npy (samples) and spikes.times*.npy (seconds) were not both recognised')
    else:
        div_good = P.stmt('V_times = V_samples / self.sample_rate')
        div_bad = P.stmt('V_times = V_samples * self.sample_rate') or P.stmt('V_times = V_samples') or P.stmt('V_times = V_samples // self.sample_rate') or \
            P.stmt('V_times = self.sample_rate / V_samples')
        if div_good is not None:
            ctx.holds('C04.U1', fi, 'spike times (s) = spike samples / sample_rate', div_good)
        elif div_bad is not None:
            ctx.violated('C04.U1', fi, div_bad, 'spike times are not computed as samples / sample_rate (`%s`)' % unparse(div_bad))
        else:
            ctx.undecided('C04.U1', fi, 'the conversion of spike_times.npy (samples) to seconds was not recognised')
        conv = [a for a in fi.nodes(ast.Assign) if isinstance(a.targets[0], ast.Name) and a.targets[0].id == P.name('V_samples') and a is not rd_s and
                P.name('V_times') in q.names_in(a.value)]
        if not conv:
            ctx.undecided('C04.U1', fi, 'the conversion of ALF spike times (seconds) to samples was not recognised')
        else:
            v = conv[0].value
            rounded = any(isinstance(c, ast.Call) and (q.method_name(c) in ('round', 'rint', 'around') or dotted(c.func) in ('np.round', 'np.rint', 'np.around', 'round')) for c in ast.walk(v))
            core = [b for b in ast.walk(v) if isinstance(b, ast.BinOp)]
            mul = len(core) == 1 and Pat(fi, P.b).m('V_times * self.sample_rate', core[0])
            if rounded and mul:
                ctx.holds('C04.U1', fi, 'for ALF datasets spike samples = round(times * sample_rate)', conv[0])
            elif len(core) == 1 and (not mul or not rounded):
                ctx.violated('C04.U1', fi, conv[0], 'ALF spike samples are not round(times * sample_rate) (`%s`)%s' % (unparse(v), '' if rounded else ': truncation instead of rounding loses a sample '
                             'whenever times * rate falls just below an integer'))
            else:
                ctx.undecided('C04.U1', fi, 'ALF sample conversion `%s` not in a recognised form' % unparse(v)[:60], conv[0])
        # returned pair order
        r = [(r_, x) for r_, x in returned(fi) if isinstance(x, ast.Tuple) and len(x.elts) == 2]
        raw = [r_.value for r_ in fi.returns() if isinstance(r_.value, ast.Tuple) and len(r_.value.elts) == 2]
        if not raw and not r:
            ctx.undecided('C04.U1', fi, 'the returned (samples, times) pair was not recognised')
        else:
            tup = raw[-1] if raw else r[-1][1]
            g = Pat(fi, P.b).m('(V_samples, V_times)', tup)
            b_ = Pat(fi, P.b).m('(V_times, V_samples)', tup)
            if g:
                ctx.holds('C04.U1', fi, '_load_spike_samples returns (samples, times)', tup)
            elif b_:
                ctx.violated('C04.U1', fi, tup, 'the (samples, times) pair is returned in another order')
            else:
                ctx.undecided('C04.U1', fi, 'returned pair `%s` not recognised' % unparse(tup), tup)
    ld = repo.lookup_method(cls, '_load_data')
    un = [a for a in ld.nodes(ast.Assign) if isinstance(a.value, ast.Call) and q.method_name(a.value) == '_load_spike_samples']
    if not un:
        ctx.undecided('C04.U1', ld, 'the call of _load_spike_samples in _load_data was not found')
    else:
        g = Pat().m('(self.spike_samples, self.spike_times)', un[0].targets[0])
        b_ = Pat().m('(self.spike_times, self.spike_samples)', un[0].targets[0])
        if g:
            ctx.holds('C04.U1', ld, 'the model stores (spike_samples, spike_times) in that order', un[0])
        elif b_:
            ctx.violated('C04.U1', ld, un[0], 'spike_samples / spike_times are bound in the wrong order')
        else:
            ctx.undecided('C04.U1', ld, 'binding of the loaded (samples, times) pair not recognised', un[0])
    fr = repo.lookup_method(cls, '_load_spike_reorder')
    PR = Pat(fr)
    g = PR.stmt('V_t = V_s / self.sample_rate') or PR.expr('ANY / self.sample_rate')
    b_ = PR.stmt('V_t = V_s * self.sample_rate') if g is None else None
    if g is not None:
        ctx.holds('C04.U1', fr, 'reordered times = samples / sample_rate', g)
    elif b_ is not None:
        ctx.violated('C04.U1', fr, b_, 'reordered spike times are not samples / sample_rate')
    else:
        ctx.undecided('C04.U1', fr, 'conversion of the reordered spike times not recognised')


def a1_traces(ctx):
    repo = ctx.repo
    cls = repo.cls(M, 'TemplateModel')
    fi = repo.lookup_method(cls, '_load_traces')
    cm = fi.params[1] if len(fi.params) > 1 else 'channel_map'
    # path-sensitive walk: on EVERY path that returns a raw reader obtained from get_ephys_reader, what is returned is reader[:, channel_map]; the bare reader
    # may be returned only where the path has established that it is None
    from vlib import proto
    from vlib.proto import T, C, is_t, show, subterms
    I = proto.Interp(repo, unroll=1, inline_depth=0)
    outs = ctx_outs = I.run(fi, env={fi.params[0]: T('self'), cm: T('param', cm)})
    ctx.analysed['paths'] += len(outs)
    sel_ok, bare_bad, unknown = [], [], []
    for kind, val, st in outs:
        if kind != 'return':
            continue
        readers = [x for x in subterms(val) if is_t(x) and x[1] == 'call' and x[2] == 'get_ephys_reader']
        if not readers:
            continue
        R_ = readers[0]
        if val == R_:
            key = ('is',) + tuple(sorted([C(None), R_], key=repr))
            is_none = st.facts.get(key)
            if is_none is True or st.facts.get(('truth', R_)) is False:
                continue                    # the reader is None / falsy on this path
            bare_bad.append((val, st))
        elif is_t(val) and val[1] == 'index' and val[2] == R_ and is_t(val[3]) and val[3][1] == 'tuple' and len(val[3]) == 4 and val[3][3] == T('param', cm) and \
                is_t(val[3][2]) and val[3][2][1] in ('slice', 'slice3') and all(x == C(None) for x in val[3][2][2:]):
            sel_ok.append(val)
        else:
            unknown.append(val)
    if bare_bad:
        conds = sorted({show(k_[1] if k_[0] != 'is' else k_[2])[:50] + '=' + str(v_) for k_, v_ in bare_bad[0][1].facts.items() if k_[0] in ('truth', 'is')})
        ctx.violated('C04.A1', fi, 'bare raw reader returned', 'on a path of _load_traces (%s) the raw reader is returned without the [:, %s] selection: a raw file with more channels than '
                     'the channel map keeps its extra columns, and the columns are not in channel-map order' % (', '.join(conds)[:160], cm))
    elif sel_ok and not unknown:
        ctx.holds('C04.A1', fi, 'every path that returns a raw reader returns reader[:, channel_map] (lazy column selection by the channel map)', 'traces[:, channel_map]')
    else:
        ctx.undecided('C04.A1', fi, 'what _load_traces returns on the paths that open the raw data was not recognised (%s)' % [show(v)[:60] for v in unknown][:1])
    ld = repo.lookup_method(cls, '_load_data')
    calls = [c for c in ld.calls() if q.method_name(c) == '_load_traces']
    calls = [(f_, c) for f_ in repo.transparent_closure(ld) for c in f_.calls() if q.method_name(c) == '_load_traces']
    cm_arg = q.arg(calls[0][1], 0, fi.real_params[0] if fi.real_params else 'channel_map') if calls else None
    cm_x = calls[0][0].expand(cm_arg) if cm_arg is not None else None
    ctx.tri(cm_x is not None and Pat().m('self.channel_mapping', cm_x),
            bool(calls) and (cm_arg is None or (isinstance(cm_x, ast.Attribute) and isinstance(cm_x.value, ast.Name) and cm_x.value.id == 'self' and cm_x.attr != 'channel_mapping') or
                             isinstance(cm_x, ast.Constant)),
            'C04.A1', ld, calls[0][1] if calls else '_load_data', 'the channel map given to the traces is the loaded channel map',
            'the traces are not given self.channel_mapping (`%s`)' % (unparse(cm_arg) if cm_arg is not None else 'no argument'), 'the channel map passed to _load_traces was not recognised')
    ge = [c for c in fi.calls() if dotted(c.func) == 'get_ephys_reader']
    kw = {k.arg: unparse(k.value) for k in ge[0].keywords} if ge else {}
    n_src = fi.expand(ge[0].keywords[[k.arg for k in ge[0].keywords].index('n_channels_dat')].value) if ge and 'n_channels_dat' in kw else None
    want_kw = {'dtype': 'self.dtype', 'offset': 'self.offset', 'sample_rate': 'self.sample_rate', 'n_channels_dat': 'self.n_channels_dat'}
    got_kw = {k.arg: fi.expand(k.value) for k in ge[0].keywords if k.arg} if ge else {}
    first = fi.expand(ge[0].args[0]) if ge and ge[0].args else None
    okk = bool(ge) and all(k_ in got_kw and Pat().m(v_, got_kw[k_]) for k_, v_ in want_kw.items()) and first is not None and Pat().m('self.dat_path', first)
    # a definite difference: one of these arguments is ANOTHER attribute of the model or a constant
    wrong = [k_ for k_, v_ in want_kw.items() if k_ in got_kw and not Pat().m(v_, got_kw[k_]) and
             (isinstance(got_kw[k_], ast.Constant) or (isinstance(got_kw[k_], ast.Attribute) and isinstance(got_kw[k_].value, ast.Name) and got_kw[k_].value.id == 'self'))]
    missing = [k_ for k_ in want_kw if ge and k_ not in got_kw and not any(k.arg is None for k in ge[0].keywords) and len(ge[0].args) <= 1]
    ctx.tri(okk, bool(wrong) or bool(missing), 'C04.A1', fi, ge[0] if ge else '_load_traces', 'the raw reader gets dat_path, dtype, offset, n_channels_dat and sample_rate of the model',
            'the raw reader is built with %s' % {k_: unparse(v_) for k_, v_ in got_kw.items()}, 'arguments of get_ephys_reader not recognised')


def t2_spike_attributes(ctx):
    """Extra per-spike attribute files: every spike_<name>.npy whose <name> is not one of the reserved ones is loaded under <name>. The reserved names are
    excluded by EXACT membership: a prefix / substring test also drops attributes whose name merely begins with a reserved word (spike_timestamps.npy)."""
    repo = ctx.repo
    cls = repo.cls(M, 'TemplateModel')
    fi = repo.lookup_method(cls, '_load_spike_attributes')
    if fi is None:
        raise AnchorMissing('TemplateModel._load_spike_attributes')
    clo = repo.transparent_closure(fi)
    tests = [(f_, i_) for f_ in clo for i_ in f_.nodes(ast.If) if any(isinstance(n, ast.Name) and n.id == 'SKIP_SPIKE_ATTRS' for n in ast.walk(i_.test))]
    if not tests:
        return ctx.undecided('C04.T2', fi, 'the test that skips the reserved spike_*.npy files was not found')
    f_, i_ = tests[0]
    t_ = i_.test
    if Pat().any(['V_n in SKIP_SPIKE_ATTRS', 'V_n not in SKIP_SPIKE_ATTRS', 'E_n in SKIP_SPIKE_ATTRS', 'E_n not in SKIP_SPIKE_ATTRS'], t_):
        ctx.holds('C04.T2', f_, 'reserved spike_*.npy names are excluded by exact membership: every other attribute file is loaded', t_)
    elif any(isinstance(n, ast.Call) and q.method_name(n) in ('startswith', 'endswith', 'find', 'index', 'count') for n in ast.walk(t_)) or \
            any(isinstance(n, ast.Call) and dotted(n.func) in ('any', 're.match', 're.search') for n in ast.walk(t_)):
        ctx.violated('C04.T2', f_, t_, 'reserved names are excluded by `%s`: an attribute file whose name only begins with / contains a reserved word (spike_timestamps.npy, '
                     'spike_amplitudes_scaled.npy) is dropped from spike_attributes' % unparse(t_))
    else:
        ctx.undecided('C04.T2', f_, 'form of the reserved-name test `%s` not recognised' % unparse(t_), t_)
    tbl = repo.module(M).consts.get('SKIP_SPIKE_ATTRS')
    names = [const_value(e) for e in tbl.elts] if isinstance(tbl, (ast.Tuple, ast.List, ast.Set)) else None
    if names is None:
        ctx.undecided('C04.T2', fi, 'the table of reserved spike_*.npy names was not recognised')
    else:
        must = {'clusters', 'templates', 'times', 'amplitudes'}
        ctx.tri(must <= set(names) and all(isinstance(x, str) for x in names), bool(must - set(names)), 'C04.T2', fi, 'SKIP_SPIKE_ATTRS', 'the reserved names cover the dedicated per-spike files (%s)' % sorted(names),
                'the reserved names %s do not cover %s: a dedicated per-spike file is loaded a second time as an attribute' % (sorted(names), sorted(must - set(names))))


def d1_defaults(ctx):
    repo = ctx.repo
    ra = repo.func(M, 'read_array')
    mm = ra.params[1] if len(ra.params) > 1 else 'mmap_mode'
    ifs = [i for i in ra.nodes(ast.If) if q.simple_compare(i.test) and unparse(q.simple_compare(i.test)[0]) == mm and
           q.simple_compare(i.test)[1] == 'is' and const_value(q.simple_compare(i.test)[2]) is None]
    narrowed = None
    if not ifs:
        # `if mmap_mode is None and <dtype test>`: a further conjunct is harmless when it excludes no floating array (any floating kind, non-empty), and a
        # recognised wrong form when it keeps double precision only: single / half precision files then keep their NaN / inf
        for i in ra.nodes(ast.If):
            if isinstance(i.test, ast.BoolOp) and isinstance(i.test.op, ast.And) and any(Pat().m('%s is None' % mm, v) for v in i.test.values):
                extra = [v for v in i.test.values if not Pat().m('%s is None' % mm, v)]
                kinds = []
                for v in extra:
                    if Pat().any(['np.issubdtype(E_a.dtype, np.floating)', 'np.issubdtype(E_a.dtype, np.inexact)', 'np.issubdtype(E_a.dtype, np.number)', "E_a.dtype.kind == 'f'",
                                  "E_a.dtype.kind in 'fc'", "E_a.dtype.kind in ('f', 'c')", "E_a.dtype.kind in 'f'", 'E_a.size', 'E_a.size > 0', 'len(E_a)', 'len(E_a) > 0'], v):
                        kinds.append('wide')
                    elif Pat().any(['np.issubdtype(E_a.dtype, float)', 'np.issubdtype(E_a.dtype, np.float64)', 'np.issubdtype(E_a.dtype, np.double)', 'E_a.dtype == float',
                                    'E_a.dtype == np.float64', "E_a.dtype == 'float64'", 'E_a.dtype is np.dtype(float)', 'E_a.dtype == np.dtype(float)', 'E_a.dtype == np.double',
                                    'np.issubdtype(E_a.dtype, np.float32)', 'E_a.dtype == np.float32', 'E_a.dtype in (np.float64, float)', 'E_a.dtype in (float, np.float64)'], v):
                        kinds.append('narrow')
                        narrowed = v
                    else:
                        kinds.append(None)
                if all(k_ == 'wide' for k_ in kinds):
                    ifs = [i]
                break
    if narrowed is not None:
        ctx.violated('C04.D1', ra, narrowed, 'NaN / inf are scrubbed only when `%s`: that test keeps one floating precision only (the builtin float is float64), so fully loaded '
                     'arrays stored in another precision (float32 amplitudes, positions, whitening matrix) keep their NaN / inf' % unparse(narrowed))
    if not ifs:
        # early-exit form: `if mmap_mode is not None: return out` followed by the scrub on the rest of the body
        for k_, st_ in enumerate(ra.body()):
            if isinstance(st_, ast.If) and Pat().m('%s is not None' % mm, st_.test) and st_.body and isinstance(st_.body[-1], ast.Return) and not st_.orelse:
                rest = ast.If(test=ast.parse('%s is None' % mm, mode='eval').body, body=ra.body()[k_ + 1:], orelse=[])
                ast.copy_location(rest, st_)
                ast.fix_missing_locations(rest)
                ifs = [rest]
    ok = False
    scrubbed = set()
    nan_to_num_inf = None
    if ifs:
        body = ifs[0]
        for f in [n for n in ast.walk(body) if isinstance(n, ast.For)]:
            it = f.iter
            if isinstance(it, (ast.Tuple, ast.List)):
                scrubbed |= {const_value(e) for e in it.elts if isinstance(const_value(e), str)}
        # predicates referenced without being called on the spot (`for label, pred in (('nan', np.isnan), ('inf', np.isinf))`)
        for n_ in ast.walk(body):
            if isinstance(n_, ast.Attribute) and dotted(n_) in ('np.isnan', 'np.isinf', 'numpy.isnan', 'numpy.isinf'):
                scrubbed.add(dotted(n_).split('.is')[-1])
            if isinstance(n_, ast.Attribute) and dotted(n_) in ('np.isfinite', 'numpy.isfinite'):
                scrubbed |= {'nan', 'inf'}
        for c in [n for n in ast.walk(body) if isinstance(n, ast.Call)]:
            d = dotted(c.func) or ''
            if d in ('np.isnan', 'np.isinf'):
                scrubbed.add(d[5:])
            if d == 'np.isfinite':
                scrubbed |= {'nan', 'inf'}
            if d == 'np.nan_to_num':
                # NaN -> `nan=` (default 0.0); +-inf -> the largest / smallest finite value unless posinf= / neginf= are given
                kw = {k.arg: const_value(k.value) for k in c.keywords}
                if kw.get('nan', 0) == 0:
                    scrubbed.add('nan')
                if kw.get('posinf', None) == 0 and kw.get('neginf', None) == 0 and 'posinf' in kw and 'neginf' in kw:
                    scrubbed.add('inf')
                else:
                    nan_to_num_inf = c
        assigned0 = [a for a in ast.walk(body) if isinstance(a, ast.Assign) and isinstance(a.targets[0], ast.Subscript) and const_value(a.value) == 0]
        by_store = set()
        for a in assigned0:
            # which kinds reach the store: the loop constants / predicates in scope
            by_store |= scrubbed
        zero = bool(assigned0) or any(isinstance(c, ast.Call) and (dotted(c.func) or '') == 'np.nan_to_num' for c in ast.walk(body))
        if not assigned0:
            # without a masked store only what nan_to_num itself zeroes counts
            scrubbed = {k for k in scrubbed if k == 'nan' or nan_to_num_inf is None}
        ok = {'nan', 'inf'} <= scrubbed and zero
    scrub_calls = [c for c in ra.calls() if (dotted(c.func) or '') in ('np.nan_to_num', 'np.isnan', 'np.isinf', 'np.isfinite') or
                   (dotted(c.func) == 'getattr' and len(c.args) == 2 and dotted(c.args[0]) == 'np')] + \
                  [a_ for a_ in ra.nodes(ast.Assign) if isinstance(a_.targets[0], ast.Subscript) and const_value(a_.value) == 0]
    uncond = [c for c in scrub_calls if not any(isinstance(n, ast.Name) and n.id == mm for i_, br_ in q.enclosing_ifs(ra, c) for n in ast.walk(i_.test)) and
              not any(isinstance(st_, ast.If) and any(isinstance(n, ast.Name) and n.id == mm for n in ast.walk(st_.test)) and st_.body and isinstance(st_.body[-1], ast.Return)
                      for st_ in ra.body())]
    ctx.tri(bool(ifs), not ifs and bool(uncond), 'C04.D1', ra, ifs[0].test if ifs else (uncond[0] if uncond else 'read_array'), 'the scrub is applied iff the array is fully loaded (mmap_mode is None)',
            'NaN/inf scrubbing is not conditioned on `mmap_mode is None`', 'the condition under which NaN / inf are scrubbed was not recognised')
    scrubbed &= {'nan', 'inf'}
    if not ok and not scrubbed and nan_to_num_inf is None:
        ctx.undecided('C04.D1', ra, 'how NaN / inf entries of fully loaded arrays are replaced was not recognised')
    else:
      ctx.check(ok, 'C04.D1', ra, (nan_to_num_inf if nan_to_num_inf is not None and not ok else (ifs[0] if ifs else 'read_array')), 'both NaN and inf entries of fully loaded arrays are replaced by zero',
              ('np.nan_to_num without posinf=0, neginf=0 replaces +-inf by the largest / smallest finite value of the dtype, not by zero' if nan_to_num_inf is not None and 'nan' in scrubbed
               else 'fully loaded arrays are scrubbed of %s only (NaN and inf must both become 0)' % sorted(scrubbed)))
    ld = [c for c in ra.calls() if dotted(c.func) == 'np.load']
    mm_arg = q.arg(ld[0], 1, 'mmap_mode') if ld else None
    ctx.tri(mm_arg is not None and Pat().m(mm, ra.expand(mm_arg)), bool(ld) and (mm_arg is None or isinstance(ra.expand(mm_arg), ast.Constant)), 'C04.D1', ra, ld[0] if ld else 'read_array',
            'np.load is given the requested map mode', 'np.load ignores the requested mmap_mode', 'the load call of read_array was not recognised')
    cls = repo.cls(M, 'TemplateModel')
    rd = repo.lookup_method(cls, '_read_array')
    rx = [x for _, x in returned(rd)]
    oks = bool(rx) and all(any(isinstance(c, ast.Call) and (q.method_name(c) == 'squeeze' or dotted(c.func) == 'np.squeeze') for c in ast.walk(x)) for x in rx)
    plain = bool(rx) and all(isinstance(x, ast.Call) and dotted(x.func) in ('read_array', 'np.load') for x in rx)
    if oks:
        ctx.holds('C04.D1', rd, 'every array read for the model is squeezed', rx[-1])
    elif plain:
        ctx.violated('C04.D1', rd, rx[-1], 'arrays are not squeezed on load ((n,1) vectors stay 2-D)')
    else:
        ctx.undecided('C04.D1', rd, 'return of _read_array not in a recognised form')
    raises = any(isinstance(n, ast.Raise) and 'IOError' in unparse(n) for n in ast.walk(rd.node))
    clo_rd = repo.transparent_closure(rd)
    raises = raises or any(isinstance(n, ast.Raise) and any(x in unparse(n) for x in ('IOError', 'OSError', 'FileNotFoundError')) for f_ in clo_rd for n in ast.walk(f_.node))
    other_raise = [n for f_ in clo_rd for n in ast.walk(f_.node) if isinstance(n, ast.Raise) and n.exc is not None and not any(x in unparse(n) for x in ('IOError', 'OSError', 'FileNotFoundError'))]
    exists_test = any(isinstance(n, ast.Call) and q.method_name(n) in ('exists', 'is_file') for f_ in clo_rd for n in ast.walk(f_.node))
    ctx.tri(raises, not raises and (bool(other_raise) or exists_test), 'C04.D1', rd, other_raise[0] if other_raise and not raises else '_read_array',
            'a missing optional file surfaces as IOError (caught by the loaders that have a default)',
            '_read_array does not raise IOError for a missing file: the default branches of the loaders are dead', 'how _read_array reports a missing file was not recognised')

    def default_of(lname):
        fi = repo.lookup_method(cls, lname)
        out = []
        for t in fi.nodes(ast.Try):
            for h in t.handlers:
                if h.type is not None and any(x in unparse(h.type) for x in ('IOError', 'OSError', 'FileNotFoundError')):
                    for s_ in h.body:
                        if isinstance(s_, ast.Return):
                            out.append((fi, s_))
        # the same default one level up: a helper (extracted after the pinned tree) answers None for the missing file, and the loader returns the default on `x is None`
        clo_ = [h_ for h_ in repo.transparent_closure(fi) if h_ is not fi]
        none_helpers = []
        for h_ in clo_:
            for t in h_.nodes(ast.Try):
                for h in t.handlers:
                    if h.type is not None and any(x in unparse(h.type) for x in ('IOError', 'OSError', 'FileNotFoundError')) and \
                            any(isinstance(s_, ast.Return) and (s_.value is None or (isinstance(s_.value, ast.Constant) and s_.value.value is None)) for s_ in h.body):
                        none_helpers.append(h_)
        if none_helpers and not out:
            for i in fi.nodes(ast.If):
                b = Pat(fi).m('V_x is None', i.test)
                if b is None:
                    continue
                nm = [n for n in ast.walk(i.test) if isinstance(n, ast.Name)]
                d_ = (fi.reaching_def(nm[0]) or fi.unique_def(nm[0].id)) if nm else None
                if isinstance(d_, ast.Call):
                    try:
                        tg = repo.resolve_call(fi, d_, virtual=False)
                    except Exception:
                        tg = []
                    if any(t_.node is h_.node for t_ in tg for h_ in none_helpers):
                        out.extend((fi, s_) for s_ in i.body if isinstance(s_, ast.Return))
        return fi, out

    def ret_text(fi, r_):
        if r_.value is None:
            return 'None'
        v = r_.value
        if isinstance(v, ast.Name):
            # a temporary assigned in the same handler body
            for st_ in ast.walk(fi.node):
                if isinstance(st_, ast.Assign) and isinstance(st_.targets[0], ast.Name) and st_.targets[0].id == v.id and st_.lineno <= r_.lineno:
                    cand = st_.value
            try:
                v = cand
            except NameError:
                pass
        return unparse(v).replace(' ', '')
    exp = {'_load_channel_probes': ('np.zeros(self.n_channels,dtype=np.int32)', 'zero probe index per channel'),
           '_load_channel_shanks': ('np.zeros(self.n_channels,dtype=np.int32)', 'zero shank index per channel'),
           '_load_similar_templates': ('np.zeros((self.n_templates,self.n_templates))', 'zero similarity matrix (n_templates x n_templates)'),
           '_load_amplitudes': ('None', 'amplitudes None')}
    for lname, (want, what) in exp.items():
        fi, outs = default_of(lname)
        got = [ret_text(fi, r_) for _, r_ in outs]
        alt = want.replace(',dtype=np.int32', ',dtype=int')
        good = bool(got) and all(g in (want, alt) or (want.startswith('np.zeros(self.n_channels') and g.startswith('np.zeros(self.n_channels')) for g in got)
        recognisable = bool(got) and all(g == 'None' or g.startswith(('np.zeros(', 'np.ones(', 'np.full(', 'np.arange(', 'np.empty(', 'np.eye(')) or g.lstrip('-').isdigit() for g in got)
        if good:
            ctx.holds('C04.D1', fi, 'absent file -> %s' % what, outs[0][1])
        elif recognisable:
            ctx.violated('C04.D1', fi, outs[0][1], '%s: default for an absent file is `%s`, expected %s' % (lname, got, what))
        else:
            ctx.undecided('C04.D1', fi, '%s: default for an absent file (%s) not in a recognised form' % (lname, got))
    ld_ = repo.lookup_method(cls, '_load_data')
    wm_def = None
    for t in ld_.nodes(ast.Try):
        if any(isinstance(c, ast.Call) and q.method_name(c) == '_load_wm' for s_ in t.body for c in ast.walk(s_)):
            for h in t.handlers:
                for s_ in h.body:
                    if isinstance(s_, ast.Assign) and unparse(s_.targets[0]) == 'self.wm':
                        wm_def = s_
    if wm_def is None:
        ctx.undecided('C04.D1', ld_, 'default of the whitening matrix (handler around _load_wm) not recognised')
    else:
        wx = ld_.expand(wm_def.value)
        good = Pat().any(['np.eye(self.n_channels)', 'np.identity(self.n_channels)', 'np.eye(self.n_channels, REST)', 'np.eye(len(self.channel_mapping))', 'np.eye(self.channel_mapping.shape[0])',
                          'np.eye(self.channel_positions.shape[0])'], wx)
        bad = not good and isinstance(wx, ast.Call) and dotted(wx.func) in ('np.zeros', 'np.ones', 'np.eye', 'np.identity', 'np.full', 'np.empty')
        if good:
            ctx.holds('C04.D1', ld_, 'absent whitening matrix -> identity of size n_channels', wm_def)
        elif bad:
            ctx.violated('C04.D1', ld_, wm_def, 'default whitening matrix is `%s`, expected the identity of size n_channels' % unparse(wx))
        else:
            ctx.undecided('C04.D1', ld_, 'default whitening matrix `%s` not in a recognised form' % unparse(wx), wm_def)
    # inverse: computed from wm with a matrix inverse
    cw = repo.lookup_method(cls, '_compute_wmi')
    inv = [c for c in cw.calls() if (dotted(c.func) or '').endswith('linalg.inv') or (dotted(c.func) or '').endswith('linalg.pinv')]
    rets_cw = [x for _, x in returned(cw)]
    plain = [x for x in rets_cw if Pat().any([cw.params[1], '%s.T' % cw.params[1], '%s.copy()' % cw.params[1], 'np.transpose(%s)' % cw.params[1]], x)]
    ctx.tri(bool(inv) and bool(inv[0].args) and Pat().m(cw.params[1], cw.expand(inv[0].args[0])),
            (bool(inv) and bool(inv[0].args) and isinstance(cw.expand(inv[0].args[0]), (ast.Name, ast.Attribute)) and not Pat().m(cw.params[1], cw.expand(inv[0].args[0]))) or (not inv and bool(plain)),
            'C04.D1', cw, inv[0] if inv else (plain[0] if plain else '_compute_wmi'),
            'the inverse whitening matrix is the matrix inverse of the whitening matrix', 'the inverse whitening matrix is not np.linalg.inv(wm)', 'computation of the inverse whitening matrix not recognised')


def d1_blank_templates(ctx):
    """Template waveforms equal the file, except templates that are NaN EVERYWHERE (unused templates), which are zeroed: the mask of the zeroed templates must be
    `all samples and all channels are NaN`, taken on the whole waveform array."""
    repo = ctx.repo
    cls = repo.cls(M, 'TemplateModel')
    fi = repo.lookup_method(cls, '_load_templates')
    if fi is None:
        raise AnchorMissing('TemplateModel._load_templates')
    stores = []
    for a in fi.nodes(ast.Assign):
        t = a.targets[0]
        if isinstance(t, ast.Subscript) and isinstance(t.value, ast.Name) and const_value(a.value) in (0, 0.0) and not isinstance(const_value(a.value), bool):
            ix = t.slice.elts[0] if isinstance(t.slice, ast.Tuple) else t.slice
            if isinstance(ix, ast.Slice) or const_value(ix) is not None:
                continue
            stores.append((a, t.value.id, ix))
    if not stores:
        ctx.undecided('C04.D1', fi, 'no store zeroing the unused (all-NaN) templates found in _load_templates')
        return
    for a, arr, ix in stores:
        m = fi.expand(ix)
        D = arr
        good = Pat().any(['np.all(np.all(np.isnan(%s), axis=1), axis=1)' % D, 'np.all(np.isnan(%s), axis=(1, 2))' % D, 'np.isnan(%s).all(axis=(1, 2))' % D,
                          'np.isnan(%s).all(axis=1).all(axis=1)' % D, 'np.isnan(%s).all(axis=2).all(axis=1)' % D, 'np.all(np.all(np.isnan(%s), axis=2), axis=1)' % D,
                          'np.isnan(%s).reshape(ANY, -1).all(axis=1)' % D, 'np.all(np.isnan(%s).reshape(ANY, -1), axis=1)' % D,
                          'np.all(np.isnan(%s), axis=(2, 1))' % D, '~np.any(np.any(~np.isnan(%s), axis=1), axis=1)' % D], m)
        calls = [c for c in ast.walk(m) if isinstance(c, ast.Call)]
        nan_args = [c.args[0] for c in calls if dotted(c.func) in ('np.isnan', 'numpy.isnan') and c.args]
        partial = any(isinstance(x, ast.Subscript) for x in nan_args)          # isnan of a slice of the waveforms: only part of each template is looked at
        any_red = any((dotted(c.func) in ('np.any',) or q.method_name(c) == 'any') for c in calls) and not any(isinstance(n_, ast.Invert) for n_ in ast.walk(m))
        n_red = sum(1 for c in calls if dotted(c.func) in ('np.all', 'np.any') or q.method_name(c) in ('all', 'any'))
        one_axis = bool(nan_args) and not partial and n_red == 1 and not any(isinstance(k.value, ast.Tuple) for c in calls for k in c.keywords if k.arg == 'axis') and \
            not any(q.method_name(c) == 'reshape' for c in calls)
        other_pred = not nan_args and any(dotted(c.func) in ('np.isinf', 'np.isfinite') or (isinstance(n_, ast.Compare)) for c in calls for n_ in [c]) and bool(calls)
        ctx.tri(bool(good), (not good) and (partial or any_red or one_axis or other_pred), 'C04.D1', fi, a,
                'only templates that are NaN on every sample and channel are zeroed; all other template waveforms are the file contents',
                'templates are zeroed on the mask `%s`, which is not "NaN on every sample and every channel": a template with valid values is wiped and no longer equals the file' % unparse(m)[:90],
                'the mask of the zeroed templates (`%s`) was not recognised' % unparse(m)[:90])


def p1_monotonic(ctx, f, effs):
    repo = ctx.repo
    cls = repo.cls(M, 'TemplateModel')
    ld = repo.lookup_method(cls, '_load_data')
    guard = None
    for i in ld.nodes(ast.If):
        if any(isinstance(s_, ast.Raise) for s_ in i.body) and 'np.diff(' in unparse(i.test) and ('spike_times' in unparse(i.test) or 'spike_samples' in unparse(i.test)):
            guard = i
    if guard is None:
        ctx.violated('C04.P1', ld, '_load_data', 'no test rejects non-monotonic spike times (np.diff(spike times) >= 0 ... raise)')
        return
    t = unparse(guard.test).replace(' ', '')
    good = ('notnp.all(np.diff(self.spike_times)>=0)', 'np.any(np.diff(self.spike_times)<0)', '(np.diff(self.spike_times)<0).any()',
            'notnp.all(np.diff(self.spike_samples.astype(np.int64))>=0)', 'np.any(np.diff(self.spike_samples.astype(np.int64))<0)')
    if t in good:
        ctx.holds('C04.P1', ld, 'decreasing spike times are rejected (equal times allowed)', guard.test)
    elif 'np.diff(self.spike_samples)' in t:
        ctx.violated('C04.P1', ld, guard.test, 'the monotonicity test `%s` takes differences of the spike SAMPLES as stored: for unsigned sample dtypes (uint64 is what KiloSort writes) a '
                     'backward step wraps to a huge positive number and non-monotonic datasets are accepted' % unparse(guard.test))
    elif '>0' in t.replace('>=0', '') and 'np.all' in t:
        ctx.violated('C04.P1', ld, guard.test, 'the monotonicity test `%s` also rejects equal consecutive spike times' % unparse(guard.test))
    else:
        ctx.undecided('C04.P1', ld, 'monotonicity test `%s` not recognised' % unparse(guard.test), guard.test)
    first_eff = None
    for e in effs:
        top = e.stack[1][1] if len(e.stack) > 1 and e.stack[1][0].node is ld.node else (e.node if e.fi.node is ld.node else None)
        for fr, node, g in e.stack:
            if fr is not None and fr.node is ld.node:
                top = node
        if top is not None and (first_eff is None or top.lineno < first_eff.lineno):
            first_eff = top
    ok = first_eff is None or guard.lineno < first_eff.lineno
    ctx.check(ok, 'C04.P1', ld, guard, 'the monotonicity test precedes every statement of _load_data that can write a file',
              'a file can be written (line %d) before non-monotonic spike times are rejected (line %d)' % (first_eff.lineno if first_eff is not None else 0, guard.lineno))


def run(ctx):
    f, effs = f1_effects(ctx)
    t1_t2_names(ctx)
    ctx.part('C04.T2', t2_spike_attributes)
    u1_units(ctx)
    a1_traces(ctx)
    d1_defaults(ctx)
    ctx.part('C04.D1', d1_blank_templates)
    p1_monotonic(ctx, f, effs)


LEVEL_TEXT = ('Static effect analysis of the whole call tree of load_model (every reachable write/delete/in-place store on a writable memory map, '
              'with call chain and guards) against the whitelist {spike_clusters.npy copy, whitening_mat_inv.npy}, both only-when-absent; plus '
              'loader name tables vs the dataset schema, belief-contradiction rule on fallback lookups, unit conversions of spike times, channel-map '
              'selection of the traces, scrub/squeeze/default rules, and precedence of the monotonicity test over any write.')
LEVEL_NOTE = ('Trusted: effect primitive catalogue, over-approximate call resolution (all reader constructors for the dynamic dispatch), dataset schema '
              'table. Not decided: equality of loaded values with file contents, dtype assertions, exec of params.py.')
TECHNIQUE = 'static analysis: interprocedural effect / path-provenance analysis plus table agreement on the ast'
