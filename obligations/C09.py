"""C09 - amplitude, depth, duration and peak-channel summaries follow their definitions.

Decided (shape engine: spaces + dimensions + provenance tags)
  A0  no index-space / extent / dimension conflict in get_amplitudes_true (both `use` modes), _amplitudes, _channels,
      _waveform_durations, get_depths
  U1  get_amplitudes_true: spike amplitudes = (max over channels of the peak-to-peak over samples of the UNWHITENED waveform of
      the spike's own template/cluster) x stored amplitude x unit factor, on the spike axis; per-id mean = sum / count over the
      FULL id table (a mean, not a sum; defined for every id, the highest included); rescaled waveforms carry the same dimension
      on (ids, samples, channels)
  U2  _amplitudes: mean (not sum) of the stored amplitudes per present id; _channels: arg-max over channels of the peak-to-peak over
      samples -> channel index per waveform; templates_probes = channel_probes[peak channel]; templates_* / clusters_* siblings
      differ only in the table they read
  U3  _waveform_durations: (arg-max - arg-min over samples) at the peak channel, / sample_rate x 1e3 -> milliseconds
  U4  get_depths: sum(y x f^2) / sum(f^2) over the stored slots with f the first principal component, y the y-coordinate of the
      slot's channel for the spike's template -> micrometres per spike
  +   U1-U4 also: no result is memoised (early return from storage that outlives the call) under a key that ignores one of the arguments
  +   U1: no display option (template_scaling, tagged `display-scale`) enters the amplitudes in physical units
  +   U1: the waveforms are unwhitened with the FULL inverse whitening matrix (a product with `wmi[np.ix_(c, c)]` is tagged `subblock` and refused)
Not decided: numeric equality, NaN propagation, the clipping of negative feature values.
"""
import ast

from vlib import q
from vlib.pat import Pat, returned
from vlib.front import unparse, dotted, const_value, AnchorMissing
from vlib.shape import Shape, Space, Ix, Q, D, BoolT, StrT, NoneT, SizeOf, UNK, is_unk, Arr, Rec, Tup, B
from obligations.shape_tables import (model_attrs, M, Tmpl, Clu, Chan, Samp, Loc, Spike, Probe, AMP, AMPWH, UM, KA, F, RATE)

FLOOR = 15          # decided obligations below this = the analysis lost its footing (exit 2); clean tree: 44
RULES = ('C09.A0', 'C09.U1', 'C09.U2', 'C09.U3', 'C09.U4')          # every obligation group must report (holds / violated / undecided): a group that vanishes silently is an analysis error
EXPLANATION = ('shape engine over the summary methods of TemplateModel: every array is typed by index space per axis, physical dimension '
               '(sorter amplitude, whitening, counts, seconds, samples, micrometres, unit factor, kilo) and provenance tags (ptp/max/argmax over '
               'which axis, coordinate component); results are compared with the dimension and provenance the definitions imply')
TRUSTED = ['python ast', 'NumPy transfer rules of vlib/shape.py', 'attribute signatures of obligations/shape_tables.py']
ASSUMPTIONS = ['dense templates', 'amplitudes present']
AKF = Q(D(amp=1, ka=1, F=1))


def flush_reports(ctx, S, label, rule):
    n = 0
    for r in S.reports:
        n += 1
        ctx.violated(rule, r.fi, r.node, '[%s] %s' % (label, r.msg))
    return n


def batch_coverage(ctx, rule, gd, clo, reads):
    """The depths are computed batch by batch: the batches must cover every spike, the trailing partial batch included. Good forms: the `while True` loop that advances the
    start by the batch size and leaves when it reaches the number of spikes, `while start < n`, a `range(0, n, batch)` of starts, a ceiling count of batches. Recognised
    wrong form: a number of batches obtained by floor division / truncation of n / batch (the last n % batch spikes keep their initial NaN)."""
    loops = []
    for f_, n in reads:
        for a in f_.ancestors(n):
            if isinstance(a, (ast.For, ast.While)):
                loops.append((f_, a))
                break
    if not loops:
        if reads:
            ctx.holds(rule, gd, 'the feature table is read in one piece (no batch loop to cover)', reads[0][1])
        return
    f_, lp = loops[0]
    good = bad = False
    why = ''
    if isinstance(lp, ast.While):
        if const_value(lp.test) is True:
            brk = [i for i in ast.walk(lp) if isinstance(i, ast.If) and any(isinstance(b, ast.Break) for b in i.body)]
            adv = [x for x in ast.walk(lp) if isinstance(x, ast.AugAssign) and isinstance(x.op, ast.Add) and isinstance(x.target, ast.Name)]
            for i in brk:
                c = q.simple_compare(i.test)
                if c and c[1] in ('>=', '>') and isinstance(c[0], ast.Name) and any(x.target.id == c[0].id for x in adv):
                    good = True
                if c and c[1] in ('<=', '<') and isinstance(c[2], ast.Name) and any(x.target.id == c[2].id for x in adv):
                    good = True
        else:
            c = q.simple_compare(lp.test)
            adv = [x for x in ast.walk(lp) if isinstance(x, ast.AugAssign) and isinstance(x.op, ast.Add) and isinstance(x.target, ast.Name)]
            if c and c[1] == '<' and isinstance(c[0], ast.Name) and any(x.target.id == c[0].id for x in adv):
                good = True
    else:
        it = f_.expand(lp.iter)
        floor = [b for b in ast.walk(it) if (isinstance(b, ast.BinOp) and isinstance(b.op, ast.FloorDiv)) or
                 (isinstance(b, ast.Call) and (dotted(b.func) or '') in ('int', 'round', 'np.floor', 'math.floor') and b.args and isinstance(b.args[0], ast.BinOp) and isinstance(b.args[0].op, ast.Div))]
        ceilf = [b for b in ast.walk(it) if isinstance(b, ast.Call) and (dotted(b.func) or '').split('.')[-1] == 'ceil']
        # (n + b - 1) // b is the ceiling written with a floor division
        ceil_idiom = [b for b in floor if isinstance(b, ast.BinOp) and Pat().any(['(E_n + E_b - 1) // E_b', '(E_n - 1 + E_b) // E_b', '(E_n - 1) // E_b + 1', '-(-E_n // E_b)'], b)]
        if Pat().any(['range(0, E_n, E_b)', 'np.arange(0, E_n, E_b)', 'range(E_a, E_n, E_b)'], it) or ceilf or (floor and len(ceil_idiom) == len(floor)) or \
                any(Pat().any(['(E_n - 1) // E_b + 1', 'E_n // E_b + 1', 'int(E_n / E_b) + 1'], x) for x in ast.walk(it)):
            good = True
        elif floor:
            bad = True
            why = unparse(floor[0])
    ctx.tri(good, bad, rule, f_, lp.iter if isinstance(lp, ast.For) else lp.test,
            'the batches of get_depths cover every spike (the trailing partial batch included)',
            'the number of batches is `%s`, rounded down: the last (number of spikes modulo batch size) spikes are in no batch and keep their initial NaN depth' % why,
            'the batch loop of get_depths was not recognised')


def run(ctx):
    repo = ctx.repo
    cls = repo.cls(M, 'TemplateModel')

    def meth(n):
        m = repo.lookup_method(cls, n)
        if m is None:
            raise AnchorMissing('TemplateModel.%s' % n)
        return m
    nrep = 0
    # ---------------------------------------------------------------- U1
    gat = meth('get_amplitudes_true')
    # the summaries are functions of their arguments AND of the current assignments: a result memoised under a key that ignores an argument answers a later call
    # (another unit factor, another table) with the first call's values
    for rule, names in (('C09.U1', ('get_amplitudes_true',)), ('C09.U2', ('_amplitudes', '_channels')), ('C09.U3', ('_waveform_durations',)), ('C09.U4', ('get_depths',))):
        stale = []
        n_f = 0
        for nm in names:
            for f_ in repo.transparent_closure(meth(nm)):
                n_f += 1
                for cache, key, ret, missing in q.memo_sites(f_):
                    if missing:
                        stale.append((f_, ret, cache, key, missing))
        if stale:
            f_, ret, cache, key, missing = stale[0]
            ctx.violated(rule, f_, ret, '%s returns a result memoised in `%s` under the key `%s`, which ignores the argument(s) %s: a second call that differs only there gets the values of the first call' %
                         (f_.name, cache, unparse(key), ', '.join(missing)))
        else:
            ctx.holds(rule, meth(names[0]), 'no result of %s is memoised under a key that ignores one of its arguments (%d functions)' % (' / '.join(names), n_f), 'memoisation')
    for use, W in (('templates', Tmpl), ('clusters', Clu)):
        S = Shape(repo, selfattrs=model_attrs(), inline_depth=3)
        res = S.result(gat, {'self': UNK, 'sample2unit': F, 'use': StrT(use)})
        nrep += flush_reports(ctx, S, 'use=%s' % use, 'C09.A0')
        if not (isinstance(res, Tup) and len(res.items) == 3):
            ctx.undecided('C09.U1', gat, 'use=%s: result %s is not a 3-tuple' % (use, res))
            continue
        sa, tv, ta = res.items
        lab = 'use=%s' % use
        ok = isinstance(sa, Arr) and sa.axes == (Spike,)
        ctx.check(ok, 'C09.U1', gat, lab + ' spike amplitudes axis', '%s: one scaled amplitude per spike' % lab, '%s: spike amplitudes are over %s' % (lab, getattr(sa, 'axes', sa)))
        if isinstance(sa, Arr) and isinstance(sa.elem, Q):
            ctx.check(sa.elem.dim == AKF.dim, 'C09.U1', gat, lab + ' spike amplitudes dimension', '%s: spike amplitude = unwhitened template amplitude x stored amplitude x unit factor (%s)' % (lab, sa.elem),
                      '%s: spike amplitudes have dimension %s, expected amp*ka*F (unwhitened waveform x stored amplitude x unit factor)' % (lab, sa.elem), value=getattr(sa, 'elem', sa))
            disp = [nm_ for nm_, x_ in (('spike amplitudes', sa), ('rescaled waveforms', tv), ('template amplitudes', ta)) if isinstance(x_, Arr) and isinstance(x_.elem, Q) and 'display-scale' in x_.elem.tags]
            if disp:
                ctx.violated('C09.U1', gat, lab + ' display scaling', '%s: the %s carry the display option template_scaling (the unwhitening goes through a helper that multiplies by it): the values '
                             'in physical units are off by that factor whenever the option is set' % (lab, ', '.join(disp)))
            else:
                ctx.holds('C09.U1', gat, '%s: no display option (template_scaling) enters the amplitudes in physical units' % lab, lab + ' display scaling')
            subb = [nm_ for nm_, x_ in (('spike amplitudes', sa), ('rescaled waveforms', tv), ('template amplitudes', ta)) if isinstance(x_, Arr) and isinstance(x_.elem, Q) and 'subblock' in x_.elem.tags]
            if subb:
                ctx.violated('C09.U1', gat, lab + ' unwhitening', '%s: the %s are computed from waveforms unwhitened with a SUB-BLOCK of the inverse whitening matrix (`wmi[np.ix_(c, c)]`): the '
                             'contribution of the channels left out is dropped, the unwhitened waveform (and its largest peak-to-peak channel) is not that of the template' % (lab, ', '.join(subb)))
            ctx.check({'ptp:Samp', 'max:Chan'} <= set(sa.elem.tags), 'C09.U1', gat, lab + ' spike amplitudes provenance',
                      '%s: the template amplitude is the largest channel peak-to-peak (max over channels of max-min over samples)' % lab,
                      '%s: the template amplitude is %s, expected the max over channels of the peak-to-peak over samples' % (lab, sorted(sa.elem.tags)), value=getattr(sa, 'elem', sa))
            ctx.check('gather:%s' % W in sa.elem.tags, 'C09.U1', gat, lab + ' spike amplitudes lookup', "%s: every spike takes the amplitude of its OWN %s (table lookup by the spike's id)" % (lab, W),
                      '%s: the template amplitude is not looked up per spike in the table over %s (%s)' % (lab, W, sorted(t for t in sa.elem.tags if t.startswith('gather'))), value=getattr(sa, 'elem', sa))
        else:
            ctx.undecided('C09.U1', gat, '%s: spike amplitudes %s' % (lab, sa))
        ok = isinstance(ta, Arr) and ta.axes == (W,)
        ctx.check(ok, 'C09.U1', gat, lab + ' per-id amplitudes axis', '%s: one mean amplitude per id of the full table (%s)' % (lab, W),
                  '%s: per-id amplitudes are over %s, expected the full id table %s (ids without spikes, the highest included, must be NaN entries)' % (lab, getattr(ta, 'axes', ta), W))
        if isinstance(ta, Arr) and isinstance(ta.elem, Q):
            ctx.check(ta.elem.dim == AKF.dim, 'C09.U1', gat, lab + ' per-id amplitudes dimension', '%s: per-id amplitude is a MEAN of spike amplitudes (sum / count)' % lab,
                      '%s: per-id amplitudes have dimension %s, expected amp*ka*F - %s' % (lab, ta.elem, 'a sum over spikes is not a mean' if ta.elem.d().get('cnt') else 'wrong scaling'), value=getattr(ta, 'elem', ta))
        ok = isinstance(tv, Arr) and tv.axes == (W, Samp, Chan)
        ctx.check(ok, 'C09.U1', gat, lab + ' rescaled waveforms axes', '%s: rescaled waveforms on (ids, samples, channels)' % lab, '%s: rescaled waveforms are over %s' % (lab, getattr(tv, 'axes', tv)))
        if isinstance(tv, Arr) and isinstance(tv.elem, Q):
            ctx.check(tv.elem.dim == AKF.dim, 'C09.U1', gat, lab + ' rescaled waveforms dimension', '%s: rescaled waveforms = unwhitened waveform x (mean amplitude / template amplitude) x unit factor' % lab,
                      '%s: rescaled waveforms have dimension %s, expected amp*ka*F' % (lab, tv.elem), value=getattr(tv, 'elem', tv))
    # table selection by `use`
    sel = {}
    usep = [p_ for p_ in gat.params if p_ == 'use'] or gat.params[-1:]
    for ifn in gat.nodes(ast.If):
        for which, other in (('clusters', 'templates'), ('templates', 'clusters')):
            if Pat().m("%s == '%s'" % (usep[0], which), ifn.test):
                for br, nm in ((ifn.body, which), (ifn.orelse, other)):
                    got = {unparse(a.targets[0]): unparse(a.value) for a in br if isinstance(a, ast.Assign)}
                    if got:
                        sel.setdefault(nm, {}).update(got)
            elif Pat().m("%s != '%s'" % (usep[0], which), ifn.test):
                for br, nm in ((ifn.orelse, which), (ifn.body, other)):
                    got = {unparse(a.targets[0]): unparse(a.value) for a in br if isinstance(a, ast.Assign)}
                    if got:
                        sel.setdefault(nm, {}).update(got)
    want = {'clusters': ['self.n_clusters', 'self.sparse_clusters', 'self.spike_clusters'], 'templates': ['self.n_templates', 'self.sparse_templates', 'self.spike_templates']}
    okt = all(sorted(sel.get(k, {}).values()) == v for k, v in want.items())
    mixed = any(any(('clusters' if k == 'templates' else 'templates') in x for x in sel.get(k, {}).values()) for k in want)
    if okt:
        ctx.holds('C09.U1', gat, "use='clusters' reads the cluster waveforms / assignments / count, otherwise the template ones", 'table selection')
    elif mixed:
        ctx.violated('C09.U1', gat, 'table selection', 'the waveform table, assignment vector and id count are not selected consistently by `use` (%s)' % sel)
    else:
        ctx.undecided('C09.U1', gat, 'selection of the tables by `use` not recognised (%s)' % sel)
    # ---------------------------------------------------------------- U2
    am = meth('_amplitudes')
    for tab, W in (('spike_templates', Tmpl), ('spike_clusters', Clu)):
        S = Shape(repo, selfattrs=model_attrs(), inline_depth=2)
        res = S.result(am, {'self': UNK, 'tmp': model_attrs()[tab]})
        nrep += flush_reports(ctx, S, '_amplitudes(%s)' % tab, 'C09.A0')
        ok = isinstance(res, Arr) and len(res.axes) == 1 and res.axes[0].kind == 'Present' and isinstance(res.elem, Q)
        if ok:
            ctx.check(res.elem.dim == KA.dim, 'C09.U2', am, '_amplitudes(%s)' % tab, 'mean stored amplitude per present id (sum / count)',
                      '_amplitudes: result has dimension %s, expected that of an amplitude (a sum over spikes carries a count factor)' % res.elem, value=getattr(res, 'elem', res))
        else:
            ctx.undecided('C09.U2', am, '_amplitudes(%s) -> %s' % (tab, res))
    for pname, tab in (('templates_amplitudes', 'self.spike_templates'), ('clusters_amplitudes', 'self.spike_clusters')):
        p = repo.lookup_prop(cls, pname)
        rv = [x for _, x in returned(p['get'])] if p and 'get' in p else []
        other = 'self.spike_clusters' if tab == 'self.spike_templates' else 'self.spike_templates'
        g = bool(rv) and Pat().m('self._amplitudes(%s)' % tab, rv[-1])
        b_ = bool(rv) and not g and (Pat().m('self._amplitudes(%s)' % other, rv[-1]) or Pat().m('self._amplitudes(ANY)', rv[-1]))
        if g:
            ctx.holds('C09.U2', p['get'], '%s averages over %s' % (pname, tab), rv[-1])
        elif b_:
            ctx.violated('C09.U2', p['get'], rv[-1], '%s averages over `%s`, not over %s' % (pname, unparse(rv[-1]), tab))
        else:
            ctx.undecided('C09.U2', p['get'] if p else cls, '%s: averaged table not recognised' % pname)
    ch = meth('_channels')
    for tab, W in (('sparse_templates', Tmpl), ('sparse_clusters', Clu)):
        S = Shape(repo, selfattrs=model_attrs(), inline_depth=2)
        res = S.result(ch, {'self': UNK, 'sparse': model_attrs()[tab]})
        nrep += flush_reports(ctx, S, '_channels(%s)' % tab, 'C09.A0')
        ok = isinstance(res, Arr) and res.axes == (W,) and isinstance(res.elem, Ix) and res.elem.space is Chan
        ctx.check(ok, 'C09.U2', ch, '_channels(%s)' % tab, 'one channel index per waveform of %s' % tab, '_channels(%s) returns %s, expected one channel index per waveform' % (tab, res))
        if ok:
            tag = getattr(res.elem, 'tag', None)
            okt = tag is not None and tag[0] == 'argmax' and isinstance(tag[2], Q) and 'ptp:Samp' in tag[2].tags
            ctx.check(okt, 'C09.U2', ch, '_channels(%s) provenance' % tab, 'peak channel = arg-max over channels of the peak-to-peak over samples',
                      'peak channel is the %s of %s' % (tag[0] if tag else '?', tag[2] if tag else '?'))
    for pname, tab in (('templates_channels', 'self.sparse_templates'), ('clusters_channels', 'self.sparse_clusters')):
        p = repo.lookup_prop(cls, pname)
        g = p['get'] if p and 'get' in p else None
        r = [x for x in g.returns() if x.value is not None] if g else []
        val = g.expand(r[-1].value) if r else None
        Pv = Pat()
        ctx.tri(val is not None and Pv.m('self._channels(%s)' % tab, val), val is not None and Pv.m('self._channels(E_t)', val) and not Pv.m('self._channels(%s)' % tab, val),
                'C09.U2', g or cls, r[-1] if r else pname, '%s reads %s' % (pname, tab), '%s does not read %s (`%s`)' % (pname, tab, unparse(val) if val is not None else ''),
                '%s: the table it reads was not recognised' % pname)
    p = repo.lookup_prop(cls, 'templates_probes')
    S = Shape(repo, selfattrs=model_attrs(), inline_depth=3)
    res = S.result(p['get'], {'self': UNK}) if p and 'get' in p else UNK
    nrep += flush_reports(ctx, S, 'templates_probes', 'C09.A0')
    ctx.check(isinstance(res, Arr) and res.axes == (Tmpl,) and isinstance(res.elem, Ix) and res.elem.space is Probe, 'C09.U2', p['get'] if p else cls, 'templates_probes',
              'templates_probes = probe of the peak channel of every template', 'templates_probes is %s, expected one probe index per template' % res, value=res)
    # ---------------------------------------------------------------- U3
    wd = meth('_waveform_durations')
    S = Shape(repo, selfattrs=model_attrs(), inline_depth=2)
    res = S.result(wd, {'self': UNK, 'tmp': Arr((Tmpl, Samp, Chan), AMPWH)})
    nrep += flush_reports(ctx, S, '_waveform_durations', 'C09.A0')
    if isinstance(res, Arr) and isinstance(res.elem, Q):
        ctx.check(len(res.axes) == 1, 'C09.U3', wd, 'durations axis', 'one duration per waveform', 'durations are over %s' % (res.axes,), value=res)
        ctx.check(res.elem.d() == {'s': 1, 'kilo': 1}, 'C09.U3', wd, 'durations unit', 'durations = samples / (samples/s) x 1e3 = milliseconds',
                  'durations have unit %s, expected seconds x 1e3 (ms): check the division by the sampling rate and the factor 1e3' % res.elem, value=getattr(res, 'elem', res))
        ctx.check('p2t' in res.elem.tags or any(t.startswith('p2t') for t in res.elem.tags), 'C09.U3', wd, 'durations provenance', 'duration = arg-max minus arg-min over samples (peak to trough)',
                  'the duration is not (arg-max - arg-min) over the sample axis of the same waveform (%s)' % sorted(res.elem.tags), value=getattr(res, 'elem', res))
    else:
        ctx.undecided('C09.U3', wd, '_waveform_durations -> %s' % res)
    pk = [a for a in wd.nodes(ast.Assign) if isinstance(a.value, ast.Call) and (dotted(a.value.func) or '').endswith('argmax') and 'axis=1' in unparse(a.value) and '.max(axis=1)' in unparse(a.value)]
    amax = [c for f_ in repo.transparent_closure(wd) for c in f_.calls() if ((dotted(c.func) or '').endswith('argmax') or q.method_name(c) == 'argmax') and
            (const_value(q.kwarg(c, 'axis')) == 1 or (len(c.args) > 1 and const_value(c.args[-1]) == 1))]
    amin_only = [c for c in wd.calls() if ((dotted(c.func) or '').endswith('argmin') or q.method_name(c) == 'argmin') and const_value(q.kwarg(c, 'axis')) == 1 and
                 any(isinstance(n, ast.BinOp) and isinstance(n.op, ast.Sub) for n in ast.walk(c))]
    if pk:
        ctx.holds('C09.U3', wd, 'the duration is read at the peak channel (arg-max of the peak-to-peak)', pk[0])
    elif amin_only or not amax:
        ctx.violated('C09.U3', wd, (amin_only or ['_waveform_durations'])[0], 'the duration is not read at the peak channel (no arg-max over channels of the peak-to-peak amplitude)')
    else:
        ctx.undecided('C09.U3', wd, 'selection of the peak channel in _waveform_durations not in a recognised form', amax[0])
    for pname, tab in (('templates_waveforms_durations', 'self.sparse_templates.data'), ('clusters_waveforms_durations', 'self.sparse_clusters.data')):
        p = repo.lookup_prop(cls, pname)
        g = p['get'] if p and 'get' in p else None
        r = [x for x in g.returns() if x.value is not None] if g else []
        val = g.expand(r[-1].value) if r else None
        Pv = Pat()
        ctx.tri(val is not None and Pv.m('self._waveform_durations(%s)' % tab, val),
                val is not None and Pv.m('self._waveform_durations(E_t)', val) and not Pv.m('self._waveform_durations(%s)' % tab, val),
                'C09.U3', g or cls, r[-1] if r else pname, '%s reads %s' % (pname, tab), '%s does not read %s (`%s`)' % (pname, tab, unparse(val) if val is not None else ''),
                '%s: the table it reads was not recognised' % pname)
    # ---------------------------------------------------------------- U4
    gd = meth('get_depths')
    S = Shape(repo, selfattrs=model_attrs(), inline_depth=2)
    rets = S.run(gd, {'self': UNK})
    nrep += flush_reports(ctx, S, 'get_depths', 'C09.A0')
    vals = [v for n, v in rets if isinstance(v, Arr)]
    if vals:
        res = vals[-1]
        ctx.check(res.axes == (Spike,), 'C09.U4', gd, 'depths axis', 'one depth per spike', 'depths are over %s' % (res.axes,), value=res)
        if isinstance(res.elem, Q) and not res.elem.poly:
            ctx.check(res.elem.d() == {'um': 1}, 'C09.U4', gd, 'depths unit', 'depth = sum(y x f^2) / sum(f^2): micrometres', 'depths have dimension %s, expected micrometres (a weighted mean of channel coordinates)' % res.elem, value=getattr(res, 'elem', res))
            ctx.check('xy:1' in res.elem.tags, 'C09.U4', gd, 'depth coordinate', 'the averaged coordinate is y (component 1 of the channel position)',
                      'the averaged coordinate is %s, not y' % sorted(t for t in res.elem.tags if t.startswith('xy')), value=getattr(res, 'elem', res))
        else:
            ctx.undecided('C09.U4', gd, 'depth element type %s' % res.elem)
    else:
        ctx.undecided('C09.U4', gd, 'get_depths returns %s' % [v for n, v in rets])
    # structural parts, over get_depths and the helpers extracted from it after the pinned tree
    clo = repo.transparent_closure(gd)
    feat = [(f_, n) for f_ in clo for n in f_.nodes(ast.Subscript) if Pat(f_).m('self.sparse_features.data', n.value, expand=True)]
    f3 = [(f_, n) for f_, n in feat if isinstance(n.slice, ast.Tuple) and len(n.slice.elts) == 3]
    if f3 and all(const_value(f_.expand(n.slice.elts[2])) == 0 for f_, n in f3):
        ctx.holds('C09.U4', gd, 'the weights use the first principal component', f3[0][1])
    elif f3 and any(const_value(f_.expand(n.slice.elts[2])) not in (0, None) or isinstance(n.slice.elts[2], ast.Slice) for f_, n in f3):
        b_ = [x for x in f3 if const_value(x[0].expand(x[1].slice.elts[2])) not in (0, None) or isinstance(x[1].slice.elts[2], ast.Slice)][0]
        ctx.violated('C09.U4', b_[0], b_[1], 'the weights do not use the first principal component (`%s`)' % unparse(b_[1]))
    elif feat and not f3 and all(isinstance(n.slice, ast.Tuple) and len(n.slice.elts) == 2 for f_, n in feat):
        ctx.violated('C09.U4', feat[0][0], feat[0][1], 'the weights do not use the first principal component (`%s` keeps every component)' % unparse(feat[0][1]))
    else:
        ctx.undecided('C09.U4', gd, 'the read of the feature table in get_depths was not recognised')
    batch_coverage(ctx, 'C09.U4', gd, clo, f3 or feat)
    pw = [(f_, n) for f_ in clo for n in ast.walk(f_.node) if (isinstance(n, ast.BinOp) and isinstance(n.op, ast.Pow)) or
          (isinstance(n, ast.Call) and dotted(n.func) in ('np.square', 'np.power', 'np.abs', 'np.absolute'))]
    sq = [x for x in pw if (isinstance(x[1], ast.BinOp) and const_value(x[0].expand(x[1].right)) == 2) or (isinstance(x[1], ast.Call) and dotted(x[1].func) == 'np.square') or
          (isinstance(x[1], ast.Call) and dotted(x[1].func) == 'np.power' and len(x[1].args) == 2 and const_value(x[0].expand(x[1].args[1])) == 2)]
    selfmul = [(f_, n) for f_ in clo for n in f_.nodes(ast.BinOp) if isinstance(n.op, ast.Mult) and ast.dump(n.left) == ast.dump(n.right)]
    if sq or selfmul:
        ctx.holds('C09.U4', gd, 'the weights are squared feature values', (sq or selfmul)[0][1])
    elif pw:
        ctx.violated('C09.U4', pw[0][0], pw[0][1], 'the weights are not the SQUARED feature values (`%s`)' % unparse(pw[0][1]))
    elif f3 and any(Pat(f_).any(['np.maximum(E_f, 0)', 'np.clip(E_f, 0, ANY)', 'np.clip(E_f, 0, None)'], x) for f_ in clo for x in ast.walk(f_.node) if isinstance(x, ast.Call)):
        ctx.violated('C09.U4', gd, 'weights', 'the weights are not squared (the rectified feature values are used as they are)')
    else:
        ctx.undecided('C09.U4', gd, 'the squaring of the feature weights was not recognised')
    tmpl = [(f_, n) for f_ in clo for n in f_.nodes(ast.Subscript) if Pat(f_).m('self.sparse_features.cols', n.value, expand=True)]
    via = [x for x in tmpl if any(Pat(x[0]).m('self.spike_templates[ANY]', y) or Pat(x[0]).m('self.spike_templates', y) for y in ast.walk(x[0].expand(x[1].slice)))]
    via_clu = [x for x in tmpl if any(Pat(x[0]).m('self.spike_clusters', y) for y in ast.walk(x[0].expand(x[1].slice)))]
    if tmpl and len(via) == len(tmpl):
        ctx.holds('C09.U4', gd, 'the channels of a spike are those of its TEMPLATE in the feature table', tmpl[0][1])
    elif via_clu:
        ctx.violated('C09.U4', via_clu[0][0], via_clu[0][1], 'the channels of a spike are not looked up through its template (`%s`)' % unparse(via_clu[0][1]))
    elif tmpl and not via and all({n_.id for n_ in ast.walk(x[0].expand(x[1].slice)) if isinstance(n_, ast.Name)} <= set(x[0].defs()) | set(x[0].params) | {"self", "np"} and
                                  not any(isinstance(y, ast.Attribute) and isinstance(y.value, ast.Name) and y.value.id == 'self' for y in ast.walk(x[0].expand(x[1].slice))) for x in tmpl):
        ctx.violated('C09.U4', tmpl[0][0], tmpl[0][1], 'the channels of a spike are not looked up through its template (`%s`)' % unparse(tmpl[0][1]))
    else:
        ctx.undecided('C09.U4', gd, 'the lookup of the feature channels of a spike was not recognised')
    # the normaliser of a mean / weighted mean is used as computed: patching it (e.g. norm[norm == 0] = 1) turns the NaN of an id / spike
    # without weight into a finite, wrong value
    for fn in (gd, gat, am):
        divisors = set()
        for b in fn.nodes(ast.BinOp):
            if isinstance(b.op, ast.Div) and isinstance(b.right, ast.Name):
                divisors.add(b.right.id)
        patched = [x for x in fn.nodes(ast.Assign) if isinstance(x.targets[0], ast.Subscript) and isinstance(x.targets[0].value, ast.Name) and
                   x.targets[0].value.id in divisors and isinstance(x.value, ast.Constant) and not isinstance(x.targets[0].slice, ast.Call)]
        real = [x for x in patched if not ('isnan' in unparse(x.targets[0].slice))]
        ctx.check(not real, 'C09.U4' if fn is gd else 'C09.U1', fn, real[0] if real else fn.name + ' normaliser', '%s: the normaliser of the mean is used as computed' % fn.name,
                  '`%s` overwrites entries of the normaliser before the division: ids / spikes without any weight get a finite value instead of NaN' % (unparse(real[0]) if real else ''))
    if nrep == 0:
        ctx.holds('C09.A0', gat, 'no index-space / extent / dimension conflict in get_amplitudes_true (2 modes), _amplitudes, _channels, _waveform_durations, templates_probes, get_depths', 'summaries')


LEVEL_TEXT = ('Static index-space / dimension / provenance typing of the amplitude, channel, duration and depth summaries: result axes (spike axis, '
              'full id table, (ids, samples, channels)), physical dimensions that separate a mean from a sum, an inverse from a direct whitening '
              'matrix, seconds from milliseconds and samples, and provenance tags (max over channels of ptp over samples; arg-max/arg-min over '
              'samples; y coordinate; first principal component).')
LEVEL_NOTE = ('Trusted: NumPy transfer rules of the shape engine and the attribute signatures. Not decided: numeric equality, NaN propagation.')
TECHNIQUE = 'static analysis: abstract interpretation (index-space, unit and provenance typing of NumPy code)'
