"""Oracle tables for the shape engine (DESIGN Appendix A/B): base index spaces, dimensions and the abstract type of every
TemplateModel attribute, plus signatures of a few repo callees. Restatements of the property text, not copies of repo code."""
import ast

from vlib.shape import (Shape, Space, B, ONE, Ix, Q, D, qmul, CNT, BoolT, StrT, NoneT, SizeOf, UNK, is_unk, Arr, Rec, Tup, ListT, DictT, elem_of)
from vlib.front import unparse, dotted, const_value

Spike, Tmpl, Clu, Chan, Samp, Loc, PC, XY, Shank, Probe, FeatRow, RawChan, LocT, RecS = map(B, 'Spike Tmpl Clu Chan Samp Loc PC XY Shank Probe FeatRow RawChan LocT Rec'.split())
AMPWH = Q(D(amp=1, wh=1))
AMP = Q(D(amp=1))
WHI = Q(D(wh=-1))
WH = Q(D(wh=1))
UM = Q(D(um=1))
KA = Q(D(ka=1))
FEAT = Q(D(f=1))
RATE = Q(D(samp=1, s=-1))
SAMPQ = Q(D(samp=1))
SEC = Q(D(s=1))
F = Q(D(F=1))
RAW = Q(D(raw=1))

M = 'phylib/io/model.py'
AR = 'phylib/io/array.py'
TR = 'phylib/io/traces.py'
ALF = 'phylib/io/alf.py'
CCG = 'phylib/stats/ccg.py'


def model_attrs(sparse=False, feat_rows=False, curated=True, no_features=False, store=False):
    tcols = Arr((Tmpl, Loc), Ix(Chan, True)) if sparse else NoneT()
    tdata = Arr((Tmpl, Samp, Loc if sparse else Chan), AMPWH)
    st_arr = Arr((Spike,), Ix(Tmpl))
    sc_arr = Arr((Spike,), Ix(Clu))
    st_arr.stored = True        # _load_spike_templates keeps the dtype found on disk (uint16 is accepted); spike_clusters is always widened to int32 by its loader
    wmi_, wm_ = Arr((Chan, Chan), WHI), Arr((Chan, Chan), WH)
    # whitened = raw @ wm, raw = whitened @ wmi: both multiply from the right on their first ('in') axis
    wmi_.roles, wmi_.role_name = ('in', 'out'), 'inverse whitening matrix'
    wm_.roles, wm_.role_name = ('in', 'out'), 'whitening matrix'
    a = {
        'wmi': wmi_, 'wm': wm_,
        'channel_positions': Arr((Chan, XY), UM), 'channel_shanks': Arr((Chan,), Ix(Shank)),
        'channel_probes': Arr((Chan,), Ix(Probe)), 'channel_mapping': Arr((Chan,), Ix(RawChan)),
        'n_closest_channels': Q(), 'amplitude_threshold': Q(), 'template_scaling': Q((), {'display-scale'}),        # a DISPLAY option: values in physical units must not carry it

        'spike_templates': st_arr, 'spike_clusters': sc_arr,
        'spike_times': Arr((Spike,), SEC), 'spike_samples': Arr((Spike,), SAMPQ),
        'amplitudes': Arr((Spike,), KA), 'sample_rate': RATE,
        'sparse_templates': Rec({'data': tdata, 'cols': tcols}),
        'sparse_clusters': Rec({'data': Arr((Clu, Samp, Chan), AMPWH), 'cols': NoneT()}),
        'sparse_features': NoneT() if no_features else Rec({'data': Arr((FeatRow if feat_rows else Spike, Loc, PC), FEAT), 'cols': Arr((Tmpl, Loc), Ix(Chan)),
                                                           'rows': Arr((FeatRow,), Ix(Spike)) if feat_rows else NoneT()}),
        'sparse_template_features': Rec({'data': Arr((FeatRow if feat_rows else Spike, LocT), FEAT), 'cols': Arr((Tmpl, LocT), Ix(Tmpl)),
                                         'rows': Arr((FeatRow,), Ix(Spike)) if feat_rows else NoneT()}),
        'n_templates': SizeOf(Tmpl), 'n_clusters': SizeOf(Clu), 'n_channels': SizeOf(Chan), 'n_spikes': SizeOf(Spike),
        'n_samples_waveforms': SizeOf(Samp), 'n_channels_loc': SizeOf(Loc),
        'template_ids': Arr((Space('Present', st_arr.vid, None, of=st_arr),), Ix(Tmpl)), 'cluster_ids': Arr((Space('Present', sc_arr.vid, None, of=sc_arr),), Ix(Clu)),
        'merge_map': DictT(Ix(Clu), ListT(Ix(Tmpl))), 'nan_idx': Arr((Space('K', 'nan'),), Ix(Clu)),
        'traces': Rec({'__reader__': UNK}),
        'spike_waveforms': Rec({'spike_ids': Arr((B('Row'),), Ix(Spike)), 'spike_channels': Arr((B('Row'), Loc), Ix(Chan, True)),
                                'waveforms': Arr((B('Row'), Samp, Loc), RAW)}) if store else NoneT(),
    }
    return a


def axis_dir(space):
    """Effective sort direction and the permutation space of an axis derived from an argsort: -> (dir, PermSpace) or (None, None)."""
    flips = 0
    for s in space.chain():
        if s.kind == 'Rev':
            flips += 1
        elif s.kind == 'Perm':
            d = s.info.get('dir', 'asc')
            if flips % 2:
                d = 'desc' if d == 'asc' else 'asc'
            return d, s
        elif s.kind in ('Slice',):
            continue
        else:
            break
    return None, None


def provenance(space, seen=None):
    """Collect the derivation steps (spaces) an axis space is built from."""
    seen = seen if seen is not None else []
    if space is None or is_unk(space) or space in seen:
        return seen
    seen.append(space)
    if space.parent is not None:
        provenance(space.parent, seen)
    of = space.info.get('of')
    if isinstance(of, tuple):
        for a in of:
            if isinstance(a, Arr):
                for ax in a.axes:
                    provenance(ax, seen)
    elif isinstance(of, Arr):
        for ax in of.axes:
            provenance(ax, seen)
    # restriction by membership: x[np.isin(x, y)] (alone or as a conjunct) is restricted by everything that restricts y
    if space.kind == 'Sub' and space.info.get('mask'):
        for m in flatten_masks([space.info.get('mask')]):
            if m[0] == 'isin' and len(m) > 4 and isinstance(m[4], Arr):
                for ax in m[4].axes:
                    provenance(ax, seen)
    return seen


def opaque_steps(prov):
    """Steps of a provenance chain that may hide a restriction the analysis did not see: a sub-selection whose mask was not recorded, a filtered
    comprehension, a choice between branches, a list axis. When a rule looks for a restriction and does not find it, the answer is a definite 'absent'
    only if the chain has no such step."""
    out = []
    for sp in prov:
        if sp.kind == 'Sub' and not sp.info.get('mask') and sp.info.get('of') is None:
            out.append(sp)
        elif sp.kind in ('Filter', 'Choice', 'ListAx', 'K', 'Ext', 'Diff', 'Range', 'Lit'):
            out.append(sp)
    return out


def flatten_masks(masks):
    """Atomic conjunct masks of a list of recorded masks: `a & b` contributes a and b (a restriction by a conjunction is a restriction by each conjunct)."""
    out = []
    todo = list(masks)
    while todo:
        m = todo.pop(0)
        if m is None:
            continue
        if m[0] == 'BitAnd' and (isinstance(m[1], tuple) or isinstance(m[2], tuple)):
            todo[:0] = [x for x in (m[1], m[2]) if isinstance(x, tuple)]
        else:
            out.append(m)
    return out


def mask_text(m):
    if m is None:
        return ''
    if isinstance(m[1], tuple) or m[1] is None and len(m) == 4 and isinstance(m[2], (tuple, type(None))) and m[0] in ('BitAnd', 'BitOr'):
        return '(%s %s %s)' % (mask_text(m[1]) if isinstance(m[1], tuple) else '?', m[0], mask_text(m[2]) if isinstance(m[2], tuple) else '?')
    return '%s %s %s' % (m[1], m[0], m[2])


# ---------------------------------------------------------------------------------------------- signatures of repo callees
def sig_index_of(S, e, a, kw, env):
    """_index_of(arr: Ix(X), lookup: Arr(K, Ix(X))) -> Ix(K) on the axes of arr (positions in the lookup table)."""
    if len(a) < 2:
        return UNK
    arr, lookup = a[0], a[1]
    if isinstance(lookup, ListT) and isinstance(lookup.elem, Ix):
        lookup = Arr((lookup.axis or Space('ListAx', lookup.vid),), lookup.elem)
    ae = elem_of(arr)
    if isinstance(lookup, Arr) and isinstance(ae, Ix) and isinstance(lookup.elem, Ix) and lookup.axes:
        if ae.space is not lookup.elem.space and not is_unk(ae.space) and not is_unk(lookup.elem.space):
            S.report('space', e, '_index_of: values of kind %s are looked up in a table of %s' % (ae, lookup.elem))
        el = Ix(lookup.axes[0])
        return Arr(arr.axes, el) if isinstance(arr, Arr) else el
    return UNK


def sig_from_sparse(S, e, a, kw, env):
    """from_sparse(data: (R, L, ...), cols: (R, L) Ix(X), channel_ids: (C,) Ix(X)) -> (R, C, ...)"""
    if len(a) < 3:
        return UNK
    data, cols, ch = a[0], a[1], a[2]
    if isinstance(data, Arr) and isinstance(cols, Arr) and isinstance(ch, Arr) and len(data.axes) >= 2 and len(cols.axes) == 2:
        for k in (0, 1):
            if data.axes[k] is not cols.axes[k] and not is_unk(data.axes[k]) and not is_unk(cols.axes[k]):
                S.report('space', e, 'from_sparse: axis %d of the data ranges over %s but the column table over %s' % (k, data.axes[k], cols.axes[k]))
        if isinstance(cols.elem, Ix) and isinstance(ch.elem, Ix) and cols.elem.space is not ch.elem.space:
            S.report('space', e, 'from_sparse: the column table holds %s but the requested columns are %s' % (cols.elem, ch.elem))
        return Arr((data.axes[0], ch.axes[0]) + data.axes[2:], data.elem)
    return UNK


def sig_compute_pcs(S, e, a, kw, env):
    x = a[0] if a else UNK
    if isinstance(x, Arr) and len(x.axes) == 3:
        return Arr((PC, x.axes[1], x.axes[2]), Q())
    return UNK


COMMON_SIGS = {'_index_of': sig_index_of, 'from_sparse': sig_from_sparse, '_compute_pcs': sig_compute_pcs}


# ---------------------------------------------------------------------------------------------- ALF exporter runs (C13.A1, C14)
def _name_in(node):
    """The file-name constant inside a path expression (`self.out_path / 'x.npy'`, `p.joinpath('x')`, `peak_path.name`)."""
    for n in ast.walk(node):
        if isinstance(n, ast.Constant) and isinstance(n.value, str) and '.' in n.value:
            return n.value if n.value.endswith(('.npy', '.csv')) else n.value + '.npy'
    return None


def alf_run(repo, method, attrs=None, extra_env=None, curated=True):
    """Run one EphysAlfCreator method under the shape engine; -> (Shape, {file name: saved array})."""
    from vlib.shape import Shape
    cls = repo.cls(ALF, 'EphysAlfCreator')
    fi = repo.lookup_method(cls, method)
    if fi is None:
        from vlib.front import AnchorMissing
        raise AnchorMissing('EphysAlfCreator.%s' % method)
    a = model_attrs() if attrs is None else dict(attrs)
    a.setdefault('ampfactor', F)
    a.setdefault('cluster_ids', a['cluster_ids'])
    saved = {}

    def sig_save_npy(S, e, args, kw, env):
        nm = None
        if e.args:
            a0 = e.args[0]
            if isinstance(a0, ast.Constant):
                nm = a0.value
            elif isinstance(a0, ast.Attribute) and a0.attr == 'name' and isinstance(a0.value, ast.Name):
                d = fi.unique_def(a0.value.id)
                nm = _name_in(d) if d is not None else None
        saved[nm or unparse(e.args[0])] = (e, args[1] if len(args) > 1 else UNK)
        return NoneT()

    def sig_np_save(S, e, args, kw, env):
        nm = _name_in(e.args[0]) if e.args else None
        saved[nm or unparse(e.args[0])] = (e, args[1] if len(args) > 1 else UNK)
        return NoneT()

    def sig_np_load(S, e, args, kw, env):
        a0 = e.args[0] if e.args else None
        if isinstance(a0, ast.Name) and S.fi_stack:
            a0 = S.fi_stack[-1].expand(a0)          # `p = out_path / 'x.npy'; np.load(p)`
        nm = _name_in(a0) if a0 is not None else None
        if nm in PRIOR:
            return PRIOR[nm]
        return UNK
    sigs = dict(COMMON_SIGS)
    sigs.update({'self._save_npy': sig_save_npy, 'np.save': sig_np_save, 'np.load': sig_np_load})
    S = Shape(repo, selfattrs=a, sigs=sigs, inline_depth=4)
    env = {'self': UNK}
    env.update(extra_env or {})
    S.run(fi, env)
    return S, saved, fi


PRIOR = {'clusters.channels.npy': Arr((Clu,), Ix(Chan))}     # what make_cluster_objects wrote (checked by C13.A1 itself)


def c13_a1(ctx):
    """First dimension of every exported object table (C13.A1)."""
    repo = ctx.repo
    want = {'spikes.': Spike, 'clusters.': Clu, 'templates.': Tmpl, 'channels.': Chan}
    allsaved = {}
    nrep = 0
    for meth in ('make_cluster_objects', 'make_channel_objects', 'make_template_and_spikes_objects', 'make_depths'):
        for nofeat in ((False, True) if meth == 'make_depths' else (False,)):
            S, saved, fi = alf_run(repo, meth, attrs=model_attrs(no_features=nofeat))
            for r in S.reports:
                if r.kind in ('dim', 'role'):
                    continue        # physical units / matrix orientation are C14's and C09's obligations, not a table-dimension conflict
                nrep += 1
                ctx.violated('C13.A1', r.fi, r.node, '[%s] %s' % (meth, r.msg))
            for nm, (node, arr) in saved.items():
                allsaved[(nm, meth, nofeat)] = (node, arr, fi)
    n = 0
    for (nm, meth, nofeat), (node, arr, fi) in sorted(allsaved.items(), key=lambda kv: str(kv[0])):
        pref = [p for p in want if nm.startswith(p)]
        if not pref:
            continue
        sp = want[pref[0]]
        n += 1
        if isinstance(arr, Arr) and arr.axes and not is_unk(arr.axes[0]):
            ctx.check(arr.axes[0] is sp, 'C13.A1', fi, '%s first axis' % nm, '%s has one row per %s' % (nm, sp),
                      '%s has its first axis over %s, expected one row per %s' % (nm, arr.axes[0], sp), value=arr)
        else:
            ctx.undecided('C13.A1', fi, 'first axis of %s not typed (%s)' % (nm, arr), node)
    need = ['spikes.times.npy', 'spikes.samples.npy', 'spikes.amps.npy', 'spikes.depths.npy', 'clusters.channels.npy', 'clusters.peakToTrough.npy', 'clusters.amps.npy',
            'clusters.depths.npy', 'clusters.waveforms.npy', 'clusters.waveformsChannels.npy', 'templates.amps.npy', 'templates.waveforms.npy', 'templates.waveformsChannels.npy', 'channels.rawInd.npy']
    got = {k[0] for k in allsaved}
    miss = [x for x in need if x not in got]
    ctx.check(not miss, 'C13.A1', ALF + ':EphysAlfCreator', 'exported tables', 'all %d object tables of the export were typed' % len(need), 'object tables no longer written / not recognised: %s' % miss)
    return allsaved


def empty_lookup_guard(fi, node):
    """True when `node` is reached only with an EMPTY lookup table (second parameter): the mapping lookup[k] -> k is then vacuous, whatever is returned."""
    from vlib.pat import Pat
    from vlib import q
    lp = fi.params[1]
    empty = ['len(%s) == 0' % lp, 'not len(%s)' % lp, '%s.size == 0' % lp, 'not %s.size' % lp, '%s.shape[0] == 0' % lp, 'len(%s) < 1' % lp, '0 == len(%s)' % lp]
    nonempty = ['len(%s)' % lp, 'len(%s) > 0' % lp, 'len(%s) != 0' % lp, '%s.size' % lp, '%s.size > 0' % lp, 'len(%s) >= 1' % lp]
    for if_, branch in q.enclosing_ifs(fi, node):
        t = fi.expand(if_.test)
        if (branch == 'body' and Pat().any(empty, t)) or (branch == 'orelse' and Pat().any(nonempty, t)):
            return True
    return False


def check_index_of(ctx, rule):
    """_index_of(arr, lookup) typed against its signature: every return holds positions IN THE LOOKUP (caller's order), on the axes of arr."""
    repo = ctx.repo
    fi = repo.func(AR, '_index_of')
    from vlib.shape import Shape
    A_, K_, X_ = B('ArrAx'), B('LookupPos'), B('Ids')
    S = Shape(repo, inline_depth=1)
    rets = S.run(fi, {fi.params[0]: Arr((A_,), Ix(X_)), fi.params[1]: Arr((K_,), Ix(X_))})
    bad, und, n = None, None, 0
    for node, v in rets:
        if empty_lookup_guard(fi, node):
            continue
        n += 1
        if isinstance(v, Arr) and isinstance(v.elem, Ix):
            sp = v.elem.space
            if sp is K_:
                continue
            if is_unk(sp):
                und = node
                continue
            bad = (node, sp)
        elif is_unk(v) or (isinstance(v, Arr) and is_unk(v.elem)):
            und = node
        else:
            bad = (node, v)
    if bad is not None:
        node, sp = bad
        why = 'positions in the SORTED lookup' if getattr(sp, 'kind', '') == 'SortedPos' else ('positions valid only for a sorted lookup' if getattr(sp, 'kind', '') == 'Ext' else str(sp))
        ctx.violated(rule, fi, node, '_index_of returns `%s`: %s, not positions in the lookup table as given (the caller\'s order, which may be unsorted)' % (unparse(node.value)[:70], why))
    elif und is not None:
        ctx.undecided(rule, fi, 'a return of _index_of could not be typed', und)
    else:
        ctx.holds(rule, fi, 'every return of _index_of (%d) holds positions in the lookup table in the caller\'s order, on the axes of the values' % n, '_index_of')
