"""C14 - exported ALF values equal the physical quantities they name.

Decided
  U1  templates.waveforms / clusters.waveforms carry the dimension of the unwhitened, amplitude-rescaled waveform times the unit
      factor, on the columns listed in the matching waveformsChannels row; the listed channels are the first n of an ASCENDING order
      of the distance to the peak channel in which channels of other probes are pushed to infinity; the loop index and the
      peak-channel table belong to the same id space (templates with templates, clusters with clusters)
  U2  every amplitude output carries the unit factor (spikes.amps, templates.amps, clusters.amps); clusters.peakToTrough is in
      milliseconds with NaN at the empty ids; clusters.depths = y coordinate of the peak channel with NaN at the empty ids;
      spikes.depths = feature-weighted depths, or the depth of the spike's cluster when no features exist
  M1  prerequisite: the model-side construction of the exported cluster waveforms (obligations C08.A0 / A2 / A3) holds
  S1  channels.rawInd: the offset subtracted for probe k equals, inductively, the offset Merger.write_channel_data added
      (same recurrence, same start), probes visited in increasing label order
Not decided: value equality, tie order among equidistant channels.
"""
import ast

from vlib import q, proto
from vlib.pat import Pat, returned
from vlib.proto import C, T, is_c, is_t, show, subterms
from vlib.sym import Lin, equal, NF
from vlib.front import unparse, dotted, const_value, AnchorMissing
from vlib.shape import Shape, Space, Ix, Q, D, BoolT, StrT, NoneT, SizeOf, UNK, is_unk, Arr, Rec, Tup, ListT, DictT, B
from obligations.shape_tables import (model_attrs, alf_run, ALF, M, Tmpl, Clu, Chan, Samp, Spike, Probe, F, UM)
from obligations.C11 import MI

MG = 'phylib/io/merge.py'
FLOOR = 13          # decided obligations below this = the analysis lost its footing (exit 2); clean tree: 36
RULES = ('C14.M1', 'C14.S1', 'C14.U1', 'C14.U2')          # every obligation group must report (holds / violated / undecided): a group that vanishes silently is an analysis error
AKF = {'amp': 1, 'ka': 1, 'F': 1}
EXPLANATION = ('shape engine over the EphysAlfCreator methods with the model methods inline (dimension with the unit factor, index spaces of '
               'loop indices and tables, provenance of the channel order); sym walk of the per-probe loops of the exporter and of the merger '
               'comparing the offset recurrences as normal forms (inductive step)')
TRUSTED = ['python ast', 'NumPy transfer rules of vlib/shape.py', 'normal forms of vlib/sym.py', 'attribute signatures']
ASSUMPTIONS = ['dense templates', 'probe labels of a merged dataset are 0..k-1 in input order (C12.S3)']


def s1_rawind(ctx, rule='C14.S1'):
    """channels.rawInd: the offset subtracted for probe k equals, inductively, the offset Merger.write_channel_data added (both start at 0).
    Shared with C13 (an unmerged dataset must export its own channel map, which is what the loader reads back)."""
    repo = ctx.repo
    cls = repo.cls(ALF, 'EphysAlfCreator')
    co = repo.lookup_method(cls, 'make_channel_objects')
    mg = repo.func(MG, 'Merger.write_channel_data')
    # merger recurrence
    from obligations.C12 import probe_loop
    lps = mg.nodes(ast.For)
    pl = probe_loop(lps[0]) if lps else None
    if pl is None:
        ctx.undecided(rule, mg, 'the probe loop of Merger.write_channel_data was not recognised')
        return
    lp = lps[0]
    ind, arrn, _src = pl
    me = T('self')
    ARR, O = T('MK'), T('OK')
    offs = [unparse(a.targets[0]) for a in mg.body() if isinstance(a, ast.Assign) and const_value(a.value) == 0 and isinstance(a.targets[0], ast.Name)]
    env = {mg.params[0]: me, arrn: ARR}
    if ind is not None:
        env[ind] = T('k')
    for o in offs:
        env[o] = T('acc', o)
    for n_ in [a for a in mg.body() if isinstance(a, ast.Assign) and isinstance(a.value, ast.List) and isinstance(a.targets[0], ast.Name)]:
        env[unparse(n_.targets[0])] = T('listvar', unparse(n_.targets[0]))
    I = MI(repo, unroll=1, inline_depth=0)
    I.fi_stack = [mg]
    I._pending = []
    outs = [(k, v, st) for k, v, st in I.block(lp.body, proto.State(env)) if k == 'fall']
    merge_off = merge_next = None
    if outs:
        st = outs[0][2]
        shifted = st.env.get(arrn)
        rec = [e for e in st.trace if e[0] == 'append' and e[2] == 'channel_offsets']
        # which accumulator is added to the map?
        for o in offs:
            nfb = NF({ARR: Lin.atom(('m',)), T('acc', o): Lin.atom(('o',))})
            if equal(nfb(shifted), Lin.atom(('m',)) + Lin.atom(('o',))):
                merge_off = o
                merge_next = nfb(st.env.get(o))
    if merge_off is None:
        ctx.undecided(rule, mg, 'the merger no longer shifts the channel map by an accumulated offset')
    else:
        ctx.holds(rule, mg, 'merger: map of probe k is shifted by o_k, o_0 = 0, o_{k+1} = %s' % merge_next, 'write_channel_data')
        # exporter
        loops = co.nodes(ast.For)
        lp2 = loops[0] if loops else None
        if lp2 is None:
            ctx.undecided(rule, co, 'no probe loop in make_channel_objects')
        else:
            it_good = Pat().any(['np.unique(self.model.channel_probes)', 'sorted(set(self.model.channel_probes))', 'self.model.probes', 'sorted(np.unique(self.model.channel_probes))'], lp2.iter)
            it_bad = not it_good and Pat().any(['np.unique(self.model.channel_probes)[::-1]', 'reversed(np.unique(self.model.channel_probes))', 'set(self.model.channel_probes)'], lp2.iter)
            if it_good:
                ctx.holds(rule, co, 'probes are visited in increasing label order (the order in which the merger accumulated the offsets)', lp2.iter)
            elif it_bad:
                ctx.violated(rule, co, lp2.iter, 'probes are not visited in increasing label order (`%s`)' % unparse(lp2.iter))
            else:
                ctx.undecided(rule, co, 'probe iteration `%s` not recognised' % unparse(lp2.iter), lp2.iter)
            PC = Pat(co)
            pv = unparse(lp2.target)
            mask_s = PC.stmt('V_mask = self.model.channel_probes == %s' % pv, within=lp2)
            store_s = [a for a in ast.walk(lp2) if isinstance(a, ast.Assign) and isinstance(a.targets[0], ast.Subscript) and isinstance(a.targets[0].value, ast.Name)
                       and 'channel_mapping' in unparse(a.value)]
            raw_name = store_s[0].targets[0].value.id if store_s else None
            mask_name = PC.name('V_mask')
            upd = {unparse(a.target if isinstance(a, ast.AugAssign) else a.targets[0]) for a in ast.walk(lp2) if isinstance(a, (ast.Assign, ast.AugAssign))}
            accs = [unparse(a.targets[0]) for a in co.body() if isinstance(a, ast.Assign) and isinstance(a.targets[0], ast.Name) and unparse(a.targets[0]) in upd
                    and a.lineno < lp2.lineno and unparse(a.targets[0]) != raw_name]
            env2 = {co.params[0]: me, pv: T('k')}
            for a_ in accs:
                env2[a_] = T('acc', a_)
            if raw_name:
                env2[raw_name] = T('rawInd')
            merged_forms = ['self.model.channel_mapping[%s]' % mask_name if mask_name else 'self.model.channel_mapping[self.model.channel_probes == %s]' % pv,
                            'self.model.channel_mapping[self.model.channel_probes == %s]' % pv]

            class W(MI):
                def ev_Subscript(self, e, st):
                    if Pat().any(merged_forms, e):
                        return [(T('MERGED'), st)]
                    return super().ev_Subscript(e, st)
            I2 = W(repo, unroll=1, inline_depth=0)
            I2.fi_stack = [co]
            I2._pending = []
            outs2 = [(k, v, st) for k, v, st in I2.block(lp2.body, proto.State(env2)) if k == 'fall']
            if not outs2 or not accs:
                ctx.undecided(rule, co, 'loop body of make_channel_objects not walked')
            else:
                st2 = outs2[0][2]
                acc = accs[0]
                nfb = NF({T('MERGED'): Lin.atom(('m',)) + Lin.atom(('o',)), T('acc', acc): Lin.atom(('o',))})      # induction hypothesis: c_k = o_k, block = m_k + o_k
                sets = [e for e in st2.trace if e[0] == 'setitem' and e[1] == T('rawInd')]
                if not sets:
                    ctx.undecided(rule, co, 'no store into rawInd in the probe loop')
                else:
                    val = nfb(sets[0][3])
                    ctx.check(equal(val, Lin.atom(('m',))), rule, co, 'rawInd block', 'rawInd of probe k = merged map - o_k = original map of probe k',
                              'rawInd of probe k is %s under the hypothesis (merged block = m + o, subtracted offset = o): not the original map m' % val)
                nxt = nfb(st2.env.get(acc))

                def closed(l):
                    # a normal form over the induction variables only (m, o, constants, max / amax of such): a difference between closed forms is definite
                    from vlib.sym import Lin as _L
                    if isinstance(l, _L):
                        return all(closed(k) for k in l.d)
                    if l == '1':
                        return True
                    if isinstance(l, tuple):
                        if len(l) == 1 and isinstance(l[0], str):
                            return True
                        if l and l[0] in ('amax', 'amin', 'max', 'min', 'fdiv', 'prod'):
                            return all(closed(x) for x in l[1:])
                    return False
                ctx.tri(equal(nxt, merge_next), (not equal(nxt, merge_next)) and closed(nxt), rule, co, 'offset recurrence',
                        'inductive step: the offset for the next probe equals the merger\'s next offset (%s)' % merge_next,
                        'after probe k the exporter subtracts %s for the next probe, the merger added %s: from the third probe on rawInd is wrong' % (nxt, merge_next),
                        'the offset carried to the next probe (%s) contains terms the walk does not interpret' % str(nxt)[:80])
                init = [a for a in co.body() if isinstance(a, ast.Assign) and unparse(a.targets[0]) == acc]
                iv = const_value(co.expand(init[0].value)) if init else None
                ctx.tri(bool(init) and iv == 0 and not isinstance(iv, bool), bool(init) and ((isinstance(iv, (int, float)) and (iv != 0 or isinstance(iv, bool))) or
                                                                                  (iv is None and any(isinstance(n, ast.Attribute) for n in ast.walk(co.expand(init[0].value))))), rule, co, init[0] if init else 'offset start',
                        'both offsets start at 0', 'the exporter\'s offset starts at `%s`, the merger\'s at 0: channels.rawInd of the first (or only) probe is not its channel map' % (unparse(init[0].value) if init else '?'),
                        'the initial value of the exporter\'s offset was not recognised')
    S, saved4, co_ = alf_run(repo, 'make_channel_objects')
    a = saved4.get('channels.rawInd.npy', (None, None))[1]
    ctx.check(isinstance(a, Arr) and a.axes == (Chan,), rule, co, 'channels.rawInd axis', 'channels.rawInd has one entry per channel', 'channels.rawInd is %s' % a, value=a)
    for r in S.reports:
        ctx.violated(rule, r.fi, r.node, '[make_channel_objects] %s' % r.msg)


def blanked(ctx, repo, fi, arr, rule, what):
    """The saved per-cluster array has NaN on the ids without spikes: the shape engine records `x[self.model.nan_idx] = nan` on the array (also through a
    helper that receives it). Absent: definite only when the method and the helpers it calls never mention nan_idx."""
    if isinstance(arr, Arr) and getattr(arr, 'blanked', None):
        return ctx.holds(rule, fi, '%s of ids without spikes are NaN (rows of nan_idx are blanked on the saved array)' % what, what)
    mentions = any(isinstance(n, ast.Attribute) and n.attr == 'nan_idx' for f_ in repo.transparent_closure(fi) for n in ast.walk(f_.node))
    if not mentions:
        return ctx.violated(rule, fi, fi.name, '%s of empty ids are not blanked' % what)
    return ctx.undecided(rule, fi, '%s: nan_idx is used, but the blanking of the saved array was not recognised' % what)


def m1_model_side(ctx):
    """The exporter writes the model's cluster waveforms (sparse_clusters, built by cluster_waveforms / get_cluster_mean_waveforms): the obligations on
    their construction (C08.A0, A2, A3) are prerequisites of `clusters.waveforms = waveform of the cluster on the listed channels`."""
    from vlib import report
    from obligations import C08
    sub = report.Ctx('C08', ctx.repo, ctx.tier, ctx.seed)
    C08.run(sub)
    rel = [o for o in sub.obs if o.rule in ('C08.A0', 'C08.A2', 'C08.A3')]
    bad = [o for o in rel if o.status == 'violated']
    for o in bad:
        ctx.obs.append(report.Ob('C14.M1', o.where, 'violated', 'the exported cluster waveforms are the model\'s cluster waveforms, and their construction is wrong (%s): %s' % (o.rule, o.detail),
                                 o.construct, o.line))
    if not bad:
        ctx.holds('C14.M1', ALF + ':EphysAlfCreator', 'model-side construction of the exported cluster waveforms: %d obligations of C08.A0/A2/A3 hold (%d undecided)' %
                  (len([o for o in rel if o.status == 'holds']), len([o for o in rel if o.status == 'undecided'])), 'sparse_clusters provenance')


def m2_amplitudes(ctx):
    """spikes.amps / templates.amps / clusters.amps and the rescaled waveforms are what TemplateModel.get_amplitudes_true returns (times the unit factor): the obligations on
    that method (C09.U1: unwhitened template amplitude = largest peak-to-peak over channels, own id's amplitude per spike, mean per id, unit factor) are prerequisites
    of "exported values equal the physical quantities they name"."""
    from vlib import report
    from obligations import C09
    sub = report.Ctx('C09', ctx.repo, ctx.tier, ctx.seed)
    C09.run(sub)
    # spikes.depths are what get_depths returns: its batch loop must cover every spike (C09.U4, batch-coverage obligation)
    for o in [o_ for o_ in sub.obs if o_.rule == 'C09.U4' and o_.status == 'violated' and 'batch' in o_.detail][:2]:
        ctx.obs.append(report.Ob('C14.U2', o.where, 'violated', 'the exported spike depths are those of get_depths, whose computation is wrong (%s): %s' % (o.rule, o.detail), o.construct, o.line))
    rel = [o for o in sub.obs if o.rule == 'C09.U1']
    bad = [o for o in rel if o.status == 'violated']
    for o in bad[:4]:
        ctx.obs.append(report.Ob('C14.U2', o.where, 'violated', 'the exported amplitudes are those of get_amplitudes_true, whose computation is wrong (%s): %s' % (o.rule, o.detail), o.construct, o.line))
    if not bad:
        if any(o.status == 'holds' for o in rel):
            ctx.holds('C14.U2', M + ':TemplateModel.get_amplitudes_true', 'model-side amplitudes: %d obligations of C09.U1 hold (%d undecided)' %
                      (len([o for o in rel if o.status == 'holds']), len([o for o in rel if o.status == 'undecided'])), 'get_amplitudes_true')
        else:
            ctx.undecided('C14.U2', M + ':TemplateModel.get_amplitudes_true', 'the model-side amplitude computation (C09.U1) was not decided')


def run(ctx):
    ctx.part('C14.U2', m2_amplitudes)
    repo = ctx.repo
    cls = repo.cls(ALF, 'EphysAlfCreator')
    # ---------------------------------------------------------------- U1 / U2 via the shape runs
    S, saved, mt = alf_run(repo, 'make_template_and_spikes_objects')
    for r in S.reports:
        ctx.violated('C14.U1', r.fi, r.node, '[make_template_and_spikes_objects] %s' % r.msg)

    def arr(nm):
        return saved.get(nm, (None, None))[1]
    for nm, W in (('templates.waveforms.npy', Tmpl), ('clusters.waveforms.npy', Clu)):
        a = arr(nm)
        if isinstance(a, Arr) and isinstance(a.elem, Q) and len(a.axes) == 3:
            ctx.check(a.axes[0] is W and a.axes[1] is Samp, 'C14.U1', mt, nm + ' axes', '%s on (%s, samples, listed channels)' % (nm, W), '%s is over %s' % (nm, a.axes), value=a)
            ctx.check(a.elem.d() == AKF, 'C14.U1', mt, nm + ' dimension', '%s = unwhitened, amplitude-rescaled waveform x unit factor' % nm,
                      '%s has dimension %s, expected amp*ka*F (unwhitened, rescaled, in physical units)' % (nm, a.elem), value=getattr(a, 'elem', a))
        else:
            ctx.undecided('C14.U1', mt, '%s not typed (%s)' % (nm, a))
    for nm, W in (('templates.waveformsChannels.npy', Tmpl), ('clusters.waveformsChannels.npy', Clu)):
        a = arr(nm)
        ok = isinstance(a, Arr) and len(a.axes) == 2 and a.axes[0] is W and isinstance(a.elem, Ix) and a.elem.space is Chan
        ctx.check(ok, 'C14.U1', mt, nm, '%s holds channel indices per %s' % (nm, W), '%s is %s' % (nm, a))
    for nm, W in (('spikes.amps.npy', Spike), ('templates.amps.npy', Tmpl), ('clusters.amps.npy', Clu)):
        a = arr(nm)
        if isinstance(a, Arr) and isinstance(a.elem, Q):
            ctx.check(a.axes == (W,) and a.elem.d() == AKF, 'C14.U2', mt, nm, '%s: one amplitude per %s in physical units (unit factor applied)' % (nm, W),
                      '%s is %s, expected one amp*ka*F value per %s (the unit factor must be applied)' % (nm, a, W), value=a)
        else:
            ctx.undecided('C14.U2', mt, '%s not typed (%s)' % (nm, a))
    # channel ordering (structure of the two loops)
    closure = repo.transparent_closure(mt)
    loops = [(f_, l) for f_ in closure for l in f_.nodes(ast.For)]
    nl = 0
    shared = 0
    for home, lp in loops:
        body = ast.unparse(lp)
        t = unparse(lp.target)
        it = unparse(lp.iter).replace(' ', '')
        which = 'templates' if 'n_templates' in it else ('clusters' if 'n_clusters' in it else None)
        # per-item helpers called from the loop body (extracted from it) belong to the loop: their statements are searched as well
        called = []
        for c_ in [n for n in ast.walk(lp) if isinstance(n, ast.Call)]:
            for g_ in closure:
                if g_ is not home and g_ is not mt and (q.method_name(c_) == g_.name or dotted(c_.func) == g_.name) and g_ not in called:
                    called.append(g_)
        has_sort = lambda root: any(isinstance(n, ast.Call) and (dotted(n.func) or '').endswith('argsort') for n in ast.walk(root))
        if which is None and home is not mt and (has_sort(lp) or any(has_sort(g_.node) for g_ in called)):
            # one loop in a helper extracted from the two export loops: it serves both tables when the helper is called for both
            callers = [c for c in mt.calls() if q.method_name(c) == home.name or dotted(c.func) == home.name]
            which = 'templates and clusters (shared helper %s)' % home.name
            shared = len(callers)
        if which is None:
            continue
        nl += 1
        regions = [(home, [x for x in ast.walk(lp) if isinstance(x, ast.stmt)])] + [(g_, [x for x in ast.walk(g_.node) if isinstance(x, ast.stmt)]) for g_ in called]

        class _Multi:
            """The same pattern tried in the loop body and in the helpers it calls, first without and then with expansion of local aliases."""
            def __init__(self):
                self.pats = [(Pat(f_), stmts_) for f_, stmts_ in regions]

            def find(self, pattern, _ignored=None, stmt=True, expand=True):
                for ex_ in (False, True):
                    for P_, stmts_ in self.pats:
                        r_ = P_.find(pattern, stmts_, stmt=stmt, expand=ex_)
                        if r_ is not None:
                            return r_
                return None

            def name(self, var):
                for P_, _s in self.pats:
                    if P_.name(var):
                        return P_.name(var)
                return None
        PL = _Multi()
        body_stmts = [x for _f, stmts_ in regions for x in stmts_]
        sort_roots = [lp] + [g_.node for g_ in called]
        dist = PL.find('V_dist = np.sum(np.abs(self.model.channel_positions - self.model.channel_positions[E_peak]), axis=1)', body_stmts, stmt=True, expand=True) or \
            PL.find('V_dist = np.abs(self.model.channel_positions - self.model.channel_positions[E_peak]).sum(axis=1)', body_stmts, stmt=True, expand=True)
        dist_any = dist or PL.find('V_dist = np.sum(ANY, axis=1)', body_stmts, stmt=True, expand=True) or PL.find('V_dist = np.sum(ANY, axis=0)', body_stmts, stmt=True, expand=True) or \
            PL.find('V_dist = np.sum(ANY)', body_stmts, stmt=True, expand=True)
        if dist is not None:
            ctx.holds('C14.U1', home, '%s: distance = L1 distance between channel positions and the peak-channel position' % which, dist)
        elif dist_any is not None and 'channel_positions' in unparse(dist_any.value):
            ctx.violated('C14.U1', home, dist_any, '%s: the distance is `%s`, not sum(|positions - position of the peak channel|) over the coordinates' % (which, unparse(dist_any.value)[:100]))
        else:
            ctx.undecided('C14.U1', home, '%s: computation of the channel distance not recognised' % which)
        dname = PL.name('V_dist')
        srt = [n for r_ in sort_roots for n in ast.walk(r_) if isinstance(n, ast.Subscript) and isinstance(n.value, ast.Call) and (dotted(n.value.func) or '').endswith('argsort')]
        if not srt or dname is None:
            ctx.undecided('C14.U1', home, '%s: ordering of the channels by distance not recognised' % which)
        else:
            a0 = srt[0].value.args[0] if srt[0].value.args else None
            asc = isinstance(srt[0].slice, ast.Slice) and srt[0].slice.lower is None and srt[0].slice.upper is not None and srt[0].slice.step is None and \
                isinstance(a0, ast.Name) and a0.id == dname
            desc = isinstance(a0, ast.UnaryOp) or (isinstance(srt[0].slice, ast.Slice) and (srt[0].slice.step is not None or srt[0].slice.lower is not None))
            if asc:
                ctx.holds('C14.U1', home, '%s: listed channels = first n of the ascending distance order (peak channel first)' % which, srt[0])
            elif desc:
                ctx.violated('C14.U1', home, srt[0], '%s: listed channels are `%s`, not the first n of an ascending argsort of the distance' % (which, unparse(srt[0])))
            else:
                ctx.undecided('C14.U1', home, '%s: channel ordering `%s` not recognised' % (which, unparse(srt[0])), srt[0])
        pen = PL.find('V_dist[self.model.channel_probes != E_probe] += np.inf', body_stmts, stmt=True, expand=True) or PL.find("V_dist[self.model.channel_probes != E_probe] = np.inf", body_stmts, stmt=True, expand=True) or \
            PL.find("V_dist[self.model.channel_probes != E_probe] += float('inf')", body_stmts, stmt=True, expand=True)
        pen_bad = PL.find('V_dist[self.model.channel_probes == E_probe] += np.inf', body_stmts, stmt=True, expand=True) if pen is None else None
        has_inf = any('inf' in unparse(x) for x in body_stmts if isinstance(x, (ast.Assign, ast.AugAssign)))
        if pen is not None:
            ctx.holds('C14.U1', home, '%s: channels of other probes are pushed to infinite distance' % which, pen)
        elif pen_bad is not None or (dname is not None and not has_inf):
            ctx.violated('C14.U1', home, pen_bad or lp, '%s: channels of other probes are not excluded from the neighbourhood' % which)
        else:
            ctx.undecided('C14.U1', home, '%s: exclusion of the channels of other probes not recognised' % which)
        # columns: row t of the waveforms is taken on the channels of row t of waveformsChannels
        inds = PL.find('V_inds[%s, :] = ANY' % t, body_stmts, stmt=True, expand=True) or PL.find('V_inds[%s] = ANY' % t, body_stmts, stmt=True, expand=True)
        cols = None
        if inds is not None:
            for pat_ in ('V_out[%s, ...] = E_src[%s, :][:, V_inds[%s, :]]' % (t, t, t), 'V_out[%s] = E_src[%s][:, V_inds[%s]]' % (t, t, t), 'V_out[%s, ...] = E_src[%s][:, V_inds[%s, :]]' % (t, t, t),
                         'V_out[%s, :, :] = E_src[%s, :][:, V_inds[%s, :]]' % (t, t, t), 'V_out[%s, ...] = E_src[%s, :, V_inds[%s, :]]' % (t, t, t)):
                cols = cols or PL.find(pat_, body_stmts, stmt=True, expand=True)
        col_any = [x for x in body_stmts if isinstance(x, ast.Assign) and isinstance(x.targets[0], ast.Subscript) and x is not inds and not isinstance(x.value, ast.Constant) and
                   PL.name('V_inds') and PL.name('V_inds') in q.names_in(x.value)]
        if cols is not None:
            ctx.holds('C14.U1', home, '%s: waveform columns are those of the same row of waveformsChannels' % which, cols)
        elif col_any:
            ctx.violated('C14.U1', home, col_any[0], '%s: waveform columns are `%s`, not the columns listed in the matching waveformsChannels row' % (which, unparse(col_any[0].value)[:90]))
        else:
            ctx.undecided('C14.U1', home, '%s: selection of the waveform columns not recognised' % which)
    if nl == 2 or (nl == 1 and shared >= 2):
        ctx.holds('C14.U1', mt, 'templates and clusters are both exported', 'loops')
    elif nl == 0 and not any(isinstance(n, ast.Call) and (dotted(n.func) or '').endswith('argsort') for f_ in closure for n in ast.walk(f_.node)):
        ctx.violated('C14.U1', mt, 'loops', 'no loop selects the nearest channels of the exported waveforms (templates / clusters)')
    else:
        ctx.undecided('C14.U1', mt, 'the template / cluster export loops were not both recognised (%d found)' % nl)
    amp_calls = [c for c in mt.calls() if q.method_name(c) == 'get_amplitudes_true']
    uses = sorted(const_value(q.kwarg(c, 'use')) or 'templates' for c in amp_calls)
    amp_calls = [c for f_ in repo.transparent_closure(mt) for c in f_.calls() if q.method_name(c) == 'get_amplitudes_true']
    uses = sorted((const_value(q.arg(c, 1, 'use')) if q.arg(c, 1, 'use') is not None else 'templates') or '?' for c in amp_calls)
    facs = [q.arg(c, 0, 'sample2unit') for c in amp_calls]
    okf = uses == ['clusters', 'templates'] and all(x is not None and Pat().m('self.ampfactor', x) for x in facs)
    badf = bool(amp_calls) and (any(x is None or isinstance(x, ast.Constant) for x in facs) or (len(amp_calls) == 2 and all(u_ in ('clusters', 'templates') for u_ in uses) and uses != ['clusters', 'templates']))
    ctx.tri(okf, badf, 'C14.U2', mt, amp_calls[0] if amp_calls else 'get_amplitudes_true', 'amplitudes are computed for templates and for clusters with the unit factor of the conversion',
            'get_amplitudes_true is not called for both tables with self.ampfactor (%s)' % uses, 'the calls computing the amplitudes were not recognised')
    # make_cluster_objects: durations, first amps file
    S, saved2, mc = alf_run(repo, 'make_cluster_objects')
    for r in S.reports:
        ctx.violated('C14.U2', r.fi, r.node, '[make_cluster_objects] %s' % r.msg)
    a = saved2.get('clusters.peakToTrough.npy', (None, None))[1]
    if isinstance(a, Arr) and isinstance(a.elem, Q):
        ctx.check(a.axes == (Clu,) and a.elem.d() == {'s': 1, 'kilo': 1}, 'C14.U2', mc, 'clusters.peakToTrough', 'clusters.peakToTrough: one duration in milliseconds per cluster id',
                  'clusters.peakToTrough is %s, expected milliseconds per cluster id' % a, value=a)
    else:
        ctx.undecided('C14.U2', mc, 'clusters.peakToTrough not typed (%s)' % a)
    blanked(ctx, repo, mc, saved2.get('clusters.peakToTrough.npy', (None, None))[1], 'C14.U2', 'durations')
    a = saved2.get('clusters.amps.npy', (None, None))[1]
    if isinstance(a, Arr) and isinstance(a.elem, Q):
        ctx.check(a.elem.d().get('F') == 1, 'C14.U2', mc, 'clusters.amps (cluster objects)', 'the cluster amplitudes written by make_cluster_objects carry the unit factor',
                  'the cluster amplitudes written by make_cluster_objects have dimension %s (unit factor missing)' % a.elem, value=getattr(a, 'elem', a))
    a = saved2.get('clusters.channels.npy', (None, None))[1]
    ctx.check(isinstance(a, Arr) and a.axes == (Clu,) and isinstance(a.elem, Ix) and a.elem.space is Chan, 'C14.U2', mc, 'clusters.channels', 'clusters.channels = peak channel per cluster id', 'clusters.channels is %s' % a, value=a)
    # make_depths
    cd_any = None
    for nofeat in (False, True):
        S, saved3, md = alf_run(repo, 'make_depths', attrs=model_attrs(no_features=nofeat))
        lab = 'no feature file' if nofeat else 'features present'
        for r in S.reports:
            ctx.violated('C14.U2', r.fi, r.node, '[make_depths, %s] %s' % (lab, r.msg))
        cd = saved3.get('clusters.depths.npy', (None, None))[1]
        cd_any = cd if isinstance(cd, Arr) else cd_any
        sd = saved3.get('spikes.depths.npy', (None, None))[1]
        if isinstance(cd, Arr) and isinstance(cd.elem, Q) and not any(is_unk(x) for x in cd.axes):
            ctx.check(cd.axes == (Clu,) and cd.elem.d() == {'um': 1} and 'xy:1' in cd.elem.tags, 'C14.U2', md, 'clusters.depths (%s)' % lab,
                      'clusters.depths = y coordinate (um) of the peak channel of every cluster id', 'clusters.depths is %s, expected the y coordinate of the peak channel per cluster id' % cd, value=cd)
        else:
            ctx.undecided('C14.U2', md, 'clusters.depths not typed (%s)' % cd)
        if isinstance(sd, Arr) and isinstance(sd.elem, Q) and not any(is_unk(x) for x in sd.axes) and not (nofeat and not (isinstance(cd, Arr) and not any(is_unk(x) for x in cd.axes))):
            ok = sd.axes == (Spike,) and sd.elem.d() == {'um': 1} and 'xy:1' in sd.elem.tags
            if nofeat:
                ok = ok and 'gather:Clu' in sd.elem.tags
            ctx.check(ok, 'C14.U2', md, 'spikes.depths (%s)' % lab, 'spikes.depths = %s, one depth (um, y) per spike' % ('depth of the spike\'s cluster' if nofeat else 'feature-weighted depth'),
                      'spikes.depths is %s, expected %s per spike' % (sd, 'clusters_depths[spike_clusters]' if nofeat else 'the feature-weighted y depth'))
        else:
            ctx.undecided('C14.U2', md, 'spikes.depths not typed (%s)' % sd)
    md = repo.lookup_method(cls, 'make_depths')
    blanked(ctx, repo, md, cd_any, 'C14.U2', 'depths')
    br = [i for i in md.nodes(ast.If) if Pat().any(['self.model.sparse_features is None', 'not self.model.sparse_features is None', 'self.model.sparse_features is not None',
                                                   'not (self.model.sparse_features is None)', 'not (self.model.sparse_features is not None)'], i.test)]
    anyf = [i for i in md.nodes(ast.If)]
    if br:
        is_none = Pat().any(['self.model.sparse_features is None', 'not (self.model.sparse_features is not None)', 'not self.model.sparse_features is not None'], br[0].test)
        none_b, some_b = (br[0].body, br[0].orelse) if is_none else (br[0].orelse, br[0].body)
        has_gd = lambda blk: any(isinstance(c, ast.Call) and q.method_name(c) == 'get_depths' for x in blk for c in ast.walk(x))
        if has_gd(some_b) and not has_gd(none_b):
            ctx.holds('C14.U2', md, 'the cluster depth is used for spikes exactly when no features exist', br[0].test)
        elif has_gd(none_b) and not has_gd(some_b):
            ctx.violated('C14.U2', md, br[0].test, 'the feature-weighted depths are requested when NO features exist and the cluster depths are used when they do (`%s`)' % unparse(br[0].test))
        else:
            ctx.undecided('C14.U2', md, 'branches of the depth fallback not recognised', br[0].test)
    elif not anyf:
        ctx.violated('C14.U2', md, 'make_depths', 'the fallback to cluster depths is not conditioned on the absence of features')
    else:
        ctx.undecided('C14.U2', md, 'the condition selecting between feature-weighted depths and cluster depths was not recognised')
    s1_rawind(ctx)
    m1_model_side(ctx)


LEVEL_TEXT = ('Static typing of the ALF value exports (dimension with unit factor, milliseconds, micrometres on the y coordinate, index spaces of '
              'loop indices vs peak-channel tables, ascending same-probe channel order) and an inductive normal-form comparison of the raw-index '
              'offset recurrence of the exporter with the one of the merger.')
LEVEL_NOTE = ('Trusted: NumPy transfer rules, normal forms, attribute signatures, C12.S3 for the probe labels. Not decided: values, tie order.')
TECHNIQUE = 'static analysis: abstract interpretation (unit / index-space typing) and symbolic recurrence comparison'
