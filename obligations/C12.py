"""C12 - merged channel and template arrays are block-structured by probe.

Decided
  S1  write_templates: header shape = (sum of template counts, n_samples, sum of channel counts); the block of probe i is
      written at column base J_i with J_0 = 0 and J_{i+1} = J_i + (channel count of probe i) (cumulative, any number of
      probes), zeros elsewhere, rows in (probe, template) order, each row `templates_i[t]`
  S2  write_template_data: pc_feature_ind (channel indices) is shifted per probe by the cumulative CHANNEL COUNT of the
      previous probes, template_feature_ind (template indices) by the TEMPLATE offsets; each probe's table is paired with
      its own offset; the cumulative channel count recorded in write_channel_data is the accumulator before the probe,
      growing by the probe's channel count, from 0
  S3  channel_probe block k is the constant k on the channels of probe k (enumeration in input order); channel maps and
      probe labels are concatenated in input order; positions: only x is changed, by an accumulator computed from the already
      shifted probe as 2*max - min (>= its max x); optional matrices are block_diag of the per-probe matrices in input order
  D1  merged params: n_channels_dat = sum over the probes, everything else (sampling rate) from the first probe
  +   (the probe list itself is the caller's, in the caller's order: shared rule of C11)
  +   S2: the index tables are widened to a 64-bit integer type before the per-probe offset is added (no arithmetic in the stored dtype)
Not decided: that the x-translation separates degenerate (zero-width) probes; presence combinations of optional files.
"""
import ast

from vlib import q, proto
from vlib.proto import C, T, is_c, is_t, show, subterms
from vlib.sym import Lin, equal, NF
from vlib.pat import Pat, returned
from vlib.front import unparse, dotted, const_value, AnchorMissing
from obligations.C11 import MI, _strip

MG = 'phylib/io/merge.py'
FLOOR = 11          # decided obligations below this = the analysis lost its footing (exit 2); clean tree: 30
RULES = ('C12.D1', 'C12.S1', 'C12.S2', 'C12.S3')          # every obligation group must report (holds / violated / undecided): a group that vanishes silently is an analysis error
EXPLANATION = ('proto/sym walks of the Merger channel/template methods: loop bodies are walked from symbolic accumulator states and the '
               'column base / offsets / recorded values compared as normal forms with the cumulative-size recurrences of the specification; '
               'saved arrays are traced to concat / block_diag of the per-probe files in input order')
TRUSTED = ['python ast', 'np.concatenate / scipy.linalg.block_diag / slicing semantics', 'C11 (template offsets are the template shifts)']
ASSUMPTIONS = ['probe coordinates are non-negative and each probe has positive width in x']


def s1_templates(ctx):
    repo = ctx.repo
    cls = repo.cls(MG, 'Merger')
    f = repo.lookup_method(cls, 'write_templates')
    me = T('self')
    # header shape
    sums = {}
    for a in f.nodes(ast.Assign):
        v = a.value
        if isinstance(v, ast.Call) and dotted(v.func) == 'sum' and v.args and isinstance(v.args[0], ast.GeneratorExp):
            g = v.args[0]
            sums[unparse(a.targets[0])] = (unparse(g.elt).replace(' ', ''), unparse(g.generators[0].iter), unparse(g.generators[0].target))
    tl = None
    for a in f.nodes(ast.Assign):
        if isinstance(a.value, ast.Call) and dotted(a.value.func) == '_load_multiple_files' and const_value(a.value.args[0]) == 'templates.npy':
            tl = unparse(a.targets[0])
            d_x = f.expand(a.value.args[1]) if len(a.value.args) > 1 else None
            ctx.tri(d_x is not None and Pat().m('self.subdirs', d_x),
                    d_x is not None and any(isinstance(n, ast.Attribute) and n.attr == 'subdirs' for n in ast.walk(d_x)) and
                    any((isinstance(n, ast.Call) and (dotted(n.func) or '') in ('sorted', 'reversed', 'set')) or isinstance(n, (ast.Slice, ast.ListComp)) for n in ast.walk(d_x)),
                    'C12.S1', f, a, 'per-probe templates are loaded in input order', 'templates are not loaded from self.subdirs in order (`%s`)' % (unparse(d_x) if d_x is not None else ''),
                    'the directories the templates are loaded from were not recognised')
    if tl is None:
        ctx.undecided('C12.S1', f, 'templates.npy of the inputs is not loaded with _load_multiple_files')
        return
    shp = [a for a in f.nodes(ast.Assign) if isinstance(a.value, ast.Tuple) and len(a.value.elts) == 3]
    ok = False
    if shp:
        n0, n1, n2 = (unparse(e) for e in shp[0].value.elts)
        ok = sums.get(n0, ('',))[0].endswith('.shape[0]') and sums.get(n0)[1] == tl and sums.get(n2, ('',))[0].endswith('.shape[2]') and sums.get(n2)[1] == tl
        nchan_name, nsamp_name = n2, n1
    def total_of(name, k):
        """'good' when local `name` is the sum over the probes of templates.shape[k] (sum(generator) or the last entry of a running-total list), 'bad' when it is such a
        sum of ANOTHER axis / list, None when not recognised"""
        if name in sums:
            elt, it_, _ = sums[name]
            if elt.endswith('.shape[%d]' % k) and it_ == tl:
                return 'good'
            return 'bad' if '.shape[' in elt else None
        d_ = f.unique_def(name) if name.isidentifier() else None
        if d_ is not None and (Pat().any(['max(REST)', 'len(%s)' % tl, 'np.max(REST)'], d_) or
                               any(isinstance(n_, ast.Subscript) and Pat().m('%s[E_i].shape[E_k]' % tl, n_) and const_value(n_.value.value.slice) is not None for n_ in ast.walk(d_))):
            return 'bad'          # one probe's extent (or a maximum / a count of probes) instead of the total over the probes
        if d_ is not None:
            PB = Pat(f)
            if PB.m('V_b[-1]', d_):
                b_ = PB.name('V_b')
                for lp_ in f.nodes(ast.For):
                    if unparse(lp_.iter) == tl and isinstance(lp_.target, ast.Name):
                        for st_ in lp_.body:
                            P2 = Pat()
                            for kk in (0, 1, 2):
                                if Pat().m('%s.append(%s[-1] + %s.shape[%d])' % (b_, b_, lp_.target.id, kk), st_.value if isinstance(st_, ast.Expr) else st_):
                                    return 'good' if kk == k else 'bad'
        return None
    if shp:
        t0, t2 = total_of(n0, 0), total_of(n2, 2)
        ctx.tri(t0 == 'good' and t2 == 'good', 'bad' in (t0, t2), 'C12.S1', f, shp[0], 'merged templates have (sum of template counts, n_samples, sum of channel counts) entries',
                'the merged templates shape is not (sum shape[0], n_samples, sum shape[2]) over the probes', 'how the merged template / channel counts are totalled was not recognised')
    else:
        ctx.undecided('C12.S1', f, 'the header shape of the merged templates was not recognised')
    hdr = [c for c in f.calls() if dotted(c.func) == 'np.save' and len(c.args) >= 2]
    opens = [w_ for w_ in f.nodes(ast.With) for it_ in w_.items if isinstance(it_.context_expr, ast.Call) and dotted(it_.context_expr.func) == 'open' and it_.optional_vars is not None]
    fid_name = unparse(opens[0].items[0].optional_vars) if opens else 'fid'
    opened = unparse(opens[0].items[0].context_expr.args[0]) if opens and opens[0].items[0].context_expr.args else None
    shape_name = unparse(shp[0].targets[0]) if shp else 'shape'
    if not hdr or not opens:
        ctx.undecided('C12.S1', f, 'creation of the merged templates file (np.save of an empty array, then open) not recognised')
    else:
        alloc = hdr[0].args[1]
        g = unparse(hdr[0].args[0]) == opened and isinstance(alloc, ast.Call) and dotted(alloc.func) in ('np.empty', 'np.zeros') and alloc.args and unparse(alloc.args[0]) == shape_name
        b_ = not g and isinstance(alloc, ast.Call) and dotted(alloc.func) in ('np.empty', 'np.zeros') and alloc.args and (unparse(alloc.args[0]) != shape_name or unparse(hdr[0].args[0]) != opened)
        if g:
            ctx.holds('C12.S1', f, 'the file header is written for that shape', hdr[0])
        elif b_:
            ctx.violated('C12.S1', f, hdr[0], 'the .npy header is not written for the merged shape on the file that is then filled (`%s`)' % unparse(hdr[0])[:90])
        else:
            ctx.undecided('C12.S1', f, 'header write `%s` not recognised' % unparse(hdr[0])[:60], hdr[0])
    # loops
    loops = f.nodes(ast.For)
    TL, i, it = T('TL'), T('i'), T('it')
    extra_env = {}
    outer = [l for l in loops if unparse(l.iter).replace(' ', '') in ('range(len(self.subdirs))', 'range(len(%s))' % tl)]
    elem_name = None
    if outer:
        lp = outer[0]
        ivar = unparse(lp.target)
    else:
        # direct iteration over the per-probe arrays: `for templates_i in templates_l` / `for i, templates_i in enumerate(templates_l)`
        direct = [l for l in loops if (isinstance(l.iter, ast.Name) and l.iter.id == tl and isinstance(l.target, ast.Name)) or
                  (isinstance(l.iter, ast.Call) and dotted(l.iter.func) == 'enumerate' and l.iter.args and unparse(l.iter.args[0]) == tl and isinstance(l.target, ast.Tuple) and len(l.target.elts) == 2)]
        if not direct:
            ctx.undecided('C12.S1', f, 'no loop over the probes (`for i in range(len(self.subdirs))` / `for templates_i in templates_l`)')
            return
        lp = direct[0]
        if isinstance(lp.target, ast.Tuple):
            ivar, elem_name = unparse(lp.target.elts[0]), unparse(lp.target.elts[1])
        else:
            ivar, elem_name = '_probe_index', unparse(lp.target)
        extra_env[elem_name] = T('index', TL, i)
    inner = [l for l in lp.body if isinstance(l, ast.For)]
    if not inner:
        ctx.undecided('C12.S1', f, 'no inner loop over the templates of a probe')
        return
    il = inner[0]
    elem_txts = ['%s[%s]' % (tl, ivar)] + ([elem_name] if elem_name else [])
    idx_forms = [t_ % e_ for e_ in elem_txts for t_ in ('np.arange(%s.shape[0])', 'range(%s.shape[0])', 'range(len(%s))')]
    it_txt = unparse(il.iter).replace(' ', '')
    if it_txt in idx_forms:
        ctx.holds('C12.S1', f, 'every template of probe i is written once, in order', il.iter)
    elif it_txt in elem_txts and isinstance(il.target, ast.Name):
        ctx.holds('C12.S1', f, 'every template of probe i is written once, in order (direct iteration over the templates of the probe)', il.iter)
        extra_env[il.target.id] = T('index', T('index', TL, i), it)
    elif any(x in it_txt for x in ('[::-1]', 'reversed(', '[1:]', '[:-1]', '-1)')):
        ctx.violated('C12.S1', f, il.iter, 'the inner loop does not run over all templates of probe i in order (`%s`)' % unparse(il.iter))
    else:
        ctx.undecided('C12.S1', f, 'inner loop `%s` over the templates of a probe not recognised' % unparse(il.iter), il.iter)
    # accumulator names: any Name assigned in the outer loop body before the inner loop and read in the store
    pre = [s_ for s_ in lp.body if s_ is not il and lp.body.index(s_) < lp.body.index(il)]
    assigned = [unparse(t) for s_ in pre if isinstance(s_, ast.Assign) for t in s_.targets]
    carried = [n for n in assigned if any(isinstance(x, ast.Name) and x.id == n for s_ in pre for x in ast.walk(s_.value) if isinstance(s_, ast.Assign)) or True]
    env = {f.params[0]: me, tl: TL, ivar: i, unparse(il.target): it, nchan_name: T('NCH'), nsamp_name: T('NS'), fid_name: T('fid')}
    env.update(extra_env)
    for n in assigned:
        env[n] = T('pre', n)
    nch_i = T('index', T('attr', T('index', TL, i), 'shape'), C(2))
    binds = {nch_i: Lin.atom(('nch_i',)), T('NCH'): Lin.atom(('NCH',))}
    for n in assigned:
        binds[T('pre', n)] = Lin.atom(('pre', n))
    I = MI(repo, unroll=1, inline_depth=0, binds=binds)
    I.pure |= {'np.zeros'}

    class W(MI):
        def on_method(self, call, name, recv, args, kwargs, st):
            if call.func.attr == 'write':
                return [('ok', C(None), st.emit('fwrite', args[0] if args else None))]
            if call.func.attr == 'tobytes':
                return [('ok', T('bytes', recv), st)]
            return super().on_method(call, name, recv, args, kwargs, st)
    I = W(repo, unroll=1, inline_depth=0, binds=binds)
    I.pure |= {'np.zeros'}
    I.fi_stack = [f]
    I._pending = []
    body = pre + list(il.body)
    outs = I.block(body, proto.State(env))
    ctx.analysed['paths'] += len(outs)
    done = False
    for kind, val, st in outs:
        if kind != 'fall':
            continue
        sets = [e for e in st.trace if e[0] == 'setitem']
        wr = [e for e in st.trace if e[0] == 'fwrite']
        if len(sets) != 1 or len(wr) != 1:
            ctx.violated('C12.S1', f, il, 'a template row is not built by one block store and written once (stores: %d, writes: %d)' % (len(sets), len(wr)))
            continue
        _, base, txt, value, key = sets[0]
        okz = is_t(base) and base[1] == 'call' and base[2] == 'np.zeros'
        ctx.check(okz and _strip(wr[0][1]) == T('bytes', _strip(base)), 'C12.S1', f, il, 'each row starts from zeros over all merged channels and is written after its block is filled',
                  'the row written is not the zero-initialised row that received the block')
        if okz:
            shp_t = base[4]
            span_ok = is_t(shp_t) and shp_t[1] == 'tuple' and shp_t[3] == T('NCH')
            # recognised wrong extents: a constant, or the channel count of one probe's table (`<x>.shape[2]`); anything else (e.g. a component of a shape tuple
            # computed by a helper) is not followed
            span_bad = is_t(shp_t) and shp_t[1] == 'tuple' and len(shp_t) > 3 and (is_c(shp_t[3]) or (
                is_t(shp_t[3]) and shp_t[3][1] == 'index' and shp_t[3][3] == C(2) and is_t(shp_t[3][2]) and shp_t[3][2][1] == 'attr' and shp_t[3][2][3] == 'shape'))
            ctx.tri(span_ok, span_bad, 'C12.S1', f, il, 'a row spans all merged channels', 'a row does not span the merged channel count',
                    'the channel extent of a row (%s) was not recognised as the merged channel count' % (show(shp_t[3])[:60] if is_t(shp_t) and len(shp_t) > 3 else show(shp_t)[:60]))
        if not (is_t(key) and key[1] == 'tuple' and len(key) == 4 and key[2] == T('slice3', C(None), C(None), C(None)) and is_t(key[3]) and key[3][1] == 'slice3'):
            ctx.undecided('C12.S1', f, 'block store is not row[:, j0:j1] (%s)' % txt, il)
            continue
        j0, j1 = I.nf(key[3][2]), I.nf(key[3][3])
        width = j1 - j0
        ctx.check(equal(width, Lin.atom(('nch_i',))), 'C12.S1', f, 'block width', 'the block of probe i is as wide as its channel count',
                  'the block of probe i has width %s, not its channel count' % width)
        # j0 must be a carried accumulator (value before this probe) ...
        carr = [n for n in assigned if equal(j0, Lin.atom(('pre', n)))]
        if not carr:
            ctx.violated('C12.S1', f, txt, 'the first column of the block of probe i is %s: not the running sum of the channel counts of the previous probes '
                         '(correct for two probes at most)' % j0)
        else:
            acc = carr[0]
            nxt = I.nf(st.env.get(acc))
            ctx.check(equal(nxt, Lin.atom(('pre', acc)) + Lin.atom(('nch_i',))), 'C12.S1', f, acc,
                      'column base recurrence: base(i+1) = base(i) + channel count of probe i (cumulative for any number of probes)',
                      'column base after probe i is %s, expected base + channel count of probe i' % nxt)
            # initial value 0 before the outer loop
            init = None
            for a in ast.walk(f.node):
                if isinstance(a, ast.Assign) and unparse(a.targets[0]) == acc and not q.contains(lp, a):
                    init = const_value(a.value)
            ctx.check(init == 0, 'C12.S1', f, acc, 'the column base starts at 0', 'the column base %s is not initialised to 0 before the probe loop' % acc)
        want = T('index', T('index', TL, i), T('tuple', it, T('slice3', C(None), C(None), C(None))))
        want2 = T('index', T('index', TL, i), it)
        ctx.check(value in (want, want2), 'C12.S1', f, 'block value', 'the block holds template `it` of probe i', 'the block is filled with %s, not templates_i[it]' % show(value)[:60])
        done = True
    if not done:
        ctx.undecided('C12.S1', f, 'no complete path through the row construction')


def s2_template_data(ctx):
    repo = ctx.repo
    cls = repo.cls(MG, 'Merger')
    f = repo.lookup_method(cls, 'write_template_data')
    me = T('self')
    outs = MI(repo, unroll=2, inline_depth=0).run(f, env={f.params[0]: me})
    ctx.analysed['paths'] += len(outs)
    pairing = {}
    narrow_all = []
    probs = []
    saved_names = {e[1][1] for kind, val, st in outs for e in st.trace if e[0] == 'save' and is_c(e[1])}
    unknown_saves = any(e[0] == 'save' and not is_c(e[1]) for kind, val, st in outs for e in st.trace)
    def subst_list(t, items):
        if t == T('list'):
            return T('list', *items)
        if is_t(t):
            return T(t[1], *[subst_list(x, items) for x in t[2:]])
        return t
    for kind, val, st in outs:
        pending = []            # values appended to a local list since the last save (a loop that builds the list the helper concatenates)
        for e in st.trace:
            if e[0] == 'append' and len(e) >= 4 and e[1] == T('list'):
                pending.append(e[3])
                continue
            if e[0] != 'save' or not is_c(e[1]):
                continue
            name, arr = e[1][1], e[2]
            if pending and any(x == T('list') for x in subterms(arr)):
                arr = subst_list(arr, pending)
            pending = []
            zs = [x for x in subterms(arr) if is_t(x) and x[1] == 'call' and x[2] == 'zip']
            adds = [x for x in subterms(arr) if is_t(x) and x[1] == 'Add']
            narrow_ = narrow_all
            if not zs:
                empties = [x for x in subterms(arr) if x == T('list')]
                if not empties:
                    probs.append('%s is saved without pairing the per-probe tables with per-probe offsets' % name)
                continue
            z = _strip(zs[0])
            if z[3] != T('call', '_load_multiple_files', C(name), T('attr', me, 'subdirs')):
                probs.append('%s is built from %s, not from that file of every input in order' % (name, show(z[3])[:60]))
            off = z[4]
            pairing[name] = off[3] if is_t(off) and off[1] == 'attr' and off[2] == me else show(off)
            for a in adds:
                l, r = a[2], a[3]
                items = [x for x in subterms(a) if is_t(x) and x[1] == 'item']
                okp = any(x[3] == C(0) for x in items) and any(x[3] == C(1) for x in items) and len({x[2] for x in items}) == 1
                if not okp:
                    probs.append('%s: a table is not shifted by the offset of its own probe' % name)
                # the shift is computed in a WIDE integer type: the tables are stored in whatever dtype the sorter chose (uint8 / int16 happen), and table + offset in that
                # dtype wraps silently once the merged numbering exceeds its range
                txt_ = show(a)
                wide = 'astype' in txt_ and any(w_ in txt_ for w_ in ('int64', 'np.int_', 'name(int)', 'uint64', 'np.intp'))
                if okp and not wide:
                    narrow_.append('%s: the per-probe offset is added to the table in its STORED dtype (`%s`): with a narrow stored dtype (uint8, int16) the shifted indices wrap around '
                                   'before the final cast' % (name, txt_[:70]))
            if not adds:
                probs.append('%s: tables are concatenated without adding the per-probe offset' % name)
            cat = [x for x in subterms(arr) if is_t(x) and x[1] == 'call' and x[2] == '_concat']
            if not cat:
                probs.append('%s: shifted tables are not concatenated' % name)
    if narrow_all:
        ctx.violated('C12.S2', f, 'shift dtype', sorted(set(narrow_all))[0])
    elif pairing:
        ctx.holds('C12.S2', f, 'the index tables are widened to a 64-bit integer type before the per-probe offset is added', 'shift dtype')
    want = {'pc_feature_ind.npy': 'channel_index_offsets', 'template_feature_ind.npy': 'template_offsets'}
    for name, attr in want.items():
        got = pairing.get(name)
        if got is None and name in saved_names:
            continue                # saved, but only on paths without any probe (nothing to pair): the general problems above decide
        if got is None and unknown_saves:
            ctx.undecided('C12.S2', f, '%s: no save of that name was recognised (a file is saved under a name that is not a constant)' % name)
        elif got is None:
            ctx.violated('C12.S2', f, name, '%s is not written by write_template_data' % name)
        else:
            ctx.check(got == attr, 'C12.S2', f, '%s <- %s' % (name, got), '%s is shifted by self.%s' % (name, attr),
                      '%s holds %s but is shifted by self.%s (%s)' % (name, 'channel indices (positions in the merged channel arrays)' if 'pc_' in name else 'template indices', got,
                                                                     'raw channel-map offsets are off by one per probe and unrelated to template numbering' if got == 'channel_offsets' else 'wrong numbering'))
    for pmsg in sorted(set(probs))[:3]:
        ctx.violated('C12.S2', f, pmsg[:120], pmsg)
    if not probs:
        ctx.holds('C12.S2', f, 'each index table = concat over probes of (table of probe k + offset of probe k)', 'write_template_data')
    # recurrence of channel_index_offsets in write_channel_data
    g = repo.lookup_method(cls, 'write_channel_data')
    loops = g.nodes(ast.For)
    if not loops:
        ctx.undecided('C12.S2', g, 'no probe loop in write_channel_data')
        return
    lp = loops[0]
    pl = probe_loop(lp)
    if pl is None:
        ctx.undecided('C12.S2', g, 'probe loop is neither `for k, arr in enumerate(list)` nor `for arr in list`', lp)
        return
    ind, arr, src_e = pl
    srcname = unparse(src_e)
    src_x = g.expand(src_e)
    ctx.tri(Pat().m("_load_multiple_files('channel_map.npy', self.subdirs)", src_x),
            Pat().m('_load_multiple_files(E_f, E_d)', src_x) and not Pat().m("_load_multiple_files('channel_map.npy', self.subdirs)", src_x) and
            (isinstance(src_x.args[0], ast.Constant) and (src_x.args[0].value != 'channel_map.npy' or any(isinstance(n, ast.Call) and (dotted(n.func) or '') in ('sorted', 'reversed') or
                                                                                                     (isinstance(n, ast.Slice)) for n in ast.walk(src_x.args[1])))),
            'C12.S3', g, lp.iter, 'probes are enumerated over their channel maps in input order', 'the probe loop does not enumerate the channel maps of the inputs in order (`%s`)' % unparse(src_x)[:70],
            'the sequence the probe loop runs over was not recognised')
    accs = [unparse(a.targets[0]) for a in g.body() if isinstance(a, ast.Assign) and const_value(a.value) == 0 and isinstance(a.targets[0], ast.Name)]
    ARR, k = T('ARR'), T('k')
    env = {g.params[0]: me, arr: ARR}
    if ind is not None:
        env[ind] = k
    binds = {ARR: Lin.atom(('arr',)), k: Lin.atom(('k',))}
    for a in accs:
        env[a] = T('acc', a)
        binds[T('acc', a)] = Lin.atom(('acc', a))
    for n_ in [a for a in g.body() if isinstance(a, ast.Assign) and isinstance(a.value, ast.List) and isinstance(a.targets[0], ast.Name)]:
        env[unparse(n_.targets[0])] = T('listvar', unparse(n_.targets[0]))
    I = MI(repo, unroll=1, inline_depth=0, binds=binds)
    I.fi_stack = [g]
    I._pending = []
    outs = I.block(lp.body, proto.State(env))
    for kind, val, st in outs:
        if kind != 'fall':
            continue
        rec = [e for e in st.trace if e[0] == 'append' and e[2] == 'channel_index_offsets']
        if len(rec) != 1:
            ctx.violated('C12.S2', g, 'channel_index_offsets', 'write_channel_data does not record one first-channel index per probe (self.channel_index_offsets)')
        else:
            v = I.nf(rec[0][3])
            acc = [a for a in accs if equal(v, Lin.atom(('acc', a)))]
            if not acc:
                ctx.violated('C12.S2', g, 'channel_index_offsets', 'the first-channel index recorded for a probe is %s, not the number of channels of the previous probes' % v)
            else:
                a = acc[0]
                new = st.env.get(a)
                # increment must be the channel count of this probe
                okinc = False
                if is_t(new) and new[1] == 'Add' and T('acc', a) in new[2:]:
                    inc = [x for x in new[2:] if x != T('acc', a)][0]
                    def base_of(x):
                        return any(y == ARR for y in subterms(x))
                    okinc = (is_t(inc) and inc[1] == 'index' and inc[3] == C(0) and is_t(inc[2]) and inc[2][1] == 'attr' and inc[2][3] == 'shape' and base_of(inc[2][2])) or \
                        (is_t(inc) and inc[1] == 'call' and inc[2] == 'len' and base_of(inc)) or (is_t(inc) and inc[1] == 'attr' and inc[3] == 'size' and base_of(inc))
                ctx.check(okinc, 'C12.S2', g, a, 'the first-channel index grows by the channel count of each probe, from 0 (cumulative for any number of probes)',
                          'the channel counter after a probe is %s, expected previous + number of channels of the probe' % show(new)[:70])
        # S3 probe labels
        lab = [e for e in st.trace if e[0] == 'append' and e[2] not in ('channel_index_offsets', 'channel_offsets')]
        if not lab:
            # labels built outside the loop (one comprehension over the maps, through a helper or not): `np.full_like(a, k) for k, a in enumerate(maps)`
            made = None
            for f_ in repo.transparent_closure(g):
                for lc in f_.nodes(ast.ListComp, ast.GeneratorExp):
                    g0 = lc.generators[0]
                    pk = Pat(f_)
                    if len(lc.generators) == 1 and not g0.ifs and pk.m('enumerate(E_maps)', g0.iter) and isinstance(g0.target, ast.Tuple) and len(g0.target.elts) == 2 and \
                            all(isinstance(x, ast.Name) for x in g0.target.elts):
                        kk, aa = g0.target.elts[0].id, g0.target.elts[1].id
                        if Pat(f_).any(['np.full_like(%s, %s)' % (aa, kk), 'np.full(%s.shape, %s)' % (aa, kk), '%s * 0 + %s' % (aa, kk), 'np.zeros_like(%s) + %s' % (aa, kk),
                                        'np.full(%s.shape, %s, dtype=ANY)' % (aa, kk), 'np.full_like(%s, %s, dtype=ANY)' % (aa, kk)], lc.elt):
                            made = made or ('ok', lc)
                        elif {n.id for n in ast.walk(lc.elt) if isinstance(n, ast.Name)} <= {kk, aa, 'np'}:
                            made = ('bad', lc)
            if made is not None and made[0] == 'ok':
                ctx.holds('C12.S3', g, 'channel_probe block k is the constant k with the shape of the channel map of probe k', made[1])
            elif made is not None:
                ctx.violated('C12.S3', g, made[1], 'the label block of probe k is `%s`, not the constant k on its channels' % unparse(made[1].elt))
            else:
                ctx.undecided('C12.S3', g, 'construction of the per-probe label blocks not recognised')
            continue
        okl = False
        why = 'no per-probe block of probe labels'
        for e in lab:
            v = e[3]
            val_nf = NF({ARR: Lin.atom(('arr',)), k: Lin.atom(('k',)), T('Add', ARR, T('acc', 'offset')): Lin.atom(('arr2',))})(v)
            shaped = any(y == ARR for y in subterms(v))
            nfv = I.nf(v)
            # array * 0 + ind  -> prod(arr, 0) vanishes: nf == k
            if equal(nfv, Lin.atom(('k',))) and shaped:
                okl = True
            elif is_t(v) and v[1] == 'call' and v[2] in ('np.full', 'np.full_like') and len(v) >= 6 and v[5] == k and shaped:
                okl = True
            else:
                why = 'the label block of probe k is %s, not the constant k on its channels' % show(v)[:60]
        ctx.check(okl, 'C12.S3', g, 'channel_probes', 'channel_probe block k is the constant k with the shape of the channel map of probe k', why)
    outs = MI(repo, unroll=1, inline_depth=0).run(g, env={g.params[0]: me})
    saved = {}
    for kind, val, st in outs:
        for e in st.trace:
            if e[0] == 'save' and is_c(e[1]):
                saved[e[1][1]] = _strip(e[2])
    for nm in ('channel_map.npy', 'channel_probe.npy'):
        v = saved.get(nm)
        ctx.check(v is not None and is_t(v) and v[1] == 'call' and v[2] == '_concat', 'C12.S3', g, nm, '%s = concatenation of the per-probe blocks in input order' % nm,
                  '%s is not the concatenation of the per-probe blocks' % nm)


def probe_loop(lp):
    """(index name or None, array name, iterated list expression) of a per-probe loop `for k, arr in enumerate(L)` / `for arr in L`; None otherwise."""
    if isinstance(lp.iter, ast.Call) and dotted(lp.iter.func) == 'enumerate' and len(lp.iter.args) == 1 and isinstance(lp.target, ast.Tuple) and len(lp.target.elts) == 2 and \
            all(isinstance(x, ast.Name) for x in lp.target.elts):
        return lp.target.elts[0].id, lp.target.elts[1].id, lp.iter.args[0]
    if isinstance(lp.target, ast.Name) and isinstance(lp.iter, ast.Name):
        return None, lp.target.id, lp.iter
    return None


def _positions_loop(ctx, g):
    """The probe loop of write_channel_positions, evaluated symbolically: with X the x column of a probe as loaded, a the running offset, the body is walked
    statement by statement (view aliases `x = array[:, 0]` are followed) keeping the shift applied to the x column and every scalar as a linear form over
    {a, max X, min X}. Decided: only the x column changes, by +a; the next offset a' satisfies a' - (a + max X) = alpha * (max X - min X) + delta with
    alpha, delta >= 0 and not both 0 (the next probe starts beyond the largest shifted x of this one); a starts at 0."""
    loops = [l for l in g.nodes(ast.For) if isinstance(l.target, ast.Name)]
    if not loops:
        return ctx.undecided('C12.S3', g, 'no probe loop in write_channel_positions')
    lp = loops[0]
    arr = lp.target.id
    A, MX, MN = Lin.atom(('a',)), Lin.atom(('maxX',)), Lin.atom(('minX',))
    P0 = Pat(g)
    views = {}          # local name -> column index of the loop array it is a view of

    def column(e):
        """Column of `arr` a (sub)expression denotes: int, 'all' for the whole array / several columns, None when it is not the array."""
        if isinstance(e, ast.Name) and e.id == arr:
            return 'all'
        if isinstance(e, ast.Name) and e.id in views:
            return views[e.id]
        if isinstance(e, ast.Subscript) and isinstance(e.value, ast.Name) and e.value.id == arr:
            sl = e.slice
            if isinstance(sl, ast.Tuple) and len(sl.elts) == 2 and isinstance(sl.elts[0], ast.Slice) and sl.elts[0].lower is None and sl.elts[0].upper is None and sl.elts[0].step is None:
                c = const_value(sl.elts[1])
                return c if isinstance(c, int) else 'all'
            if isinstance(sl, ast.Constant) and sl.value is Ellipsis:
                return 'all'
            return 'all'
        return None

    accs = {a.targets[0].id: a for a in g.body() if isinstance(a, ast.Assign) and isinstance(a.targets[0], ast.Name) and isinstance(const_value(a.value), (int, float))
            and not isinstance(const_value(a.value), bool)}
    env = {}            # scalar local -> Lin
    shift = {0: Lin.const(0)}
    state = {'other': None, 'unknown': None, 'acc': None}

    def ev(e):
        c = const_value(e)
        if isinstance(c, (int, float)) and not isinstance(c, bool):
            from fractions import Fraction
            return Lin.const(Fraction(c).limit_denominator(10 ** 6))
        if isinstance(e, ast.Name):
            if e.id in env:
                return env[e.id]
            if e.id in accs:
                state['acc'] = state['acc'] or e.id
                return A if e.id == state['acc'] else None
            return None
        if isinstance(e, ast.UnaryOp) and isinstance(e.op, (ast.USub, ast.UAdd)):
            v = ev(e.operand)
            return None if v is None else (-v if isinstance(e.op, ast.USub) else v)
        if isinstance(e, ast.BinOp) and isinstance(e.op, (ast.Add, ast.Sub)):
            l, r = ev(e.left), ev(e.right)
            return None if l is None or r is None else (l + r if isinstance(e.op, ast.Add) else l - r)
        if isinstance(e, ast.BinOp) and isinstance(e.op, ast.Mult):
            l, r = ev(e.left), ev(e.right)
            if l is None or r is None:
                return None
            if l.is_const():
                return r.scale(l.cval())
            if r.is_const():
                return l.scale(r.cval())
            return None
        if isinstance(e, ast.Call):
            how, operand = None, None
            if isinstance(e.func, ast.Attribute) and e.func.attr in ('max', 'min') and not e.args and not e.keywords and dotted(e.func) not in ('np.max', 'np.min'):
                how, operand = e.func.attr, e.func.value
            elif dotted(e.func) in ('np.max', 'np.min', 'np.amax', 'np.amin', 'max', 'min', 'np.nanmax', 'np.nanmin') and len(e.args) == 1 and not e.keywords:
                how, operand = ('max' if dotted(e.func).endswith('max') else 'min'), e.args[0]
            if how in ('max', 'min') and column(operand) == 0:
                return (MX if how == 'max' else MN) + shift[0]
            if dotted(e.func) in ('float', 'np.float64', 'np.float32') and len(e.args) == 1:
                return ev(e.args[0])
        if isinstance(e, ast.Call) and dotted(e.func) == 'np.ptp' and len(e.args) == 1 and column(e.args[0]) == 0:
            return MX - MN
        return None

    def walk(stmts):
        flat = []
        for st in stmts:
            # `a, b = x, y` with plain names on the left and no name of the left read on the right is `a = x; b = y`
            if isinstance(st, ast.Assign) and len(st.targets) == 1 and isinstance(st.targets[0], ast.Tuple) and isinstance(st.value, ast.Tuple) and \
                    len(st.targets[0].elts) == len(st.value.elts) and all(isinstance(t_, ast.Name) for t_ in st.targets[0].elts) and \
                    not ({t_.id for t_ in st.targets[0].elts} & {n.id for n in ast.walk(st.value) if isinstance(n, ast.Name)}):
                flat.extend(ast.copy_location(ast.Assign(targets=[t_], value=v_), st) for t_, v_ in zip(st.targets[0].elts, st.value.elts))
            else:
                flat.append(st)
        for st in flat:
            if isinstance(st, ast.Assign) and len(st.targets) == 1 and isinstance(st.targets[0], ast.Name):
                col = column(st.value)
                if col is not None:
                    views[st.targets[0].id] = col          # basic slicing: a view, stores through it reach the array
                    continue
                v = ev(st.value)
                nm = st.targets[0].id
                if nm in accs:
                    state['acc'] = state['acc'] or nm
                if v is None:
                    if nm in accs or any(isinstance(n, ast.Name) and (n.id == arr or n.id in views) for n in ast.walk(st.value)):
                        state['unknown'] = state['unknown'] or st
                    env.pop(nm, None)
                    if nm == state['acc']:
                        env[nm] = None
                else:
                    env[nm] = v
                continue
            tgt = st.target if isinstance(st, ast.AugAssign) else (st.targets[0] if isinstance(st, ast.Assign) and len(st.targets) == 1 else None)
            col = column(tgt) if tgt is not None else None
            if col is not None:
                if col == 0 and isinstance(st, ast.AugAssign) and isinstance(st.op, (ast.Add, ast.Sub)):
                    v = ev(st.value)
                    if v is None:
                        state['unknown'] = state['unknown'] or st
                    else:
                        shift[0] = shift[0] + (v if isinstance(st.op, ast.Add) else -v)
                elif col == 0 and isinstance(st, ast.Assign) and isinstance(st.value, ast.BinOp) and isinstance(st.value.op, (ast.Add, ast.Sub)) and column(st.value.left) == 0:
                    v = ev(st.value.right)          # array[:, 0] = array[:, 0] + a
                    if v is None:
                        state['unknown'] = state['unknown'] or st
                    else:
                        shift[0] = shift[0] + (v if isinstance(st.value.op, ast.Add) else -v)
                else:
                    state['other'] = state['other'] or st
                continue
            if isinstance(st, (ast.Expr, ast.Assert, ast.Pass)):
                if isinstance(st, ast.Expr) and any(isinstance(n, ast.Name) and (n.id == arr or n.id in views) for n in ast.walk(st.value)) and \
                        not (isinstance(st.value, ast.Call) and dotted(st.value.func) in ('logger.debug', 'logger.info', 'print')):
                    state['unknown'] = state['unknown'] or st
                continue
            state['unknown'] = state['unknown'] or st

    walk(lp.body)
    acc = state['acc']
    if state['other'] is not None:
        ctx.violated('C12.S3', g, state['other'], 'the geometry of a probe is changed by something else than a translation of its x column (`%s`)' % unparse(state['other'])[:80])
    elif state['unknown'] is not None or acc is None:
        ctx.undecided('C12.S3', g, 'the probe loop of write_channel_positions contains a statement that was not recognised', state['unknown'] or lp)
        return
    elif shift[0] == A:
        ctx.holds('C12.S3', g, 'only the x column of a probe is changed, by adding the running x offset (a translation)', lp)
    else:
        ctx.violated('C12.S3', g, lp, 'the x column of a probe is shifted by %s, not by the running offset' % shift[0])
    if state['unknown'] is None and acc is not None:
        new = env.get(acc, A)
        if new is None:
            ctx.undecided('C12.S3', g, 'the update of the x offset was not recognised')
        else:
            d = new - A - MX
            al, be, ga, de = d.d.get(('maxX',), 0), d.d.get(('minX',), 0), d.d.get(('a',), 0), d.d.get('1', 0)
            ok = ga == 0 and al == -be and al >= 0 and de >= 0 and (al > 0 or de > 0) and set(d.d) <= {('maxX',), ('minX',), ('a',), '1'}
            ctx.check(ok, 'C12.S3', g, accs[acc] if not ok else lp, 'next x offset = previous offset + max x + a non-negative multiple of the width of the probe (2*max - min of the already shifted probe): '
                      'the next probe starts beyond the largest x of this one',
                      'the x offset after a probe is %s (a = previous offset, X = x column as loaded): it does not exceed the largest shifted x of the probe, a + max X, by a '
                      'positive margin - probes are not kept apart' % new)
        init = const_value(accs[acc].value)
        ctx.check(init == 0, 'C12.S3', g, accs[acc], 'the first probe is not translated', 'the first probe is translated by %s' % init)


def s3_positions_misc(ctx):
    repo = ctx.repo
    cls = repo.cls(MG, 'Merger')
    g = repo.lookup_method(cls, 'write_channel_positions')
    me = T('self')
    _positions_loop(ctx, g)
    outs = MI(repo, unroll=1, inline_depth=0).run(g, env={g.params[0]: me})
    sv = [(_strip(e[1]), _strip(e[2])) for kind, val, st in outs for e in st.trace if e[0] == 'save']
    ok = bool(sv) and all(n == C('channel_positions.npy') and is_t(v) and v[2] == '_concat' and
                          v[3] == T('call', '_load_multiple_files', C('channel_positions.npy'), T('attr', me, 'subdirs')) for n, v in sv)
    ctx.check(ok, 'C12.S3', g, 'channel_positions.npy', 'channel_positions.npy = concatenation of the (translated) per-probe positions in input order',
              'channel_positions.npy is not the concatenation of the per-probe positions in input order')
    # write_misc
    m = repo.lookup_method(cls, 'write_misc')
    # every per-probe matrix takes part: the list of directories handed to the loader is self.subdirs itself, not a filtered copy
    filtered = None
    for c in m.calls():
        if dotted(c.func) == '_load_multiple_files' and len(c.args) >= 2:
            x = m.expand(c.args[1])
            if isinstance(x, (ast.ListComp, ast.GeneratorExp)) and x.generators[0].ifs and 'self.subdirs' in unparse(x.generators[0].iter):
                filtered = (c, x)
            elif isinstance(x, ast.Call) and dotted(x.func) == 'filter':
                filtered = (c, x)
    if filtered is not None:
        ctx.violated('C12.S3', m, filtered[0], 'the optional matrices are merged over a FILTERED list of probes (`%s`): when a matrix is missing for one probe the blocks of the '
                     'later probes move to its rows and columns, and the merged matrix no longer has one block per probe at the probe\'s channel / template offset' % unparse(filtered[1])[:90])
        return
    try:
        outs = MI(repo, unroll=3, inline_depth=0).run(m, env={m.params[0]: me})
    except proto.PathLimit:
        ctx.undecided('C12.S3', m, 'write_misc: path budget exceeded, block structure of the optional matrices not decided')
        return
    saved = {}
    for kind, val, st in outs:
        for e in st.trace:
            if e[0] == 'save' and is_c(e[1]):
                saved[e[1][1]] = _strip(e[2])
    for nm in ('similar_templates.npy', 'whitening_mat.npy', 'whitening_mat_inv.npy'):
        v = saved.get(nm)
        want = T('call', 'block_diag', T('star', T('call', '_load_multiple_files', C(nm), T('attr', me, 'subdirs'))))
        ctx.check(v == want, 'C12.S3', m, nm, '%s = block_diag of the per-probe matrices in input order' % nm,
                  '%s is saved as %s, not block_diag(*per-probe matrices in input order)' % (nm, show(v)[:80] if v is not None else 'nothing'))
    # the skip may live in write_misc or in a helper it calls (helpers absent from the pinned tree are followed)
    fns = [m] + [h_ for h_ in repo.transparent_closure(m) if h_ is not m]
    okh = alt = None
    any_try = any_exists = False
    for f_ in fns:
        for tr in f_.nodes(ast.Try):
            any_try = True
            for h in tr.handlers:
                tys = [h.type] if h.type is not None and not isinstance(h.type, ast.Tuple) else (list(h.type.elts) if h.type is not None else [])
                catches = any((dotted(t_) or '') in ('FileNotFoundError', 'IOError', 'OSError') for t_ in tys)
                leaves = any(isinstance(x, ast.Continue) for x in h.body) if f_ is m else any(isinstance(x, ast.Return) for x in h.body)
                if catches and leaves and not any(isinstance(n, ast.Raise) for x in h.body for n in ast.walk(x)):
                    okh = tr
        for i in f_.nodes(ast.If):
            if any(isinstance(n, ast.Call) and q.method_name(n) in ('exists', 'is_file') for n in ast.walk(i.test)):
                any_exists = True
                if any(isinstance(x, (ast.Continue, ast.Return)) for x in i.body):
                    alt = i
    if okh is not None or alt is not None:
        ctx.holds('C12.S3', m, 'an optional matrix missing in the inputs is skipped', (okh if okh is not None else alt.test))
    elif not any_try and not any_exists:
        ctx.violated('C12.S3', m, 'write_misc', 'a missing optional matrix is not skipped: merging datasets without similar_templates / whitening files raises')
    else:
        ctx.undecided('C12.S3', m, 'the skip of missing optional matrices is not in a recognised form')


def d1_params(ctx):
    repo = ctx.repo
    cls = repo.cls(MG, 'Merger')
    f = repo.lookup_method(cls, 'write_params')
    P = Pat(f)
    pl = P.stmt("V_pl = [read_python(V_d / 'params.py') for V_d in self.subdirs]")
    if pl is None:
        ctx.undecided('C12.D1', f, 'the list of per-probe params (read_python over self.subdirs) was not recognised')
        return
    sm = P.stmt("V_sum = sum(V_p['n_channels_dat'] for V_p in V_pl)") or P.stmt("V_sum = sum([V_p['n_channels_dat'] for V_p in V_pl])") or P.stmt("V_sum = np.sum([V_p['n_channels_dat'] for V_p in V_pl])")
    sm_bad = None
    if sm is None:
        sm_bad = P.stmt("V_sum = V_pl[0]['n_channels_dat']") or P.stmt("V_sum = max(V_p['n_channels_dat'] for V_p in V_pl)") or P.stmt("V_sum = V_pl[-1]['n_channels_dat']")
    mg = P.stmt('V_merged = V_pl[0]') or P.stmt('V_merged = V_pl[0].copy()') or P.stmt('V_merged = dict(V_pl[0])')
    if sm is not None:
        ctx.holds('C12.D1', f, 'n_channels_dat of the merged dataset = sum over all probes', sm)
    elif sm_bad is not None:
        ctx.violated('C12.D1', f, sm_bad, 'n_channels_dat is `%s`, not the sum over all probes' % unparse(sm_bad.value))
    else:
        # what IS stored as the merged n_channels_dat: when it is not derived from the per-probe `n_channels_dat` entries at all, it is another quantity
        stores_ = [a for a in f.nodes(ast.Assign) if isinstance(a.targets[0], ast.Subscript) and const_value(a.targets[0].slice) == 'n_channels_dat']
        src_ = f.expand(stores_[0].value, depth=8) if stores_ else None
        from_params = src_ is not None and any(isinstance(n, ast.Subscript) and const_value(n.slice) == 'n_channels_dat' for n in ast.walk(src_))
        if src_ is not None and not from_params and not isinstance(src_, ast.Name):
            ctx.violated('C12.D1', f, stores_[0], 'the merged n_channels_dat is `%s`: it is not computed from the n_channels_dat of the probes\' parameter files (the raw channel counts), so a probe whose raw '
                         'file has unmapped channels is declared too small' % unparse(src_)[:90])
        else:
            ctx.undecided('C12.D1', f, 'computation of the merged n_channels_dat not recognised')
    if mg is None or sm is None:
        ctx.undecided('C12.D1', f, 'construction of the merged params not recognised')
    else:
        st = P.stmt("V_merged['n_channels_dat'] = V_sum")
        w = [c for c in f.calls() if dotted(c.func) == 'write_python' and len(c.args) >= 2]
        w_ok = bool(w) and Pat().m("self.out_dir / 'params.py'", w[0].args[0]) and isinstance(w[0].args[1], ast.Name) and w[0].args[1].id == P.name('V_merged')
        w_bad = bool(w) and not w_ok and (isinstance(w[0].args[1], ast.Name) or 'subdir' in unparse(w[0].args[0]))
        other = [a for a in f.nodes(ast.Assign) if isinstance(a.targets[0], ast.Subscript) and isinstance(a.targets[0].value, ast.Name) and a.targets[0].value.id == P.name('V_merged') and
                 const_value(a.targets[0].slice) not in ('n_channels_dat', 'dat_path')]
        ctx.check(not other, 'C12.D1', f, other[0] if other else 'merged params', 'no other parameter (sampling rate, dtype, ...) is changed',
                  'merged params also override %s' % [unparse(a.targets[0]) for a in other])
        if st is not None and w_ok:
            ctx.holds('C12.D1', f, 'merged params = params of the first probe with n_channels_dat replaced, written to the output directory', w[0])
        elif st is None or w_bad:
            ctx.violated('C12.D1', f, w[0] if w else 'write_params', 'merged params are not first-probe params with the summed n_channels_dat written to out_dir/params.py')
        else:
            ctx.undecided('C12.D1', f, 'write of the merged params not recognised')


def s2_offsets_prerequisite(ctx):
    """template t of probe k is placed at its offset index, and the template-index table is shifted by the same offsets: both read self.template_offsets, whose
    recurrence (start at 0, grows by max(template ids of the probe) + 1, recorded = shift applied) is C11.S1. Those obligations are prerequisites here;
    only the ones about the TEMPLATE offsets are taken over."""
    from vlib import report
    from obligations import C11
    sub = report.Ctx('C11', ctx.repo, ctx.tier, ctx.seed)
    sub.part('C11.S1', C11.s1_offsets)
    rel = [o for o in sub.obs if o.rule == 'C11.S1' and ('template' in o.detail or 'toffset' in o.construct or 'template' in o.construct)]
    bad = [o for o in rel if o.status == 'violated']
    for o in bad:
        ctx.obs.append(report.Ob('C12.S2', o.where, 'violated', 'templates are placed at, and the template-index table is shifted by, self.template_offsets, whose construction is wrong (%s): %s' %
                                 (o.rule, o.detail), o.construct, o.line))
    if not bad:
        if any(o.status == 'holds' for o in rel):
            ctx.holds('C12.S2', MG + ':Merger.write_spike_clusters', 'template offsets: %d obligations of C11.S1 about the template offsets hold (%d undecided)' %
                      (len([o for o in rel if o.status == 'holds']), len([o for o in rel if o.status == 'undecided'])), 'template_offsets recurrence')
        else:
            ctx.undecided('C12.S2', MG + ':Merger.write_spike_clusters', 'the recurrence of the template offsets (C11.S1) was not decided')


def run(ctx):
    from obligations.C11 import probe_order
    ctx.part('C12.S3', probe_order, 'C12.S3')
    ctx.part('C12.S2', s2_offsets_prerequisite)
    ctx.part('C12.S1', s1_templates)
    ctx.part('C12.S2', s2_template_data)
    ctx.part('C12.S3', s3_positions_misc)
    ctx.part('C12.D1', d1_params)


LEVEL_TEXT = ('Static walks of the Merger channel/template writers: cumulative column base of the template blocks (recurrence from 0, any number of '
              'probes), zero rows with the probe block, (probe, template) row order, index tables shifted by the numbering they index '
              '(cumulative channel count / template offsets) with per-probe pairing, probe-label blocks, x-only translation computed from the '
              'shifted probe, block_diag of optional matrices in input order, summed n_channels_dat.')
LEVEL_NOTE = ('Trusted: concatenate / block_diag / slicing semantics; C11 for the template offsets. Not decided: separation of zero-width probes, '
              'presence combinations of optional files, values.')
TECHNIQUE = 'static analysis: symbolic walk of loop recurrences with normal forms plus provenance of saved arrays'
