"""C20 - no download is reported successful with a file failing its published checksum.

Decided (proto: all paths of download_file x all outcomes of its callees, callees inlined):
  O1  normal return => the file left behind was checked after the last save (or at all when nothing
      was saved) and the last such check is not False
  O2  existing file and first check True =>  no download, no save
  O3  at most two saves, never a second download after a True check, and a False check after the
      first save is followed by a retry
  O4  save, check False, save, check False => the call raises
  O5  a download that raises ends the call with that exception (no handler, no later event)
  O6  the HTTP download returns a response only when its status is 200 or raise_for_status() passed
  T1  meaning of the check result: True only after `md5(<output path>) == <first token of the text
      fetched from url + '.md5'>` came out equal, False only when it came out unequal, None when no
      comparison was possible
  T2  the file hash feeds every non-empty buffer into one digest until an empty read
  T3  the saver writes every non-empty chunk, in order, to the output path opened for binary writing
Roles (check / download / save / hash) are inferred from the call graph (who reaches hashlib.md5,
requests.get, open(.., 'wb')), not from function names.
Not decided: behaviour of `requests` and of the server.
"""
import ast

from vlib import q, proto
from vlib.proto import C, T, is_c, is_t, show, subterms
from vlib.front import unparse, dotted, const_value, AnchorMissing

M = 'phylib/io/datasets.py'
FLOOR = 4          # decided obligations below this = the analysis lost its footing (exit 2); clean tree: 11
RULES = ('C20.O1', 'C20.O2', 'C20.O3', 'C20.O4', 'C20.O5', 'C20.O6', 'C20.R0', 'C20.T1', 'C20.T2', 'C20.T3')          # every obligation group must report (holds / violated / undecided): a group that vanishes silently is an analysis error
EXPLANATION = ('proto engine: every syntactic path of download_file is enumerated with its repo callees inlined '
               '(check, text download, HTTP get), external calls as fresh uninterpreted terms that may raise, '
               'file hash and stream saver summarised and checked separately; each complete event trace '
               '(exists / check result / download ok|raise / save / comparison) is tested against the trace '
               'predicates O1-O5 and T1; T2/T3 walk the hash and saver loops (unrolled twice)')
TRUSTED = ['python ast', 'requests.get / raise_for_status may raise, otherwise return a response',
           'hashlib.md5 update/hexdigest semantics', 'loop unrolling bound 2 for the hash and saver loops']
ASSUMPTIONS = ['exceptions other than those of the HTTP layer are out of scope', 'the checksum file holds the digest as its first space-separated token']


def _reaches(repo, fi, ext_names):
    for f in repo.reachable([fi]):
        for c in f.calls():
            n = repo.ext_name(f, c.func)
            if n in ext_names:
                return True
    return False


def roles(ctx):
    repo = ctx.repo
    entry = repo.func(M, 'download_file')
    # callees of the entry point; helpers extracted from it after the pinned tree are looked through (their callees count as the entry's own)
    closure = repo.transparent_closure(entry)
    direct = []
    for f_ in closure:
        for c in f_.calls():
            for t in repo.resolve_call(f_, c):
                if t not in direct and not any(t.node is x.node for x in closure):
                    direct.append(t)
    r = {'entry': entry}
    for t in direct:
        md5 = _reaches(repo, t, ('hashlib.md5',))
        get = _reaches(repo, t, ('requests.get',))
        opens_w = any(dotted(c.func) == 'open' and isinstance(const_value(q.arg(c, 1, 'mode')), str) and
                      any(ch in const_value(q.arg(c, 1, 'mode')) for ch in 'wax+')
                      for f in repo.reachable([t]) for c in f.calls())
        if md5:
            r.setdefault('check', t)
        elif opens_w:
            r.setdefault('save', t)
        elif get:
            r.setdefault('download', t)
    # hash function: the function that calls hashlib.md5 directly
    for f in repo.reachable([r['check']]) if 'check' in r else []:
        if any(repo.ext_name(f, c.func) == 'hashlib.md5' for c in f.calls()):
            r['hash'] = f
    missing = [k for k in ('check', 'download', 'save', 'hash') if k not in r]
    if missing:
        raise AnchorMissing('download_file no longer calls a function in the role(s) %s' % missing)
    return r


class CheckWalk(proto.Interp):
    """Walk of the check function on its own (its repo callees inlined) - used for T1 and for the summary
    (set of distinct results) that the walk of download_file forks over."""

    def __init__(self, repo, R):
        super().__init__(repo, unroll=2, inline_depth=6)
        self.R = R
        for f in repo.reachable([R['check'], R['download']]):
            if f.node not in (R['hash'].node, R['save'].node) and f.module.rel == M:
                self.inline.add(f.node)

    def on_call(self, call, name, args, kwargs, st):
        tg = self.repo.resolve_call(self.fi_stack[-1], call, virtual=False)
        if len(tg) == 1 and tg[0].node is self.R['hash'].node:
            n, st = st.fresh()
            return [('ok', T('md5file', C(n), *args), st)]
        ext = self.repo.ext_name(self.fi_stack[-1], call.func)
        if ext == 'requests.get':
            n, st = st.fresh()
            return [('raise', 'ConnectionError', st.emit('http-raise')), ('ok', T('response', C(n), *args), st)]
        return None

    def on_method(self, call, name, recv, args, kwargs, st):
        if call.func.attr == 'raise_for_status':
            return [('raise', 'HTTPError', st.emit('http-raise')), ('ok', C(None), st)]
        return None

    def on_fork(self, key, st):
        if key[0] == 'rel' and any(is_t(x) and x[1] == 'attr' and x[3] == 'status_code' for k in key[1:] for x in subterms(k)):
            return ['=', '>']
        return None

    def cmp(self, op, l, r, st):
        res = super().cmp(op, l, r, st)
        if any(is_t(x) and x[1] == 'md5file' for x in subterms(l)) or any(is_t(x) and x[1] == 'md5file' for x in subterms(r)):
            return [(b, s.emit('cmp', type(op).__name__, l, r, b)) for b, s in res]
        return res


def _resval(v):
    if is_c(v) and (v[1] is None or isinstance(v[1], bool)):
        return v[1]
    return '?'


class DL(proto.Interp):
    """Walk of download_file; check and download are replaced by their summaries (distinct outcomes)."""

    def __init__(self, repo, R, check_results, check_raises, dl_outcomes):
        super().__init__(repo, unroll=2, inline_depth=0)
        self.R = R
        self.role_nodes = {R['check'].node: 'check', R['download'].node: 'download', R['save'].node: 'save', R['hash'].node: 'hash'}
        self.check_results, self.check_raises, self.dl_outcomes = check_results, check_raises, dl_outcomes
        self.bad_args = []

    def on_call(self, call, name, args, kwargs, st):
        tg = self.repo.resolve_call(self.fi_stack[-1], call, virtual=False)
        role = self.role_nodes.get(tg[0].node) if len(tg) == 1 else None
        if role == 'save':
            return [('ok', C(None), st.emit('save', *args))]
        if role == 'check':
            st = st.emit('chk-args', call, *args)
            out = [('ok', C(v) if v != '?' else T('chk?'), st.emit('chk', C(v) if v != '?' else T('chk?'))) for v in self.check_results]
            out += [('raise', x, st.emit('chk-raise', x)) for x in self.check_raises]
            return out
        if role == 'download':
            n, st = st.fresh()
            out = []
            if 'ok' in self.dl_outcomes:
                out.append(('ok', T('response', C(n), *args), st.emit('dl', 'ok', *args)))
            for x in sorted(o for o in self.dl_outcomes if o != 'ok'):
                out.append(('raise', x, st.emit('dl', 'raise')))
            return out
        return None

    def on_method(self, call, name, recv, args, kwargs, st):
        m = call.func.attr
        if m == 'exists' and not args:
            return [('ok', C(True), st.emit('ex', True)), ('ok', C(False), st.emit('ex', False))]
        return None


def trace_view(kind, st):
    ev = []
    for e in st.trace:
        if e[0] == 'chk':
            v = e[1]
            ev.append('chk(%s)' % ({True: 'T', False: 'F', None: 'N'}.get(v[1], '?') if is_c(v) and (v[1] is None or isinstance(v[1], bool)) else '?'))
        elif e[0] == 'ex':
            ev.append('ex(%s)' % ('T' if e[1] else 'F'))
        elif e[0] == 'dl':
            ev.append('dl(%s)' % e[1])
        elif e[0] == 'save':
            ev.append('save')
        elif e[0] == 'chk-raise':
            ev.append('chk(raise)')
    ev.append('ret' if kind == 'return' else 'exc')
    return ev


def check_traces(ctx, R, outs):
    entry = R['entry']
    seen = {}
    cut = set()          # traces that went through a call the walk did not follow (recursion beyond the bound, lazy generator): not faithful, nothing is concluded from them
    for kind, val, st in outs:
        tv = tuple(trace_view(kind, st))
        seen.setdefault(tv, (kind, val, st))
        if any(e[0] in ('recursion-cut', 'generator') for e in st.trace):
            cut.add(tv)
    ctx.analysed['paths'] += len(outs)
    bad = {k: [] for k in ('O1', 'O2', 'O3', 'O4', 'O5')}
    unknown_chk = [tv for tv in seen if 'chk(?)' in tv]
    for tv in seen:
        ends_ret = tv[-1] == 'ret'
        saves = [i for i, e in enumerate(tv) if e == 'save']
        chks = [(i, e) for i, e in enumerate(tv) if e.startswith('chk(')]
        # O1: a normal return needs a check after the last save (or at all), and the last one must not be False
        if ends_ret:
            after = [e for i, e in chks if not saves or i > saves[-1]]
            if not after or after[-1] == 'chk(F)':
                bad['O1'].append(tv)
        # O2
        if len(tv) >= 2 and tv[0] == 'ex(T)' and tv[1] == 'chk(T)':
            if saves or any(e.startswith('dl(') for e in tv):
                bad['O2'].append(tv)
        # O3: at most one retry; no second download after a successful check; a mismatch after the first save IS retried
        if len(saves) > 2:
            bad['O3'].append(tv)
        elif len(saves) == 2:
            between = [e for e in tv[saves[0] + 1:saves[1]] if e.startswith('chk(')]
            if between and between[-1] == 'chk(T)':
                bad['O3'].append(tv)
        if len(saves) == 1:
            rest = list(tv[saves[0] + 1:])
            if rest[:1] == ['chk(F)'] and not (len(rest) > 1 and rest[1].startswith('dl(')):
                bad['O3'].append(tv)
        # a completed download is saved before anything else happens
        for i, e in enumerate(tv):
            if e == 'dl(ok)' and tv[i + 1] != 'save':
                bad['O3'].append(tv)
        # O4
        core = [e for e in tv if not e.startswith('dl(') and not e.startswith('ex(')]
        for i in range(len(core) - 3):
            if core[i:i + 4] == ['save', 'chk(F)', 'save', 'chk(F)'] and tv[-1] != 'exc':
                bad['O4'].append(tv)
        # O5
        if 'dl(raise)' in tv:
            i = tv.index('dl(raise)')
            if tv[i + 1:] != ('exc',):
                bad['O5'].append(tv)
    texts = {
        'O1': 'a call returns normally although the last check after the last save is False, or without any check of the file it leaves',
        'O2': 'an existing file that passed its check is downloaded again',
        'O3': 'more than two saves, a re-download after a successful check, a mismatch after the first download that is not retried, or a downloaded stream that is not saved',
        'O4': 'the checksum fails after the retry and the call does not raise',
        'O5': 'an exception of the download is swallowed or followed by further actions',
    }
    ok_texts = {
        'O1': 'normal return => the file left behind was checked after the last save and the last check is not False',
        'O2': 'existing and valid => no download, no save',
        'O3': '<= 2 saves, never after a True check, and a False check after the first save is followed by a retry',
        'O4': 'False after the retry => raise',
        'O5': 'download raises => the call raises at once',
    }
    for k in ('O1', 'O2', 'O3', 'O4', 'O5'):
        if bad[k] and all(tv in cut for tv in bad[k]):
            ctx.undecided('C20.' + k, entry, 'the only offending traces go through a call the walk does not follow (recursion beyond two activations / lazy generator): %s' % ' . '.join(sorted(bad[k], key=len)[0]))
        elif bad[k]:
            bad[k] = [tv for tv in bad[k] if tv not in cut]
            tv = sorted(bad[k], key=len)[0]
            kind, val, st = seen[tv]
            ctx.violated('C20.' + k, entry, 'trace: ' + ' . '.join(tv), texts[k] + ' [%d offending of %d distinct traces]' % (len(bad[k]), len(seen)))
        else:
            ctx.holds('C20.' + k, entry, ok_texts[k] + ' on all %d distinct event traces (%d paths)' % (len(seen), len(outs)), 'download_file')
    if unknown_chk:
        ctx.undecided('C20.T1', entry, 'a check result is neither True, False nor None on %d traces' % len(unknown_chk))
    return seen


WRAP_OK = ('Path', 'str', 'os.fspath', 'fspath', 'pathlib.Path')


def _is_param_path(term, pname):
    """term is the parameter itself, possibly wrapped in Path()/str()/fspath()/.resolve()."""
    if term == T('param', pname):
        return True
    if is_t(term) and term[1] == 'call' and (term[2] in WRAP_OK or term[2].split('.')[-1] in ('resolve', 'absolute', 'expanduser')):
        return any(_is_param_path(a, pname) for a in term[4:])
    return False


def check_meaning(ctx, R):
    """T1: on every path of the check function relate its result to the md5 comparison. Returns the summary."""
    chk = R['check']
    I = CheckWalk(ctx.repo, R)
    outs = I.run(chk)
    ctx.analysed['paths'] += len(outs)
    out_p, url_p = chk.params[0], chk.params[1]
    problems = {}
    results, raises = set(), set()
    for kind, val, st in outs:
        if kind == 'raise':
            raises.add(val)
            continue
        res = _resval(val)
        results.add(res)
        cur = [e for e in st.trace if e[0] == 'cmp']
        if res is True or res is False:
            if not cur:
                problems.setdefault('the check returns %r without comparing the file hash with the published checksum' % res, 1)
                continue
            _, opn, l, r, b = cur[-1]
            eq = b if opn == 'Eq' else (not b if opn == 'NotEq' else None)
            if eq is None:
                problems.setdefault('the hash is compared with `%s`, not with == / !=' % opn, 1)
            elif eq != res:
                problems.setdefault('the check returns %r when the file hash %s the published checksum' % (res, 'equals' if eq else 'differs from'), 1)
            h, o = (l, r) if any(is_t(x) and x[1] == 'md5file' for x in subterms(l)) else (r, l)
            if not (is_t(h) and h[1] == 'md5file' and len(h) > 3 and _is_param_path(h[3], out_p)):
                problems.setdefault('the hashed file is not the path given to the check (hash of %s)' % show(h)[:80], 1)
            if any(is_t(x) and x[1] == 'md5file' for x in subterms(o)):
                problems.setdefault('the file hash is compared with another file hash, not with the published checksum', 1)
            resp = [x for x in subterms(o) if is_t(x) and x[1] == 'response']
            want = T('Add', T('param', url_p), C('.md5'))
            if not resp:
                problems.setdefault('the expected checksum (%s) does not come from an HTTP response' % show(o)[:80], 1)
            elif not any(want in x[3:] for x in resp):
                problems.setdefault("the checksum is fetched from %s, not from url + '.md5'" % show(resp[0])[:80], 1)
            else:
                # first token: text.split(..)[0] / text.split()[0] / text.partition(' ')[0] (also through tuple unpacking: item(.., 0))
                def first_token(o_):
                    if is_t(o_) and o_[1] in ('index', 'item') and o_[3] == C(0) and is_t(o_[2]) and o_[2][1] == 'call' and any(m_ in o_[2][2] for m_ in ('.split', '.partition')):
                        return True
                    return False

                def other_token(o_):
                    if is_t(o_) and o_[1] in ('index', 'item') and is_c(o_[3]) and o_[3] != C(0) and is_t(o_[2]) and o_[2][1] == 'call' and any(m_ in o_[2][2] for m_ in ('.split', '.partition', '.rsplit', '.rpartition')):
                        return True
                    return is_t(o_) and o_[1] in ('index', 'item') and o_[3] == C(0) and is_t(o_[2]) and o_[2][1] == 'call' and any(m_ in o_[2][2] for m_ in ('.rsplit', '.rpartition'))
                if first_token(o):
                    pass
                elif other_token(o) or (is_t(o) and o[1] in ('response', 'attr')) or (is_t(o) and o[1] == 'call' and any(m_ in o[2] for m_ in ('.strip', '.lower', '.upper'))):
                    problems.setdefault('the expected checksum is not the first token of the fetched text (%s)' % show(o)[:90], 1)
                else:
                    problems.setdefault('UNDECIDED how the expected checksum is cut out of the fetched text was not recognised (%s)' % show(o)[:70], 1)
        elif res is None:
            if cur:
                problems.setdefault('the check returns None although a hash comparison was made: a mismatch can be reported as "unknown"', 1)
        else:
            problems.setdefault('the check returns %s, which is neither True, False nor None' % show(val)[:60], 1)
    und_ = [m_ for m_ in problems if m_.startswith('UNDECIDED ')]
    for m_ in und_:
        problems.pop(m_)
        ctx.undecided('C20.T1', chk, m_[10:])
    if problems:
        for msg in problems:
            ctx.violated('C20.T1', chk, msg, msg)
    elif not und_:
        ctx.holds('C20.T1', chk, 'check result True <=> md5(path argument) == first token of text(url argument + ".md5"), False <=> unequal, '
                  'None <=> no comparison possible (%d paths of the check, results %s, escaping exceptions %s)' %
                  (len(outs), sorted(map(str, results)), sorted(raises) or 'none'), chk.node.name)
    return results, raises


def download_summary(ctx, R):
    I = CheckWalk(ctx.repo, R)
    outs = I.run(R['download'])
    ctx.analysed['paths'] += len(outs)
    res = set()
    for kind, val, st in outs:
        res.add('ok' if kind == 'return' else val)
    return res


def check_call_sites(ctx, R, outs):
    """Arguments at the call sites inside download_file: the check gets (output path, url), the saver the output path,
    the download the url."""
    entry = R['entry']
    url_p, out_p = entry.params[0], entry.params[1]
    probs = {}
    n = 0
    for kind, val, st in outs:
        for e in st.trace:
            if e[0] == 'chk-args':
                n += 1
                args = e[2:]
                if len(args) < 2 or not _is_param_path(args[0], out_p) and not (is_t(args[0]) and args[0] == st.env.get('path')):
                    if not (len(args) >= 1 and any(x == T('param', out_p) for x in subterms(args[0])) and _is_param_path(args[0], out_p)):
                        probs.setdefault('the check is applied to %s, not to the output path' % (show(args[0])[:60] if args else '?'), e[1])
                if len(args) >= 2 and args[1] != T('param', url_p):
                    probs.setdefault('the check uses %s, not the url of the file, to find the published checksum' % show(args[1])[:60], e[1])
            elif e[0] == 'save':
                n += 1
                args = e[1:]
                if len(args) < 2 or not _is_param_path(args[1], out_p):
                    probs.setdefault('the downloaded stream is saved to %s, not to the output path' % (show(args[1])[:70] if len(args) > 1 else '?'), 'save')
                if len(args) >= 1 and not (is_t(args[0]) and args[0][1] == 'response'):
                    probs.setdefault('what is saved (%s) is not the response of the download' % show(args[0])[:60], 'save')
            elif e[0] == 'dl' and e[1] == 'ok':
                n += 1
                args = e[2:]
                if not args or args[0] != T('param', url_p):
                    probs.setdefault('the download fetches %s, not the url' % (show(args[0])[:60] if args else '?'), 'dl')
    if probs:
        for msg, node in probs.items():
            ctx.violated('C20.T3', entry, node if not isinstance(node, str) else msg, msg)
    else:
        ctx.holds('C20.T3', entry, 'at every call site the check gets (output path, url), the download gets url, the saver gets '
                  '(that response, output path) (%d call events)' % n, 'download_file')


class HashWalk(proto.Interp):
    def on_call(self, call, name, args, kwargs, st):
        ext = self.repo.ext_name(self.fi_stack[-1], call.func)
        if ext == 'hashlib.md5':
            n, st = st.fresh()
            return [('ok', T('md5obj', C(n)), st.emit('new', T('md5obj', C(n)), tuple(args)))]
        if name == 'open':
            n, st = st.fresh()
            return [('ok', T('file', C(n), *args, *[T('kw', k, v) for k, v in kwargs.items()]), st)]
        return None

    def on_method(self, call, name, recv, args, kwargs, st):
        m = call.func.attr
        base = recv
        while is_t(base) and base[1] == 'enter':
            base = base[2]
        if m == 'read' and is_t(base) and base[1] == 'file':
            n, st = st.fresh()
            b = T('buf', C(n))
            return [('ok', b, st.emit('read', base, b))]
        if m == 'readinto' and is_t(base) and base[1] == 'file' and len(args) == 1:
            # n = f.readinto(view): the data read are view[:n]; n is 0 exactly at end of file. The read event carries the buffer term `view[:n]` and the count.
            k, st = st.fresh()
            cnt = T('nread', C(k))
            b = T('index', args[0], T('slice3', C(None), cnt, C(None)))
            return [('ok', cnt, st.emit('read', base, b, cnt))]
        if m == 'update' and is_t(base) and base[1] == 'md5obj':
            return [('ok', C(None), st.emit('update', base, args[0] if args else None))]
        if m in ('hexdigest', 'digest') and is_t(base) and base[1] == 'md5obj':
            return [('ok', T('digest', base, m), st)]
        if is_t(base) and base[1] == 'file' and m not in ('close', '__enter__', '__exit__', 'seek', 'tell', 'fileno'):
            # a way of reading the file that this walk does not model: whatever is concluded about the reads is then not definite
            return [('ok', T('call', 'file.' + m, C(0), base, *args), st.emit('file-unknown', m))]
        return None


def _hash_cmp(self, op, l, r, st):
    # `buf == b''` / `buf != b''` on a buffer just read is its truth test
    name = type(op).__name__
    if name in ('Eq', 'NotEq'):
        for a_, b_ in ((l, r), (r, l)):
            if is_t(a_) and a_[1] == 'buf' and is_c(b_) and b_[1] in (b'', ''):
                return [((not t_) if name == 'Eq' else t_, s_) for t_, s_ in self.truth_of(a_, st)]
    return proto.Interp.cmp(self, op, l, r, st)


HashWalk.cmp = _hash_cmp


def check_hash(ctx, R):
    h = R['hash']
    I = HashWalk(ctx.repo, unroll=ctx.bound(2, 4))
    outs = I.run(h)
    ctx.analysed['paths'] += len(outs)
    pth = h.params[0]
    probs = []
    n_ok = 0
    for kind, val, st in outs:
        if kind != 'return':
            continue
        reads = [e for e in st.trace if e[0] in ('read', 'update')]
        news = [e for e in st.trace if e[0] == 'new']
        if not (is_t(val) and val[1] == 'digest' and val[3] == 'hexdigest'):
            probs.append('returns %s, not the hexdigest of the hash object' % show(val)[:60])
            continue
        obj = val[2]
        if any(e[2] for e in news if e[1] == obj):
            probs.append('the digest is seeded with data at construction')
        # every read: truthy -> immediately updated into obj ; falsy -> last read
        i = 0
        ok = True
        nreads = 0
        while i < len(reads):
            e = reads[i]
            if e[0] == 'read':
                nreads += 1
                f, b = e[1], e[2]
                if not any(x == T('param', pth) for x in subterms(f)):
                    probs.append('reads from %s, not from the file given as argument' % show(f)[:60]); ok = False
                mode = [x for x in f[3:]]
                mtxt = ' '.join(show(x) for x in mode)
                if "'rb'" not in mtxt and "'br'" not in mtxt:
                    probs.append('file not opened in binary read mode (%s)' % mtxt); ok = False
                tr = st.facts.get(('truth', b))
                if tr is None and len(e) > 3:
                    tr = st.facts.get(('truth', e[3]))          # readinto: the count decides (0 = end of file)
                nxt = reads[i + 1] if i + 1 < len(reads) else None
                if tr is True:
                    if not (nxt is not None and nxt[0] == 'update' and nxt[1] == obj and nxt[2] == b):
                        probs.append('a non-empty buffer is read but not fed into the digest'); ok = False
                elif tr is False:
                    later = reads[i + 1:]
                    if any(x[0] == 'read' for x in later) or any(x[0] == 'update' and x[2] != b for x in later):
                        probs.append('reading continues after an empty read'); ok = False
                else:
                    # buffer truthiness never tested: the loop cannot stop at end of file on this path
                    if nxt is None or not (nxt[0] == 'update' and nxt[2] == b):
                        probs.append('the hash stops without having seen an empty read (only a prefix of the file is hashed)'); ok = False
            else:
                prev = reads[i - 1] if i > 0 else None
                if not (prev is not None and prev[0] == 'read' and prev[2] == e[2]):
                    probs.append('the digest is updated with something that was not just read'); ok = False
            i += 1
        last_read = [e for e in reads if e[0] == 'read'][-1:]
        if last_read and st.facts.get(('truth', last_read[0][2])) is not False and not (len(last_read[0]) > 3 and st.facts.get(('truth', last_read[0][3])) is False):
            probs.append('the hash returns without having seen an empty read (only a prefix of the file is hashed)'); ok = False
        if not last_read:
            probs.append('the hash returns without reading the file'); ok = False
        n_ok += ok
    probs = sorted(set(probs))
    unknown_api = sorted({e[1] for kind, val, st in outs for e in st.trace if e[0] == 'file-unknown'})
    lazy = any(e[0] in ('recursion-cut', 'generator') for kind, val, st in outs for e in st.trace) or \
        any(f_.yields() for f_ in ctx.repo.transparent_closure(h) if f_ is not h) or \
        any(isinstance(c_, ast.Call) and (dotted(c_.func) or '').split('.')[-1] in ('partial', 'iter_unpack', 'islice', 'takewhile') for c_ in h.calls())
    if probs and lazy:
        ctx.undecided('C20.T2', h, 'the file is read through a generator helper or an iterator adaptor (iter(partial(read, n), b""), ...): the interleaving of its reads with the digest updates is not modelled by the hash walk')
    elif probs and unknown_api:
        ctx.undecided('C20.T2', h, 'the file is read through %s, which the hash walk does not model: nothing is concluded about the hashed bytes' % ', '.join('.%s()' % x for x in unknown_api))
    elif probs:
        for p in probs:
            ctx.violated('C20.T2', h, p, p)
    elif n_ok == 0:
        ctx.undecided('C20.T2', h, 'no complete path through the hash loop within the unrolling bound')
    else:
        ctx.holds('C20.T2', h, 'every non-empty buffer read from the argument file (rb) is fed to one digest, reading stops only at an '
                  'empty read, the hexdigest of that digest is returned (%d complete paths, loop unrolled to 3 reads)' % n_ok, h.node.name)


class SaveWalk(proto.Interp):
    def on_call(self, call, name, args, kwargs, st):
        if name == 'open':
            n, st = st.fresh()
            return [('ok', T('file', C(n), *args, *[T('kw', k, v) for k, v in kwargs.items()]), st)]
        tg = self.repo.resolve_call(self.fi_stack[-1], call, virtual=False)
        if tg:
            n, st = st.fresh()
            return [('ok', T('call', name, C(n)), st)]
        return None

    def on_method(self, call, name, recv, args, kwargs, st):
        m = call.func.attr
        base = recv
        while is_t(base) and base[1] == 'enter':
            base = base[2]
        if m == 'write' and is_t(base) and base[1] == 'file':
            return [('ok', C(None), st.emit('write', base, args[0] if args else None))]
        if m == 'iter_content':
            return [('ok', T('chunks', recv), st)]
        if m in ('flush', 'close', 'set_progress_message', 'set_complete_message', 'set_complete', 'increment'):
            return [('ok', C(None), st)]
        if (is_t(base) and base[1] == 'file') or m in ('iter_lines', 'raw', 'read', 'readinto', 'writelines', 'copyfileobj'):
            # another way of moving the bytes (writelines, shutil.copyfileobj, response.raw.read ...) that this walk does not model
            return [('ok', T('call', 'stream.' + m, C(0), base, *args), st.emit('io-unknown', m))]
        return None

    def on_attr_store(self, target, base, value, st):
        return [st]

    def for_elements(self, s, itv, st):
        def is_chunks(v):
            return any(is_t(x) and x[1] == 'chunks' for x in subterms(v))
        if is_chunks(itv):
            enum = is_t(itv) and itv[1] == 'call' and itv[2] == 'enumerate'
            seqs = []
            for n in range(self.unroll + 1):
                seqs.append([T('tuple', C(k), T('chunk', C(k))) if enum else T('chunk', C(k)) for k in range(n)])
            return seqs
        return super().for_elements(s, itv, st)


def check_saver(ctx, R):
    sv = R['save']
    I = SaveWalk(ctx.repo, unroll=ctx.bound(2, 4))
    outs = I.run(sv)
    ctx.analysed['paths'] += len(outs)
    rp, pp = sv.params[0], sv.params[1]
    site_ok = True
    probs = []
    n_ok = 0
    for kind, val, st in outs:
        if kind != 'return':
            continue
        writes = [e for e in st.trace if e[0] == 'write']
        truthy = sorted(k[1] for k, v in st.facts.items() if k[0] == 'truth' and is_t(k[1]) and k[1][1] == 'chunk' and v is True)
        n_chunks = max([x[2][1] + 1 for e in st.trace for x in subterms(e) if is_t(x) and x[1] == 'chunk'] + [0])
        written = [e[2] for e in writes]
        # chunks never tested for truth are written unconditionally or not at all
        all_chunks = sorted({x for k in st.facts for part in k[1:] for x in subterms(part) if is_t(x) and x[1] == 'chunk'} |
                            set(w for w in written if is_t(w) and w[1] == 'chunk'))
        expect = [c for c in all_chunks if st.facts.get(('truth', c)) is not False]
        ok = True
        if [w for w in written] != expect:
            probs.append('the chunks written (%s) are not exactly the non-empty chunks received, in order (%s)' %
                         ([show(w) for w in written], [show(c) for c in expect])); ok = False
        for e in writes:
            f = e[1]
            if not any(x == T('param', pp) for x in subterms(f)):
                probs.append('chunks are written to %s, not to the path argument' % show(f)[:60]); ok = False
            mtxt = ' '.join(show(x) for x in f[3:])
            if "'wb'" not in mtxt and "'bw'" not in mtxt and "'w+b'" not in mtxt and "'wb+'" not in mtxt:
                probs.append('output file not opened for truncating binary write (%s)' % mtxt); ok = False
        n_ok += ok
    probs = sorted(set(probs))
    unknown_io = sorted({e[1] for kind, val, st in outs for e in st.trace if e[0] == 'io-unknown'})
    if unknown_io:
        ctx.undecided('C20.T3', sv, 'the stream is written through %s, which the saver walk does not model: nothing is concluded about the bytes written' % ', '.join('.%s()' % x for x in unknown_io))
    elif probs:
        for p in probs:
            ctx.violated('C20.T3', sv, p, p)
    elif n_ok == 0:
        ctx.undecided('C20.T3', sv, 'no complete path through the saver')
    elif site_ok:
        ctx.holds('C20.T3', sv, 'every non-empty chunk of the response is written, in order, to the path argument opened \'wb\' '
                  '(%d paths, 0..2 chunks)' % n_ok, sv.node.name)


class GetWalk(proto.Interp):
    def on_call(self, call, name, args, kwargs, st):
        ext = self.repo.ext_name(self.fi_stack[-1], call.func)
        if ext == 'requests.get':
            return [('ok', T('response', C(0)), st)]
        return None

    def on_method(self, call, name, recv, args, kwargs, st):
        if call.func.attr == 'raise_for_status':
            return [('raise', 'HTTPError', st.emit('rfs', recv, 'raise')), ('ok', C(None), st.emit('rfs', recv, 'pass'))]
        return None


def check_status(ctx, R):
    """O6: in the function that calls requests.get, a normal return happens only with status == 200
    (or .ok true) or after raise_for_status() was consulted."""
    repo = ctx.repo
    fns = [f for f in repo.reachable([R['download']]) if any(repo.ext_name(f, c.func) == 'requests.get' for c in f.calls())]
    if not fns:
        ctx.undecided('C20.O6', R['download'], 'no direct call of requests.get found')
        return
    f = fns[0]
    I = GetWalk(repo)
    outs = I.run(f)
    ctx.analysed['paths'] += len(outs)
    resp = T('response', C(0))
    bad = None
    n = 0
    for kind, val, st in outs:
        if kind != 'return':
            continue
        n += 1
        consulted = any(e[0] == 'rfs' and e[1] == resp for e in st.trace)
        status = T('attr', resp, 'status_code')
        ok200 = I.rel(st, status, C(200)) == '='
        okflag = st.facts.get(('truth', T('attr', resp, 'ok'))) is True
        if not (consulted or ok200 or okflag):
            bad = st
    if bad is not None:
        ctx.violated('C20.O6', f, 'return path with facts %s' % sorted(show(k[1]) + k[0] for k in bad.facts if k[0] in ('rel', 'truth'))[:3],
                     'the HTTP download can return a response whose status is not 200 without raise_for_status(): an HTTP error is reported as success')
    elif n:
        ctx.holds('C20.O6', f, 'a response is returned only with status 200 or after raise_for_status() (%d returning paths)' % n, f.node.name)
    else:
        ctx.undecided('C20.O6', f, 'no returning path')


def run(ctx):
    R = roles(ctx)
    ctx.holds('C20.R0', R['entry'], 'roles: check=%s download=%s save=%s hash=%s (inferred from reachability of hashlib.md5 / requests.get / open(.., writing mode))'
              % tuple(R[k].name for k in ('check', 'download', 'save', 'hash')), 'download_file', nontrivial=False)
    results, raises = check_meaning(ctx, R)
    dl = download_summary(ctx, R)
    I = DL(ctx.repo, R, sorted(results, key=str), sorted(raises), dl)
    outs = I.run(R['entry'])
    seen = check_traces(ctx, R, outs)
    check_call_sites(ctx, R, outs)
    check_hash(ctx, R)
    check_saver(ctx, R)
    check_status(ctx, R)
    ctx.note('summaries: check returns %s raises %s; download %s; distinct event traces of download_file: %d; sample: %s' %
             (sorted(map(str, results)), sorted(raises), sorted(dl), len(seen), ' | '.join(' . '.join(t) for t in sorted(seen)[:3])))


LEVEL_TEXT = ('Path-sensitive static walk of download_file with its repo callees inlined: every syntactic path x every outcome of the '
              'HTTP layer (get raises / non-200 raises / returns; checksum text empty or not; hash equal or not; file exists or not) is '
              'enumerated and its event trace checked against the trace predicates O1-O5 (no success with a failing checksum, no '
              're-download of a valid file, exactly one retry, persistent mismatch or HTTP error raises) and T1-T3 (what True/False/None '
              'of the check mean, whole-file hashing, complete saving).')
LEVEL_NOTE = ('Trusted: the abstraction of requests (get may raise or return; raise_for_status may raise), hashlib.md5, loop unrolling '
              'bound 2 in the hash/saver loops, function roles inferred from the call graph. Not decided: real server behaviour.')
TECHNIQUE = 'static analysis: path-sensitive typestate walk of the CFG with inlined callees and trace predicates (no execution, no solver)'
