"""C17 - spike selection honours its cluster, chunk, subset and count constraints.

Decided (proto/sym walk of SpikeSelector):
  D1  element provenance: for every requested cluster the stored selection is built from
      get_spikes_per_cluster(<that cluster>) only through subset-preserving steps, and exactly the steps the
      flags demand: the kept-chunk mask computed from the times OF THOSE spikes (iff subset_chunks), intersect1d
      with the given subset (iff one is given), np.random.choice(.., n, replace=False) (iff the count rule fires)
  K2  the count rule fires iff n is not None and n > 0 and len(eligible) > n, and then draws exactly n without replacement
  K1  the result is np.unique(np.concatenate(per-cluster selections)) (strictly increasing); empty request -> empty
  S1  kept chunks: range(0, n_chunks, max(1, ceil(n_chunks / n_chunks_kept))) over n_chunks = len(bounds) - 1,
      each contributing the whole interval bounds[i:i+2]
  S2  membership in kept chunks: parity (== 1) of searchsorted(kept bounds, t, side='right')
  U1  save_spikes_subset_waveforms uses the selector over all templates with chunk restriction
  +   vectorised kept-chunk form b[S], b[S + 1] with S = np.arange(0, n_chunks, step): start, stop and step judged like the range() loop (array wrappers of the grid unwrapped)
Not decided: the distribution of the random choice, value-level counts.
"""
import ast

from vlib import q, proto
from vlib.proto import C, T, is_c, is_t, show, subterms
from vlib.symwalk import SymInterp
from vlib.sym import Lin, equal
from vlib.front import unparse, dotted, const_value, AnchorMissing
from vlib.pat import Pat

A = 'phylib/io/array.py'
M = 'phylib/io/model.py'
FLOOR = 6          # decided obligations below this = the analysis lost its footing (exit 2); clean tree: 16
RULES = ('C17.D1', 'C17.K1', 'C17.S1', 'C17.S2', 'C17.U1')          # every obligation group must report (holds / violated / undecided): a group that vanishes silently is an analysis error
EXPLANATION = ('proto/sym engines: SpikeSelector.__call__ is walked for every combination of flags and every outcome of its tests; '
               'the term stored for each cluster is parsed into (source, filters) and compared with the filters the specification '
               'demands under the same path facts; the stride formula and the chunk-membership test are compared as normal forms')
TRUSTED = ['python ast', 'np.intersect1d / np.unique / np.random.choice(replace=False) / boolean-mask indexing return subsets of their input',
           'np.searchsorted(side="right") counts bounds <= t']
ASSUMPTIONS = ['get_spikes_per_cluster(c) returns the spikes of cluster c (empty for unknown c)', 'chunk bounds are increasing']


def strip(t):
    """Drop the per-call counter of call terms so that terms compare structurally."""
    if is_t(t) and t[1] == 'call':
        return T('call', t[2], *[strip(x) for x in t[4:]])
    if is_t(t):
        return T(t[1], *[strip(x) for x in t[2:]])
    return t


def as_set(t):
    """The array whose SET of elements `t` has: np.unique / np.sort / np.asarray / np.array of one array are peeled (intersect1d sorts and de-duplicates anyway)."""
    while is_t(t) and t[1] == 'call' and t[2] in ('np.unique', 'np.sort', 'np.asarray', 'np.array', 'np.atleast_1d', 'unique', 'sorted') and \
            len([a for a in t[4:] if not (is_t(a) and a[1] == 'kw')]) == 1 and not any(is_t(a) and a[1] == 'kw' and a[2] in ('return_index', 'return_inverse', 'return_counts', 'axis') for a in t[4:]):
        t = [a for a in t[4:] if not (is_t(a) and a[1] == 'kw')][0]
    return t


def infeasible_dict_test(st):
    """A truth test of a dictionary decided against its contents on this path: a dictionary that received entries is not empty, one that received none (and was created
    empty) is. The walk forks on the truth of an opaque term; such a path is not a path of the program."""
    for key, val in st.facts.items():
        if isinstance(key, tuple) and len(key) == 2 and key[0] == 'truth' and is_t(key[1]) and key[1][1] in ('dictobj', 'dict'):
            n_sets = sum(1 for e in st.trace if e[0] == 'setitem' and e[1] == key[1])
            if (val is True and n_sets == 0) or (val is False and n_sets > 0):
                return True
    return False


def parse_selection(t, selfterm, subset_p):
    """term -> (base term, [filters], problems)"""
    filters, probs = [], []
    cur = t
    while True:
        if is_t(cur) and cur[1] == 'call' and cur[2].endswith('get_spikes_per_cluster'):
            return cur, filters, probs
        if is_t(cur) and cur[1] == 'index':
            base, m = cur[2], cur[3]
            ok = False
            if is_t(m) and m[1] == 'call' and m[2].endswith('_times_in_chunks'):
                args = m[4:]
                if len(args) == 2:
                    tt, kept = args
                    if is_t(tt) and tt[1] == 'index' and tt[2] == T('attr', selfterm, 'spike_times'):
                        if strip(tt[3]) == strip(base):
                            ok = True
                        else:
                            probs.append('the chunk mask is computed from the times of other spikes (%s) than the ones it filters (%s)' % (show(strip(tt[3]))[:60], show(strip(base))[:60]))
                    else:
                        probs.append('the chunk mask is not computed from self.spike_times[<these spikes>] (%s)' % show(tt)[:60])
                    if kept != T('attr', selfterm, 'chunks_kept'):
                        probs.append('the chunk mask uses %s, not the kept chunks' % show(kept)[:40])
            # the mask of ALL spikes, read at these spikes: _times_in_chunks is elementwise, so mask_all[ids] = mask(times[ids])
            if not ok and is_t(m) and m[1] == 'index' and is_t(m[2]) and m[2][1] == 'call' and m[2][2].endswith('_times_in_chunks') and len(m[2][4:]) == 2:
                tt, kept = m[2][4:]
                if tt == T('attr', selfterm, 'spike_times') and kept == T('attr', selfterm, 'chunks_kept') and strip(m[3]) == strip(base):
                    ok = True
                elif tt == T('attr', selfterm, 'spike_times') and kept == T('attr', selfterm, 'chunks_kept'):
                    probs.append('the chunk mask of all spikes is read at other spikes (%s) than the ones it filters (%s)' % (show(strip(m[3]))[:60], show(strip(base))[:60]))
            if not ok and not probs:
                known = any(is_t(x) and x[1] == 'call' and x[2].endswith('_times_in_chunks') for x in subterms(m)) or (is_t(m) and m[1] in ('attr', 'param', 'index') and
                                                                                                                    not any(is_t(x) and x[1] == 'call' for x in subterms(m)))
                probs.append(('' if known else 'UNDECIDED ') + 'spikes are indexed with %s, which is not the kept-chunk mask' % show(m)[:60])
            filters.append('chunks')
            cur = base
            continue
        if is_t(cur) and cur[1] == 'call' and cur[2] in ('np.intersect1d', 'intersect1d'):
            args = cur[4:]
            other = [a for a in args if as_set(a) == T('param', subset_p)]
            rest = [a for a in args if as_set(a) != T('param', subset_p) and not (is_t(a) and a[1] == 'kw')]
            if len(other) != 1 or len(rest) != 1:
                probs.append('intersect1d is not taken between the current selection and the given subset')
                return cur, filters, probs
            filters.append('subset')
            cur = rest[0]
            continue
        if as_set(cur) is not cur:
            cur = as_set(cur)          # sorting / de-duplicating / array conversion: the same set of spikes
            continue
        if is_t(cur) and cur[1] == 'call' and cur[2] in ('np.random.choice', 'choice', 'np.random.permutation'):
            args = [a for a in cur[4:] if not (is_t(a) and a[1] == 'kw')]
            kws = {a[2]: a[3] for a in cur[4:] if is_t(a) and a[1] == 'kw'}
            filters.append(('count', args[1] if len(args) > 1 else kws.get('size'), kws.get('replace', args[2] if len(args) > 2 else None)))
            cur = args[0]
            continue
        widening = is_t(cur) and cur[1] == 'call' and cur[2] in ('np.union1d', 'np.concatenate', 'np.append', 'np.hstack', 'np.arange', 'np.setxor1d')
        probs.append(('' if widening else 'UNDECIDED ') + 'selection is built with %s, which is not a subset-preserving step of the specification' % show(cur)[:70])
        return cur, filters, probs


def d1_call(ctx):
    repo = ctx.repo
    cls = repo.cls(A, 'SpikeSelector')
    fi = repo.lookup_method(cls, '__call__')
    if fi is None:
        raise AnchorMissing('SpikeSelector.__call__')
    selfp, n_p, ids_p = fi.params[0], fi.params[1], fi.params[2]
    chunks_p = fi.params[3] if len(fi.params) > 3 else 'subset_chunks'
    subset_p = fi.params[4] if len(fi.params) > 4 else 'subset_spikes'
    me = T('self')
    probs = {}
    npaths = 0
    flat = repo.func(A, '_flatten_per_cluster')
    for use_chunks in (False, True):
        for have_subset in (False, True):
            I = SymInterp(repo, unroll=1, inline_depth=0)
            env = {selfp: me, chunks_p: C(use_chunks), subset_p: T('param', subset_p) if have_subset else C(None)}
            cl = T('tuple', T('cluster', C(0)), T('cluster', C(1)))
            env[ids_p] = cl
            facts = {}
            if have_subset:
                facts[('is',) + tuple(sorted([C(None), T('param', subset_p)], key=repr))] = False
            outs = I.run(fi, env=env, facts=facts)
            ctx.analysed['paths'] += len(outs)
            for kind, val, st in outs:
                if kind != 'return':
                    probs.setdefault('__call__ raises %s' % val, 1)
                    continue
                if infeasible_dict_test(st):
                    continue
                npaths += 1
                stores = [e for e in st.trace if e[0] == 'setitem']
                if not stores and any(is_t(x) and (x[1] == 'dictobj' or (x[1] == 'call' and x[2] in ('dict', 'collections.OrderedDict', 'OrderedDict'))) for x in subterms(val)):
                    # the per-cluster mapping is built by dict(pairs) / a dict comprehension over a list the walk does not model: nothing is concluded
                    probs.setdefault('UNDECIDED the per-cluster selections are collected by dict(...) / a dict comprehension over a list, which the walk does not follow', 1)
                    continue
                if len(stores) != 2 or {e[4] for e in stores} != {T('cluster', C(0)), T('cluster', C(1))}:
                    probs.setdefault('two requested clusters get selections stored under %s' % [show(e[4]) for e in stores], 1)
                    continue
                # the second cluster is analysed (its facts are independent of the first one's)
                _, dct, key, sel, keyterm = stores[1]
                base, filters, pr = parse_selection(sel, me, subset_p)
                for p_ in pr:
                    probs.setdefault(p_, 1)
                if pr:
                    continue
                bargs = [a for a in base[4:]]
                if bargs[-1:] != [keyterm]:
                    probs.setdefault('the spikes are fetched for %s, not for the requested cluster' % show(bargs)[:50], 1)
                fl = [f if isinstance(f, str) else 'count' for f in filters]
                # order of application is free; multiplicity is not
                if fl.count('chunks') != (1 if use_chunks else 0):
                    probs.setdefault('with subset_chunks=%s the kept-chunk restriction is applied %d time(s)' % (use_chunks, fl.count('chunks')), 1)
                if fl.count('subset') != (1 if have_subset else 0):
                    probs.setdefault('with%s a spike subset the intersection with the subset is applied %d time(s)' % ('' if have_subset else 'out', fl.count('subset')), 1)
                cnt = [f for f in filters if not isinstance(f, str)]
                if len(cnt) > 1:
                    probs.setdefault('the random sub-selection is applied twice', 1)
                # K2: count rule under the path facts
                nterm = T('param', n_p)
                elig = None
                if cnt:
                    # eligible set = argument of choice
                    pass
                a_none = ('is',) + tuple(sorted([C(None), nterm], key=repr))
                n_is_none = st.facts.get(a_none)
                rel_n0 = I.rel(st, nterm, C(0))
                # len(eligible) vs n : the relation recorded for len(<the set the rule applies to>) and n
                elig = _choice_arg(sel) if cnt else sel
                rel_len = None
                other_len = []
                for k, v in st.facts.items():
                    if k[0] == 'rel' and nterm in k[1:]:
                        other = k[1] if k[2] == nterm else k[2]
                        if is_t(other) and other[1] == 'call' and other[2] == 'len':
                            if other[4] == elig:
                                rel_len = I.rel(st, other, nterm)
                            else:
                                other_len.append(other[4])
                if rel_len is None and cnt and other_len and not any(strip(o) == strip(elig) for o in other_len):
                    probs.setdefault('the count rule compares len(%s) but draws from %s' % (show(strip(other_len[-1]))[:50], show(strip(elig))[:50]), 1)
                fires_spec = None
                if n_is_none is True:
                    fires_spec = False
                elif n_is_none is False and rel_n0 is not None and rel_n0 != '>':
                    fires_spec = False
                elif n_is_none is False and rel_n0 == '>' and rel_len is not None:
                    fires_spec = rel_len == '>'
                if fires_spec is None:
                    # the code did not consult a fact the specification needs
                    missing = 'n is None' if n_is_none is None else ('n > 0' if rel_n0 is None else 'len(eligible) > n')
                    if cnt or True:
                        probs.setdefault('the sub-selection is decided without testing `%s` (path: n is None=%s, n vs 0: %s, len vs n: %s, fired=%s)' %
                                         (missing, n_is_none, rel_n0, rel_len, bool(cnt)), 1)
                    continue
                if bool(cnt) != fires_spec:
                    probs.setdefault('count rule: sub-selection %s although n is None=%s, n vs 0 is %s, len(eligible) vs n is %s' %
                                     ('made' if cnt else 'not made', n_is_none, rel_n0, rel_len), 1)
                if cnt:
                    _, size, repl = cnt[0]
                    if size != nterm:
                        probs.setdefault('the sub-selection draws %s spikes, not n' % show(size)[:40], 1)
                    if repl != C(False):
                        probs.setdefault('the sub-selection draws with replacement (replace=%s): fewer than n distinct spikes' % show(repl), 1)
                # K1: result
                rv = strip(val)
                ok = is_t(rv) and rv[1] == 'call' and rv[2] == '_flatten_per_cluster' and len(rv) == 4 and rv[3] == strip(dct)
                if not ok:
                    definite = rv == strip(dct) or (is_t(rv) and rv[1] == 'call' and rv[2] in ('np.concatenate', 'np.hstack', 'np.sort', 'list', 'np.array')) or \
                        (is_t(rv) and rv[1] == 'call' and rv[2] == '_flatten_per_cluster')
                    probs.setdefault(('' if definite else 'UNDECIDED ') + 'the result is %s, not the flattened per-cluster selection' % show(rv)[:70], 1)
    # empty request
    I = SymInterp(repo, unroll=1, inline_depth=0)
    outs = I.run(fi, env={selfp: me, ids_p: T('tuple')})
    empt = [val for kind, val, st in outs if kind == 'return']
    ok_empty = bool(empt) and all(is_t(strip(v)) and strip(v)[2] in ('np.array', 'np.zeros', 'np.empty') and not any(e[0] == 'setitem' for e in st.trace)
                                  for (kind, v, st) in outs if kind == 'return' and not infeasible_dict_test(st))
    und_msgs = [m_ for m_ in probs if m_.startswith('UNDECIDED ')]
    real = [m_ for m_ in probs if not m_.startswith('UNDECIDED ')]
    if real:
        for msg in real[:4]:
            ctx.violated('C17.D1', fi, msg[:150], msg)
    elif und_msgs:
        for msg in und_msgs[:3]:
            ctx.undecided('C17.D1', fi, msg[len('UNDECIDED '):])
    else:
        ctx.holds('C17.D1', fi, 'per-cluster selection = get_spikes_per_cluster(cluster) filtered by exactly the demanded steps (kept-chunk mask of '
                  'its own times iff subset_chunks; intersect1d with the subset iff given; choice(n, replace=False) iff n is not None and n > 0 and '
                  'len(eligible) > n); result = flatten of the per-cluster dictionary (%d paths over 4 flag combinations)' % npaths, '__call__')
    ctx.check(ok_empty, 'C17.K1', fi, '__call__', 'an empty cluster request returns an empty array and selects nothing',
              'an empty cluster request does not return an empty array')
    # flatten: EVERY return is unique(concatenate(values)) - a per-cluster selection drawn by np.random.choice is in random order, so returning one of the
    # values as it is (a shortcut for a single cluster) breaks "strictly increasing"
    rets = [r for r in flat.returns() if r.value is not None]
    dp = flat.params[0]
    verdicts = []
    for r in rets:
        e = flat.expand(r.value)
        cur = e
        while isinstance(cur, ast.Call) and ((q.method_name(cur) in ('astype', 'copy') and isinstance(cur.func, ast.Attribute) and dotted(cur.func) not in ('np.copy',)) or
                                             (dotted(cur.func) in ('np.asarray', 'np.array', 'np.ascontiguousarray') and cur.args)):
            cur = cur.func.value if isinstance(cur.func, ast.Attribute) and dotted(cur.func) not in ('np.asarray', 'np.array', 'np.ascontiguousarray') else cur.args[0]
        P_ = Pat()
        if P_.any(['np.unique(np.concatenate(E_v))', 'np.unique(np.hstack(E_v))', 'np.unique(np.concatenate(E_v, REST))'], cur):
            vals = cur.args[0].args[0]
            if Pat().any(['list(%s.values())' % dp, 'tuple(%s.values())' % dp, '[V_x for V_x in %s.values()]' % dp, '[%s[V_k] for V_k in %s]' % (dp, dp)], vals):
                verdicts.append(('good', r))
            else:
                verdicts.append(('unknown', r))
        elif Pat().any(['np.sort(np.concatenate(E_v))', 'np.concatenate(E_v)', 'np.hstack(E_v)', 'E_l[0]', 'E_l[-1]', 'next(iter(E_l))'], cur) or \
                (isinstance(cur, ast.Subscript) and not isinstance(cur.slice, ast.Slice) and
                 (Pat().any([dp, 'list(%s.values())' % dp, 'tuple(%s.values())' % dp], cur.value) or isinstance(cur.slice, ast.Constant))):
            verdicts.append(('bad', r))           # no de-duplication / no sorting: one stored value or a plain concatenation
        else:
            verdicts.append(('unknown', r))
    bad = [r for k_, r in verdicts if k_ == 'bad']
    if bad:
        ctx.violated('C17.K1', flat, bad[0], 'the flattened selection `%s` is not np.unique(np.concatenate(all per-cluster selections)): a per-cluster selection drawn at random is '
                     'returned in random order' % unparse(bad[0].value)[:80])
    elif verdicts and all(k_ == 'good' for k_, r in verdicts):
        ctx.holds('C17.K1', flat, 'the flattened selection is np.unique(np.concatenate(values)) on every return: strictly increasing, no duplicates', verdicts[-1][1])
    else:
        ctx.undecided('C17.K1', flat, 'a return of _flatten_per_cluster was not recognised')


def _choice_arg(sel):
    cur = sel
    while is_t(cur):
        if cur[1] == 'call' and cur[2] in ('np.random.choice', 'choice'):
            return [a for a in cur[4:] if not (is_t(a) and a[1] == 'kw')][0]
        if cur[1] == 'index':
            cur = cur[2]
        elif cur[1] == 'call' and cur[2] in ('np.intersect1d',):
            cur = cur[4]
        else:
            break
    return cur


def cdiv_norm(e):
    """Normalise ceil-division spellings of an ast expression to the text 'cdiv(a,b)'."""
    t = unparse(e).replace(' ', '')
    return t


# step: max(1, ceil-division(n_chunks, kept))
class _Unwrap(ast.NodeTransformer):
    """len(np.asarray(b)) == len(b), np.asarray(b).shape[0] == len(b): the array wrapper of the supplied grid does not change its length"""
    def visit_Call(self, n):
        self.generic_visit(n)
        if dotted(n.func) in ('np.asarray', 'np.array', 'np.asanyarray', 'list', 'tuple') and len(n.args) == 1 and not n.keywords:
            return n.args[0]
        return n

    def visit_Subscript(self, n):
        self.generic_visit(n)
        if isinstance(n.value, ast.Attribute) and n.value.attr == 'shape' and const_value(n.slice) == 0:
            return ast.Call(func=ast.Name(id='len', ctx=ast.Load()), args=[n.value.value], keywords=[])
        return n


def txt(x):
    import copy as _copy
    return unparse(_Unwrap().visit(_copy.deepcopy(x))).replace(' ', '')

def divform(e):
    """-> ('ceil'|'floor', numerator text, denominator text) or None"""
    if isinstance(e, ast.Call) and dotted(e.func) in ('int', 'np.int64', 'np.int32') and len(e.args) == 1:
        inner = divform(e.args[0])
        if inner:
            return inner
        x = e.args[0]
        if isinstance(x, ast.BinOp) and isinstance(x.op, ast.Div):
            return ('floor', txt(x.left), txt(x.right))
        return None
    if isinstance(e, ast.Call) and (dotted(e.func) or '').split('.')[-1] in ('ceil', 'floor') and len(e.args) == 1:
        x = e.args[0]
        if isinstance(x, ast.BinOp) and isinstance(x.op, ast.Div):
            den = x.right
            if isinstance(den, ast.Call) and dotted(den.func) == 'float':
                den = den.args[0]
            num = x.left
            if isinstance(num, ast.Call) and dotted(num.func) == 'float':
                num = num.args[0]
            return ((dotted(e.func) or '').split('.')[-1], txt(num), txt(den))
        return None
    if isinstance(e, ast.BinOp) and isinstance(e.op, ast.FloorDiv):
        l = e.left
        if isinstance(l, ast.BinOp) and isinstance(l.op, ast.Sub) and const_value(l.right) == 1 and isinstance(l.left, ast.BinOp) and \
                isinstance(l.left.op, ast.Add) and txt(l.left.right) == txt(e.right):
            return ('ceil', txt(l.left.left), txt(e.right))
        return ('floor', txt(l), txt(e.right))
    if isinstance(e, ast.UnaryOp) and isinstance(e.op, ast.USub) and isinstance(e.operand, ast.BinOp) and isinstance(e.operand.op, ast.FloorDiv) and \
            isinstance(e.operand.left, ast.UnaryOp) and isinstance(e.operand.left.op, ast.USub):
        return ('ceil', txt(e.operand.left.operand), txt(e.operand.right))
    return None


def _vector_form(ctx, fi, bounds_p, kept_p):
    """Kept chunks without a loop: column_stack((b[:-1][::step], b[1:][::step])).ravel() (helpers extracted after the pinned tree are inlined by expand)."""
    fin = [a for a in fi.nodes(ast.Assign) if Pat().m('self.chunks_kept', a.targets[0])]
    if len(fin) != 1:
        return ctx.undecided('C17.S1', fi, 'no loop building the kept chunks')
    e = fi.expand(fin[0].value, stop=(bounds_p, kept_p), depth=10)
    P = Pat()
    if not P.any(['np.column_stack((E_s, E_e)).ravel()', 'np.column_stack([E_s, E_e]).ravel()', 'np.stack((E_s, E_e), axis=1).ravel()', 'np.c_[E_s, E_e].ravel()',
                  'np.vstack((E_s, E_e)).T.ravel()', 'np.column_stack((E_s, E_e)).flatten()', 'np.column_stack((E_s, E_e)).reshape(-1)'], e):
        return ctx.undecided('C17.S1', fi, 'construction of the kept chunks `%s` not recognised' % unparse(e)[:80], fin[0])
    starts = [n for n in ast.walk(e)]
    # recover the two operands structurally
    tup = [n for n in ast.walk(e) if isinstance(n, (ast.Tuple, ast.List)) and len(n.elts) == 2]
    s_e, e_e = tup[0].elts
    base = [bounds_p, 'np.asarray(%s)' % bounds_p, 'np.array(%s)' % bounds_p]
    PS = Pat()
    s_ok = any(PS.m(f_ % b_, s_e) for b_ in base for f_ in ('%s[:-1][::E_step]', '%s[:-1:E_step]', '%s[0:-1:E_step]'))
    PE = Pat(binds=PS.b)
    e_ok = s_ok and any(PE.m(f_ % b_, e_e) for b_ in base for f_ in ('%s[1:][::E_step]', '%s[1::E_step]'))
    vocab = lambda x: {n.id for n in ast.walk(x) if isinstance(n, ast.Name)} <= {bounds_p, kept_p, 'np', 'len', 'max', 'int', 'ceil', 'floor', 'math', 'float'} and \
        not any(isinstance(n, ast.Call) and (dotted(n.func) or '') not in ('np.asarray', 'np.array', 'len', 'max', 'int', 'ceil', 'floor', 'math.ceil', 'math.floor', 'np.ceil', 'np.floor', 'float') for n in ast.walk(x))
    # fancy-index form: b[S], b[S + 1] with S = np.arange(start, stop, step) - the vectorised range(start, stop, step) loop
    PF = Pat()
    f_ok = (not s_ok) and any(PF.m('%s[E_idx]' % b_, s_e) for b_ in base) and any(Pat(binds=PF.b).m(f_ % b_, e_e) for b_ in base for f_ in ('%s[E_idx + 1]', '%s[1 + E_idx]', '%s[1:][E_idx]'))
    if f_ok:
        idx = s_e.slice
        PA = Pat()
        nch = 'len(%s)-1' % bounds_p
        if PA.any(['np.arange(E_a0, E_a1, E_step)', 'np.arange(E_a0, E_a1, E_step, REST)', 'np.array(range(E_a0, E_a1, E_step))', 'np.asarray(range(E_a0, E_a1, E_step))',
                   'list(range(E_a0, E_a1, E_step))', 'range(E_a0, E_a1, E_step)'], idx):
            call = idx if dotted(idx.func) in ('np.arange', 'range') else idx.args[0]
            a0, a1, a2 = call.args[:3]
            t0, t1 = unparse(a0).replace(' ', ''), unparse(a1).replace(' ', '')
            n_forms = (nch, 'len(np.asarray(%s))-1' % bounds_p, 'len(np.array(%s))-1' % bounds_p, '%s.shape[0]-1' % bounds_p, 'np.asarray(%s).shape[0]-1' % bounds_p, 'np.asarray(%s).size-1' % bounds_p)
            ctx.tri(t0 == '0', const_value(a0) is not None and t0 != '0', 'C17.S1', fi, a0, 'kept chunks start with the first chunk', 'kept chunks start at %s, not at the first chunk' % t0, 'start of the kept-chunk indices not recognised')
            ctx.tri(t1 in n_forms, (t1 not in n_forms) and vocab(a1), 'C17.S1', fi, a1, 'stride runs over all n_chunks = len(bounds) - 1 chunks',
                    'the kept-chunk indices run up to %s, not to n_chunks = len(bounds) - 1: the last stride position is dropped (or a non-existing chunk is addressed) for some chunk counts' % t1,
                    'stop of the kept-chunk indices `%s` not recognised' % t1)
            ctx.holds('C17.S1', fi, 'each kept chunk contributes its whole interval (bounds[i], bounds[i+1])', e_e)
            ctx.holds('C17.S1', fi, 'kept bounds are stored as the flat list of (start, end) pairs, multiplicity preserved', fin[0])
            judge_stride(ctx, fi, a2, divform, nch, kept_p)
        else:
            ctx.undecided('C17.S1', fi, 'indices of the kept chunks `%s` not recognised' % unparse(idx)[:60], fin[0])
        return
    if s_ok and e_ok:
        ctx.holds('C17.S1', fi, 'kept chunks start with the first chunk', s_e)
        ctx.holds('C17.S1', fi, 'stride runs over all n_chunks = len(bounds) - 1 chunks', s_e)
        ctx.holds('C17.S1', fi, 'each kept chunk contributes its whole interval (bounds[i], bounds[i+1])', e_e)
        ctx.holds('C17.S1', fi, 'kept bounds are stored as the flat list of (start, end) pairs, multiplicity preserved', fin[0])
        step = [n for n in ast.walk(s_e) if isinstance(n, ast.Slice) and n.step is not None][0].step
        judge_stride(ctx, fi, step, divform, 'len(%s)-1' % bounds_p, kept_p)
    elif vocab(s_e) and vocab(e_e):
        ctx.violated('C17.S1', fi, fin[0], 'the kept bounds are (%s, %s): not the (start, end) pairs of every step-th chunk of the supplied grid, starting with the first' %
                     (unparse(s_e)[:60], unparse(e_e)[:60]))
    else:
        ctx.undecided('C17.S1', fi, 'operands of the kept-chunk table not recognised (%s, %s)' % (unparse(s_e)[:50], unparse(e_e)[:50]), fin[0])


def s1_init(ctx):
    repo = ctx.repo
    cls = repo.cls(A, 'SpikeSelector')
    fi = repo.lookup_method(cls, '__init__')
    bounds_p = fi.params[3] if len(fi.params) > 3 else 'chunk_bounds'
    kept_p = fi.params[4] if len(fi.params) > 4 else 'n_chunks_kept'
    loops = fi.nodes(ast.For)
    if not loops:
        _vector_form(ctx, fi, bounds_p, kept_p)
        _stored(ctx, fi)
        return
    lp = loops[0]
    it = fi.expand(lp.iter, stop=(bounds_p, kept_p))
    ok_range = isinstance(it, ast.Call) and dotted(it.func) == 'range' and len(it.args) == 3
    if not ok_range:
        ctx.undecided('C17.S1', fi, 'kept chunks are not enumerated by range(start, stop, step)', lp.iter)
        return
    a0, a1, a2 = it.args
    nch = 'len(%s)-1' % bounds_p
    t0, t1, t2 = (unparse(x).replace(' ', '') for x in (a0, a1, a2))
    ctx.check(t0 == '0', 'C17.S1', fi, lp.iter, 'kept chunks start with the first chunk', 'kept chunks start at %s, not at the first chunk' % t0)
    ctx.check(t1 == nch, 'C17.S1', fi, lp.iter, 'stride runs over all n_chunks = len(bounds) - 1 chunks', 'stride runs up to %s, not len(bounds) - 1' % t1)
    judge_stride(ctx, fi, a2, divform, nch, kept_p)
    _rest_of_loop_form(ctx, fi, lp, bounds_p)
    _stored(ctx, fi)


def judge_stride(ctx, fi, a2, divform, nch, kept_p):
    inner = None
    has_max1 = False
    if isinstance(a2, ast.Call) and dotted(a2.func) == 'max' and len(a2.args) == 2:
        for x, y in ((a2.args[0], a2.args[1]), (a2.args[1], a2.args[0])):
            if const_value(x) == 1:
                has_max1 = True
                inner = divform(y)
    else:
        inner = divform(a2)
    nums = {nch, '(%s)' % nch}
    if inner and inner[1] in nums and inner[2] == kept_p:
        if inner[0] == 'ceil':
            ctx.holds('C17.S1', fi, 'stride = %sceil(n_chunks / n_chunks_kept): at most n_chunks_kept chunks are kept' % ('max(1, .) of ' if has_max1 else ''), a2)
        elif inner[0] == 'floor':
            ctx.violated('C17.S1', fi, a2, 'stride `%s` rounds n_chunks / n_chunks_kept down: more than n_chunks_kept chunks can be kept' % unparse(a2))
    elif inner:
        ctx.violated('C17.S1', fi, a2, 'stride `%s` divides %s by %s, not the number of chunks by the number of kept chunks' % (unparse(a2), inner[1], inner[2]))
    else:
        ctx.undecided('C17.S1', fi, 'stride formula `%s` not recognised' % unparse(a2), a2)


def _rest_of_loop_form(ctx, fi, lp, bounds_p):
    # whole intervals bounds[i:i+2]
    i = unparse(lp.target)
    ext = [c for c in q.calls_named(lp, 'extend', 'append')]
    ok_int = False
    for c in ext:
        if c.args:
            t = unparse(c.args[0]).replace(' ', '')
            if t in ('%s[%s:%s+2]' % (bounds_p, i, i),) and q.method_name(c) == 'extend':
                ok_int = True
                node = c
            if t in ('(%s[%s],%s[%s+1])' % (bounds_p, i, bounds_p, i), '[%s[%s],%s[%s+1]]' % (bounds_p, i, bounds_p, i)) and q.method_name(c) == 'extend':
                ok_int = True
                node = c
    ctx.check(ok_int, 'C17.S1', fi, node if ok_int else lp, 'each kept chunk contributes its whole interval (bounds[i], bounds[i+1])',
              'kept chunks are not whole intervals bounds[i:i+2] of the supplied grid')
    # the stored bounds keep one (start, end) pair per kept chunk: the parity test needs the shared bound of adjacent chunks twice
    fin = [a for a in fi.nodes(ast.Assign) if unparse(a.targets[0]) == 'self.chunks_kept' and not isinstance(a.value, ast.List)]
    for a in fin:
        v = a.value
        f = dotted(v.func) if isinstance(v, ast.Call) else None
        dt_ = q.arg(v, 1, 'dtype') if isinstance(v, ast.Call) and f in ('np.array', 'np.asarray') else None
        dt_x = fi.expand(dt_) if dt_ is not None else None
        narrowing = dt_x is not None and (any(isinstance(n, ast.Attribute) and n.attr == 'dtype' for n in ast.walk(dt_x)) or
                                          (dotted(dt_x) or '').split('.')[-1] in ('int', 'int64', 'int32', 'uint64', 'uint32', 'intp', 'int16', 'uint16') or
                                          (isinstance(dt_x, ast.Name) and dt_x.id == 'int') or const_value(dt_x) in ('int', 'int64', 'i8', 'u8', 'uint64'))
        if narrowing:
            ctx.violated('C17.S1', fi, a, 'the kept bounds are converted to dtype `%s`: bounds of the supplied grid that this type cannot hold (fractional bounds with integer spike times) are '
                         'truncated, and spikes in the cut-off part of a kept chunk are dropped' % unparse(dt_))
        elif dt_x is not None and (dotted(dt_x) or '').split('.')[-1] not in ('float', 'float64', 'double'):
            ctx.undecided('C17.S1', fi, 'dtype `%s` of the stored kept bounds not recognised' % unparse(dt_), a)
        elif f in ('np.array', 'np.asarray', 'np.concatenate', 'np.hstack', 'np.sort', 'list', 'tuple') or isinstance(v, ast.Attribute):
            ctx.holds('C17.S1', fi, 'kept bounds are stored as the flat list of (start, end) pairs, multiplicity preserved', a)
        elif f in ('np.unique', 'set', 'sorted') and (f != 'sorted' or 'set(' in unparse(v)):
            ctx.violated('C17.S1', fi, a, '`%s` removes repeated bounds: adjacent kept chunks share a bound, and without the repetition the odd/even membership test '
                         'drops every second chunk (stride 1)' % unparse(a))
        else:
            ctx.undecided('C17.S1', fi, 'conversion of the kept bounds `%s` not recognised' % unparse(a), a)


def _stored(ctx, fi):
    # stored attributes used by __call__
    st = {unparse(t) for n_, t in q.stores_to(fi, lambda e: isinstance(e, ast.Attribute))}
    need = {'self.get_spikes_per_cluster', 'self.spike_times', 'self.chunks_kept'}
    ctx.check(need <= st, 'C17.S1', fi, '__init__', 'selector stores its spike source, spike times and kept chunks', 'selector does not store %s' % sorted(need - st))
    for n_, t in q.stores_to(fi, lambda e: isinstance(e, ast.Attribute) and unparse(e) in ('self.get_spikes_per_cluster', 'self.spike_times')):
        v = unparse(n_.value) if isinstance(n_, ast.Assign) else ''
        exp = {'self.get_spikes_per_cluster': fi.params[1], 'self.spike_times': fi.params[2]}[unparse(t)]
        ctx.check(v == exp, 'C17.S1', fi, n_, '%s is the constructor argument' % unparse(t), '%s is set from `%s`' % (unparse(t), v))


def s2_times_in_chunks(ctx):
    try:
        fi = ctx.repo.func(A, '_times_in_chunks')
    except AnchorMissing:
        # the helper was merged into its caller: the membership test is then part of the selection term, which D1 judges; nothing is concluded here
        ctx.undecided('C17.S2', A + ':SpikeSelector.__call__', 'the chunk-membership helper _times_in_chunks no longer exists (merged into its caller): its parity rule is not judged separately')
        return
    tp, kp = fi.params[0], fi.params[1]
    rets = [r for r in fi.returns() if r.value is not None]
    if not rets:
        ctx.undecided('C17.S2', fi, 'no return')
        return
    e = fi.expand(rets[-1].value)
    ss = [c for c in ast.walk(e) if isinstance(c, ast.Call) and dotted(c.func) in ('np.searchsorted', 'searchsorted') or
          (isinstance(c, ast.Call) and q.method_name(c) == 'searchsorted')]
    # a binary search IN the times (the kept bounds located among the spike times) is only right when the times it is given are sorted; the times of a cluster's spikes
    # come in spike-id order and nothing makes them non-decreasing: recognised wrong form
    for c_ in [c for c in fi.calls() if dotted(c.func) in ('np.searchsorted', 'searchsorted') or q.method_name(c) == 'searchsorted']:
        hay_ = q.arg(c_, 0, 'a') if dotted(c_.func) else c_.func.value
        hx = fi.expand(hay_) if hay_ is not None else None
        if hx is not None and Pat().any([tp, 'np.asarray(%s)' % tp, 'np.asarray(%s, REST)' % tp, 'np.array(%s)' % tp, 'np.atleast_1d(%s)' % tp, '%s.ravel()' % tp], hx):
            ctx.violated('C17.S2', fi, c_, '`%s` searches IN the spike times: that assumes they are sorted, but the times handed over are those of a cluster\'s spikes in spike-id order; '
                         'out-of-order times put spikes of a dropped chunk inside the selection and kept ones outside' % unparse(c_)[:80])
            return
    if len(ss) != 1:
        ctx.undecided('C17.S2', fi, 'membership is not computed with one searchsorted', rets[-1])
        return
    c = ss[0]
    hay = unparse(q.arg(c, 0, 'a')) if dotted(c.func) else unparse(c.func.value)
    needle = q.arg(c, 1 if dotted(c.func) else 0, 'v')
    side = q.arg(c, 2 if dotted(c.func) else 1, 'side')
    def _arr(x_):
        x_ = fi.expand(x_) if x_ is not None else None
        while isinstance(x_, ast.Call) and dotted(x_.func) in ('np.asarray', 'np.array', 'np.atleast_1d', 'np.ravel') and x_.args:
            x_ = x_.args[0]
        return unparse(x_) if x_ is not None else None
    hay_n = q.arg(c, 0, 'a') if dotted(c.func) else c.func.value
    ctx.tri(_arr(hay_n) == kp and _arr(needle) == tp, _arr(hay_n) == tp or (_arr(hay_n) == kp and _arr(needle) == kp), 'C17.S2', fi, c, 'the times are located among the kept bounds',
            'searchsorted(%s, %s) does not locate the times among the kept bounds' % (hay, unparse(needle) if needle is not None else '?'),
            'the arguments of searchsorted(%s, %s) were not recognised as the kept bounds and the times' % (hay, unparse(needle) if needle is not None else '?'))
    ctx.tri(const_value(side) == 'right', side is None or isinstance(const_value(side), str), 'C17.S2', fi, c,
            "side='right': a spike exactly on the first bound of a kept chunk is inside, on its end bound outside",
            "searchsorted side is %r: spikes exactly on chunk bounds are assigned to the wrong side" % (const_value(side) if side is not None else 'left'),
            'the side argument of searchsorted is not a literal')
    t = unparse(e).replace(' ', '')
    s = unparse(c).replace(' ', '')
    par = t.replace(s, 'IND')
    ok = par in ('IND%2==1', 'IND%2!=0', 'IND&1==1', '(IND&1)==1', '(IND%2).astype(bool)', 'IND%2>0')
    bad = par in ('IND%2==0', 'IND%2!=1', 'IND%2<1')
    if ok:
        ctx.holds('C17.S2', fi, 'inside a kept chunk <=> odd number of kept bounds <= t', rets[-1])
    elif bad:
        ctx.violated('C17.S2', fi, rets[-1], 'membership uses even parity (`%s`): it selects the spikes OUTSIDE the kept chunks' % unparse(rets[-1].value))
    else:
        ctx.undecided('C17.S2', fi, 'parity test `%s` not recognised' % par, rets[-1])


def u1_use(ctx):
    fi = ctx.repo.func(M, 'TemplateModel.save_spikes_subset_waveforms')
    ctor = [c for c in fi.calls() if dotted(c.func) == 'SpikeSelector']
    if not ctor:
        ctx.undecided('C17.U1', fi, 'SpikeSelector is not constructed here')
        return
    c = ctor[0]
    kw = {k.arg: unparse(k.value) for k in c.keywords}
    ok = kw.get('spike_times') == 'self.spike_samples' and kw.get('chunk_bounds') == 'self.traces.chunk_bounds'
    ctx.check(ok, 'C17.U1', fi, c, 'the selector works on the spike samples and on the chunk grid of the recording',
              'the selector is built on %s / %s' % (kw.get('spike_times'), kw.get('chunk_bounds')))
    name = None
    for n_, t in q.stores_to(fi, lambda e: isinstance(e, ast.Name)):
        if isinstance(n_, ast.Assign) and n_.value is c:
            name = t.id
    use = [x for x in fi.calls() if isinstance(x.func, ast.Name) and x.func.id == name]
    ok2 = bool(use) and const_value(q.arg(use[0], 2, 'subset_chunks')) is True
    ctx.check(ok2, 'C17.U1', fi, use[0] if use else c, 'the subset export restricts the selection to the kept chunks',
              'the subset export does not request the chunk restriction')


def run(ctx):
    ctx.part('C17.D1', d1_call)
    ctx.part('C17.S1', s1_init)
    ctx.part('C17.S2', s2_times_in_chunks)
    ctx.part('C17.U1', u1_use)


LEVEL_TEXT = ('Static path walk of SpikeSelector.__call__ over all flag combinations and test outcomes: the provenance of every per-cluster '
              'selection (source cluster, chunk mask of its own times, subset intersection, count rule n is not None and n > 0 and len > n with '
              'choice(n, replace=False)) is compared with the specification on the same path facts; plus the stride formula / whole-interval '
              'rule of the kept chunks, the parity membership test, and de-duplication/sorting of the result.')
LEVEL_NOTE = ('Trusted: subset semantics of np.intersect1d / boolean masks / np.random.choice(replace=False) / np.unique, searchsorted(side=right). '
              'Not decided: randomness, value-level counts, behaviour of the caller-supplied spike source.')
TECHNIQUE = 'static analysis: path-sensitive provenance (dataflow) walk plus formula/comparator matching on the ast'
