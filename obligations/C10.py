"""C10 - saved curation state survives any save/reload history.

Decided
  F1  effects of the saving methods (fx, whole call trees): save_metadata(name, .) writes only DATASET/cluster_<name>.tsv;
      save_spike_clusters writes only the file its lookup of spike_clusters.npy | spikes.clusters.npy returns;
      save_spikes_subset_waveforms writes only the three _phy_spikes_subset.* files; close writes nothing.
      Hence no save ever writes spike templates, spike times or any other dataset file.
  F2  neither loading nor a save creates a dataset file as a hard / symbolic link to another one (a save in place would
      then rewrite both names, e.g. the spike templates through the cluster file)
  T1  writer/reader agreement: the saved metadata file matches the loader's glob and is not excluded; the header key
      `cluster_id` written by the saver is the key the loader groups by; the cluster file saved is the first-priority file
      of the loader; the subset-store names agree between saver, loader and the ALF copy table; the loader reads all
      three members or none
  P1  each metadata file is loaded inside a handler that catches any exception and continues
  D1  None values are dropped before writing; a later file / row overrides an earlier one per field and cluster
  +   the metadata writer and reader use the same csv dialect (quoting, quote / escape characters); the subset store is never half-loaded
      (existence test on all three files, or every read inside a handler that answers "no store")
  +   prerequisite: the export and lookup routes of the waveform subset (C03.S2, Y4, Y1, A1, A2, P1) hold - "subset-store waveforms equal those read from the raw data"
  +   the metadata reader takes the delimiter it finds in the header line (delimiter tables shared with C18.T3)
Not decided: overwrite semantics across histories at value level, cell typing (C18), the waveforms themselves (C03).
"""
import ast
import fnmatch

from vlib import q, fx
from vlib.fx import P, K, O, L, R, U, A
from vlib.fxmodel import make_fx, model_obj, effect_sites, check_find_path_anchor
from vlib.pat import Pat, returned
from vlib.front import str_eval, unparse, dotted, const_value, AnchorMissing

M = 'phylib/io/model.py'
U_ = 'phylib/utils/_misc.py'
ALF = 'phylib/io/alf.py'
FLOOR = 10          # decided obligations below this = the analysis lost its footing (exit 2); clean tree: 29
RULES = ('C10.D1', 'C10.F1', 'C10.F2', 'C10.P1', 'C10.T1')          # every obligation group must report (holds / violated / undecided): a group that vanishes silently is an analysis error
SUBSET = ['_phy_spikes_subset.waveforms.npy', '_phy_spikes_subset.spikes.npy', '_phy_spikes_subset.channels.npy']
EXPLANATION = ('fx engine over the call trees of the four saving methods of TemplateModel (effects with root and name pattern, symbolic '
               'field name) compared with a per-method whitelist; tab rules compare the names / header / exclusion list used by the savers '
               'with those used by the loaders and by the ALF copy table')
TRUSTED = ['python ast', 'effect primitive catalogue of vlib/fx.py', 'fnmatch semantics of Path.glob patterns']
ASSUMPTIONS = ['metadata field names are identifiers other than "info" (see known finding F19)']


def f1_effects(ctx):
    repo = ctx.repo
    if not check_find_path_anchor(repo):
        raise AnchorMissing('TemplateModel._find_path no longer globs self.dir_path')
    cls = repo.cls(M, 'TemplateModel')
    spec = {
        'save_metadata': ([K('NAME'), U], lambda kind, pat: kind == 'write' and pat == 'cluster_NAME.tsv' or kind == 'mkdir'),
        'save_spike_clusters': ([U], lambda kind, pat: kind == 'write' and pat is not None and all(a in ('spike_clusters.npy', 'spikes.clusters.npy') or
                                                                                               fnmatch.fnmatchcase(a, 'spikes.clusters*.npy') for a in pat.split('|'))),
        'save_spikes_subset_waveforms': ([U, U, U], lambda kind, pat: kind == 'write' and pat in SUBSET),
        'close': ([], lambda kind, pat: False),
    }
    for mname, (args, allowed) in spec.items():
        fi = repo.lookup_method(cls, mname)
        if fi is None:
            raise AnchorMissing('TemplateModel.%s' % mname)
        f = make_fx(repo)
        obj = model_obj(repo)
        obj.fields.update({'traces': O(repo.cls('phylib/io/traces.py', 'BaseEphysReader')), 'spike_templates': A(), 'spike_samples': A(),
                           'n_templates': U, 'n_samples_waveforms': U, 'n_closest_channels': U, 'template_ids': U, 'sparse_templates': R({'data': A(), 'cols': K(None)})})
        f.run(fi, self_obj=obj, args=args)
        ctx.analysed['call_sites'] += f.calls_seen
        sites = effect_sites(f.effects)
        bad = 0
        for e, root, pat in sites:
            if root == 'DATASET' and allowed(e.kind, pat):
                continue
            if e.kind == 'mkdir' and root == 'DATASET':
                continue
            bad += 1
            what = {'write': 'writes', 'delete': 'deletes', 'mmap-write': 'modifies in place', 'mkdir': 'creates directory'}[e.kind]
            ctx.violated('C10.F1', e.fi, e.node, '%s %s %s/%s, which is outside what this save may touch [%s; call chain %s]' %
                         (mname, what, root, pat, e.detail, e.chain()))
        if not bad:
            wr = sorted({pat for e, root, pat in sites if e.kind == 'write' and pat})
            ctx.holds('C10.F1', fi, '%s may write only %s (%d effect sites, %d call sites interpreted)' % (mname, wr or 'nothing', len(sites), f.calls_seen), mname)
        if mname == 'save_spikes_subset_waveforms':
            wr = {pat for e, root, pat in sites if e.kind == 'write'}
            ctx.check(set(SUBSET) <= wr, 'C10.F1', fi, mname, 'all three members of the subset store are written',
                      'the subset export no longer writes %s' % sorted(set(SUBSET) - wr))
        if mname == 'save_metadata':
            ctx.check(any(pat == 'cluster_NAME.tsv' for e, root, pat in sites if e.kind == 'write'), 'C10.F1', fi, mname,
                      'save_metadata(name, .) writes cluster_<name>.tsv', 'save_metadata does not write cluster_<name>.tsv')
        if mname in ('save_metadata', 'save_spike_clusters'):
            # the overwrite is unconditional: a save that is skipped for some values leaves the previous file, and a reload shows stale state
            for e, root, pat in sites:
                if e.kind != 'write':
                    continue
                conds = []
                for g in e.all_guards():
                    node, br, gfi = g
                    if isinstance(node, ast.Try):
                        continue
                    conds.append((node, br, gfi))
                ctx.check(not conds, 'C10.F1', e.fi, e.node, '%s always rewrites its file (the write is not conditional)' % mname,
                          '%s writes its file only when `%s` is %s: for other values the previously saved file is left in place and a reload shows the stale mapping '
                          '(e.g. saving a mapping whose entries are all None after a non-empty one)' %
                          (mname, unparse(conds[0][0]) if conds else '', {True: 'true', False: 'false', 'after-exit': 'false'}.get(conds[0][1], conds[0][1]) if conds else ''))
        if mname == 'save_spike_clusters':
            ctx.check(any(e.kind == 'write' for e, root, pat in sites), 'C10.F1', fi, mname, 'save_spike_clusters writes the cluster file',
                      'save_spike_clusters writes nothing')


def f2_no_alias(ctx):
    """No dataset file is created as a hard link / symbolic link to another one, neither by loading nor by a save: a save that rewrites one
    name in place would rewrite the other (spike templates unchanged after saving the clusters)."""
    repo = ctx.repo
    cls = repo.cls(M, 'TemplateModel')
    n = 0
    bad = 0
    for mname in ('__init__', 'save_metadata', 'save_spike_clusters', 'save_spikes_subset_waveforms'):
        fi = repo.lookup_method(cls, mname)
        f = make_fx(repo)
        obj = model_obj(repo)
        if mname != '__init__':
            obj.fields.update({'traces': O(repo.cls('phylib/io/traces.py', 'BaseEphysReader')), 'spike_templates': A(), 'spike_samples': A(),
                               'n_templates': U, 'n_samples_waveforms': U, 'n_closest_channels': U, 'template_ids': U, 'sparse_templates': R({'data': A(), 'cols': K(None)})})
        f.run(fi, self_obj=obj, args=None if mname == '__init__' else [U] * max(0, len(fi.real_params) - 1))
        n += f.calls_seen
        for e in f.effects:
            if e.kind == 'alias':
                bad += 1
                ctx.violated('C10.F2', e.fi, e.node, 'TemplateModel.%s creates a dataset file as a link to another file [%s; call chain %s]: the two names share their bytes, '
                             'so saving one of them in place rewrites the other (e.g. the spike templates after the cluster assignments are saved)' % (mname, e.detail, e.chain()))
    if not bad:
        ctx.holds('C10.F2', repo.lookup_method(cls, '__init__'), 'neither loading nor any save creates a dataset file as a hard / symbolic link to another file '
                  '(%d call sites interpreted): files written by a save are private to their name' % n, 'no link primitives')
    ctx.analysed['call_sites'] += n


def t1_agreement(ctx):
    repo = ctx.repo
    cls = repo.cls(M, 'TemplateModel')
    lm = repo.lookup_method(cls, '_load_metadata')
    globs = [v for c in lm.calls() if q.method_name(c) == 'glob' and c.args for v in (q.const_values(lm, c.args[0]) or [None])]
    excl = None
    for a in lm.nodes(ast.Assign):
        if isinstance(a.value, (ast.Tuple, ast.List)) and all(isinstance(const_value(e), str) for e in a.value.elts):
            excl = [const_value(e) for e in a.value.elts]
    name = 'cluster_NAME.tsv'
    ctx.check(any(g and fnmatch.fnmatchcase(name, g) for g in globs), 'C10.T1', lm, 'globs %s' % globs, 'the saved metadata file cluster_<name>.tsv matches the loader globs %s' % globs,
              'the loader globs %s do not match cluster_<name>.tsv: saved fields are not reloaded' % globs)
    if excl is None:
        ctx.holds('C10.T1', lm, 'no file is excluded from metadata loading', '_load_metadata')
    for ex in excl or []:
        hit = fnmatch.fnmatchcase(ex + '.tsv', 'cluster_*.tsv')
        ctx.check(not hit, 'C10.T1', lm, 'excluded stem %r' % ex, 'excluded stem %r is not the name of a saved metadata file' % ex,
                  'the loader skips the file stem %r, which is exactly what save_metadata(%r, .) writes: that field is saved but never reloaded' % (ex, ex[len('cluster_'):]))
    # exclusion must be tested on the stem
    memb = [n for n in ast.walk(lm.node) if isinstance(n, ast.Compare) and len(n.ops) == 1 and isinstance(n.ops[0], (ast.In, ast.NotIn))]
    uses_stem = [n for n in memb if 'stem' in unparse(n.left)]
    uses_name = [n for n in memb if '.name' in unparse(n.left) or unparse(n.left).startswith('str(')]
    if uses_stem:
        ctx.holds('C10.T1', lm, 'exclusion is decided on the file stem', uses_stem[0])
    elif uses_name:
        ctx.violated('C10.T1', lm, uses_name[0], 'exclusion is decided on `%s`, not on the file stem: the excluded names carry no extension' % unparse(uses_name[0].left))
    else:
        ctx.undecided('C10.T1', lm, 'the exclusion test of _load_metadata was not recognised')
    # header key
    ws = repo.func(U_, '_write_tsv_simple')
    hdr = [c for c in q.calls_named(ws, 'writerow')]
    key_w = const_value(hdr[0].args[0].elts[0]) if hdr and isinstance(hdr[0].args[0], (ast.List, ast.Tuple)) and hdr[0].args[0].elts else None
    ldm = repo.func(M, 'load_metadata')
    keys_r = {const_value(n.left) for n in ast.walk(ldm.node) if isinstance(n, ast.Compare) and isinstance(n.ops[0], (ast.In, ast.NotEq, ast.Eq)) and isinstance(const_value(n.left), str)}
    keys_r |= {const_value(n.slice) for n in ast.walk(ldm.node) if isinstance(n, ast.Subscript) and isinstance(const_value(n.slice), str)}
    keys_r |= {const_value(n.comparators[0]) for n in ast.walk(ldm.node) if isinstance(n, ast.Compare) and isinstance(const_value(n.comparators[0]), str)}
    ctx.check(key_w is not None and key_w in keys_r and keys_r == {key_w}, 'C10.T1', ldm, 'header key', 'saver header key %r is the key the loader groups rows by' % key_w,
              'the saver writes header key %r but the loader looks for %s' % (key_w, sorted(keys_r)))
    # save_metadata -> _write_tsv_simple(path, name, dict)
    sm = repo.func(M, 'save_metadata')
    c = [x for x in sm.calls() if dotted(x.func) == '_write_tsv_simple']
    fw = [sm.expand(q.arg(c[0], k_, n_), rebound=True) if q.arg(c[0], k_, n_) is not None else None for k_, n_ in enumerate(('path', 'field_name', 'data'))] if c else []
    good_fw = bool(c) and len(fw) == 3 and all(x is not None and Pat().m(p_, x) for x, p_ in zip(fw, sm.params[:3]))
    perm_fw = bool(c) and len(fw) == 3 and all(isinstance(x, ast.Name) and x.id in sm.params[:3] for x in fw) and not good_fw
    # a mapping rebuilt entry by entry before it is written must keep every value as it is (a formatted / rounded float does not reload as the saved value)
    transformed = None
    if c and len(fw) == 3 and isinstance(fw[2], ast.DictComp) and len(fw[2].generators) == 1:
        g_ = fw[2].generators[0]
        if isinstance(g_.target, ast.Tuple) and len(g_.target.elts) == 2 and all(isinstance(x, ast.Name) for x in g_.target.elts) and \
                Pat().any(['%s.items()' % sm.params[2], 'list(%s.items())' % sm.params[2], 'sorted(%s.items())' % sm.params[2]], g_.iter):
            kv_, vv_ = g_.target.elts[0].id, g_.target.elts[1].id
            if Pat().m(vv_, fw[2].value) and Pat().m(kv_, fw[2].key):
                good_fw = good_fw or all(x is not None and Pat().m(p_, x) for x, p_ in zip(fw[:2], sm.params[:2]))
            elif any(isinstance(n, ast.Name) and n.id == vv_ for n in ast.walk(fw[2].value)):
                transformed = fw[2].value
    perm_fw = perm_fw or transformed is not None
    ctx.tri(good_fw, perm_fw, 'C10.T1', sm, (transformed if transformed is not None else (c[0] if c else 'save_metadata')), 'module-level save_metadata forwards (file, field name, mapping) to the two-column writer',
            ('save_metadata rewrites every value as `%s` before it is written: the value that reloads is not the value that was saved' % unparse(transformed)[:70]) if transformed is not None
            else 'save_metadata does not forward (file, field, mapping) to _write_tsv_simple', 'the call of the two-column writer in save_metadata was not recognised')
    # cluster file priority
    ssc = repo.lookup_method(cls, 'save_spike_clusters')
    lsc = repo.lookup_method(cls, '_load_spike_clusters')
    fs = [x for x in ssc.calls() if q.method_name(x) == '_find_path']
    fl = [x for f_ in repo.transparent_closure(lsc) for x in f_.calls() if q.method_name(x) == '_find_path']
    ok = bool(fs) and bool(fl)
    if ok:
        ns = [const_value(a) for a in fs[0].args]
        nl = [const_value(a) for a in fl[0].args]
        ok = ns[0] == nl[0] and all(any(fnmatch.fnmatchcase(a, b) for b in nl) for a in ns)
    ctx.check(ok, 'C10.T1', ssc, fs[0] if fs else 'save_spike_clusters', 'the file save_spike_clusters overwrites is the first-priority cluster file of the loader',
              'save_spike_clusters writes %s while the loader reads %s first' % ([const_value(a) for a in fs[0].args] if fs else '?', [const_value(a) for a in fl[0].args] if fl else '?'))
    # the array saved is the argument
    sv = [x for x in ssc.calls() if dotted(x.func) == 'np.save']
    saved_x = ssc.expand(q.arg(sv[0], 1, 'arr')) if sv and q.arg(sv[0], 1, 'arr') is not None else None
    ctx.tri(saved_x is not None and Pat().m(ssc.params[1], saved_x),
            saved_x is not None and ((isinstance(saved_x, ast.Attribute) and isinstance(saved_x.value, ast.Name) and saved_x.value.id == 'self') or isinstance(saved_x, ast.Constant)),
            'C10.T1', ssc, sv[0] if sv else 'save_spike_clusters', 'the assignments passed by the caller are what is saved',
            'save_spike_clusters does not save its argument (`%s`)' % (unparse(saved_x) if saved_x is not None else ''), 'what save_spike_clusters saves was not recognised')
    # subset store names
    sw = repo.lookup_method(cls, 'save_spikes_subset_waveforms')
    lw = repo.lookup_method(cls, '_load_spike_waveforms')

    def path_of(fi, node, env=None):
        """file name of a `<dir> / <name>` expression, None when it is not one / not computable"""
        if isinstance(node, ast.BinOp) and isinstance(node.op, ast.Div):
            return str_eval(node.right, env or {}, fi)
        return None

    def path_seq(fi, node):
        """ordered file names of a sequence-of-paths value: a literal tuple / list, or a comprehension / tuple(generator) over a literal sequence of constants"""
        if isinstance(node, ast.Call) and dotted(node.func) in ('tuple', 'list') and len(node.args) == 1:
            node = node.args[0]
        if isinstance(node, (ast.Tuple, ast.List)):
            out = [path_of(fi, e) for e in node.elts]
            return out if out and all(x is not None for x in out) else None
        if isinstance(node, (ast.ListComp, ast.GeneratorExp)) and len(node.generators) == 1 and not node.generators[0].ifs and isinstance(node.generators[0].target, ast.Name):
            it = fi.expand(node.generators[0].iter)
            if isinstance(it, (ast.Tuple, ast.List)) and all(isinstance(const_value(e), str) for e in it.elts):
                out = [path_of(fi, node.elt, {node.generators[0].target.id: const_value(e)}) for e in it.elts]
                return out if out and all(x is not None for x in out) else None
        return None

    def path_locals(fi):
        """(local -> file name, local -> [file names]) for the path-valued locals of fi"""
        one, many = {}, {}
        for a_ in fi.nodes(ast.Assign):
            p_, ps = path_of(fi, a_.value), path_seq(fi, a_.value)
            for t_ in a_.targets:
                if isinstance(t_, ast.Name) and p_ is not None:
                    one[t_.id] = p_
                elif isinstance(t_, ast.Name) and ps is not None:
                    many[t_.id] = ps
                elif isinstance(t_, (ast.Tuple, ast.List)) and ps is not None and len(ps) == len(t_.elts):
                    for e_, n_ in zip(t_.elts, ps):
                        if isinstance(e_, ast.Name):
                            one[e_.id] = n_
        return one, many

    def names(fi):
        """the subset-store file names fi refers to; None when a name built from the store prefix is not computable"""
        one, many = path_locals(fi)
        out = {v for v in one.values() if v.startswith('_phy_spikes_subset')} | {v for vs in many.values() for v in vs if v.startswith('_phy_spikes_subset')}
        for n in ast.walk(fi.node):
            if isinstance(n, ast.Constant) and isinstance(n.value, str) and n.value.startswith('_phy_spikes_subset'):
                if n.value.endswith('.npy') and '%' not in n.value and '{' not in n.value:
                    out.add(n.value)
                elif not out:
                    return None
        return out
    alf = repo.module(ALF)
    ren = alf.consts.get('_FILE_RENAMES')
    alf_names = {const_value(e.elts[0]) for e in ren.elts if isinstance(e, ast.Tuple)} if isinstance(ren, (ast.List, ast.Tuple)) else set()
    nsw, nlw = names(sw), names(lw)
    ctx.tri(nsw == set(SUBSET) and nlw == set(SUBSET), nsw is not None and nlw is not None and bool(nsw) and bool(nlw) and (nsw != set(SUBSET) or nlw != set(SUBSET)), 'C10.T1', lw, 'subset store names',
            'saver and loader of the subset store use the same three file names',
            'subset store names differ: saver %s, loader %s' % (sorted(nsw or ()), sorted(nlw or ())), 'the file names of the subset store were not computable')
    ctx.check(set(SUBSET) <= alf_names, 'C10.T1', alf.rel + ':_FILE_RENAMES', 'ALF copy table', 'the ALF copy table carries all three subset-store files',
              'the ALF copy table lacks %s' % sorted(set(SUBSET) - alf_names))
    # role agreement: which file holds what
    roles_w = {k: v for k, v in path_locals(sw)[0].items() if v in SUBSET}
    roles_r, seqs_r = path_locals(lw)
    roles_r = {k: v for k, v in roles_r.items() if v in SUBSET}
    saved = {}
    for c_ in sw.calls():
        if dotted(c_.func) == 'np.save' and len(c_.args) == 2:
            saved[roles_w.get(unparse(c_.args[0]))] = unparse(c_.args[1])
        if dotted(c_.func) == 'export_waveforms' and c_.args:
            saved[roles_w.get(unparse(c_.args[0]))] = 'waveforms'
    read = {}
    for c_ in lw.calls():
        if dotted(c_.func) == 'Bunch':
            for k in c_.keywords:
                if isinstance(k.value, ast.Call) and k.value.args:
                    read[roles_r.get(unparse(k.value.args[0]))] = k.arg
    # what the saved locals ARE: the selector result (spike ids) and the per-spike channel rows handed to the export
    exs = [c_ for c_ in sw.calls() if dotted(c_.func) == 'export_waveforms' and len(c_.args) >= 4]
    ch_local = unparse(exs[0].args[3]) if exs else None
    id_local = None
    for a in sw.nodes(ast.Assign):
        if isinstance(a.value, ast.Call) and isinstance(a.value.func, ast.Name) and isinstance(a.targets[0], ast.Name):
            d_ = sw.unique_def(a.value.func.id)
            if isinstance(d_, ast.Call) and dotted(d_.func) == 'SpikeSelector':
                id_local = a.targets[0].id
    role_of = {id_local: 'spike_ids', ch_local: 'spike_channels', 'waveforms': 'waveforms'}
    saved_roles = {f_: role_of.get(v_, v_) for f_, v_ in saved.items()}
    want = {'_phy_spikes_subset.spikes.npy': 'spike_ids', '_phy_spikes_subset.channels.npy': 'spike_channels', '_phy_spikes_subset.waveforms.npy': 'waveforms'}
    ok = all(saved_roles.get(f_) == r and read.get(f_) == r for f_, r in want.items())
    crossed = set(saved_roles) >= set(want) and set(read) >= set(want) and all(v in want.values() for v in list(saved_roles.values()) + list(read.values())) and not ok
    if ok:
        ctx.holds('C10.T1', lw, 'each subset-store file is written from and read into the same role (spike ids / channels / waveforms)', 'subset store roles')
    elif crossed:
        ctx.violated('C10.T1', lw, 'subset store roles', 'subset store roles disagree: written %s, read %s' % (saved_roles, read))
    else:
        ctx.undecided('C10.T1', lw, 'roles of the subset-store files not recognised (written %s, read %s)' % (saved_roles, read))
    # a store with a missing member is never half-loaded: either the existence test covers all three files, or the reads sit in a handler that turns the
    # missing file into "no store" (the fallback to the raw data)
    guard = [i for i in lw.nodes(ast.If) if any(isinstance(n, ast.Call) and q.method_name(n) in ('exists', 'is_file') for n in ast.walk(i.test))]

    def n_exists(t_):
        return sum(1 for n in ast.walk(t_) if isinstance(n, ast.Call) and q.method_name(n) in ('exists', 'is_file'))

    def quantified(t_):
        """'all' / 'any' when t_ is all(p.exists() for p in <the three paths>) (resp. any), else None"""
        if isinstance(t_, ast.Call) and dotted(t_.func) in ('all', 'any') and len(t_.args) == 1 and isinstance(t_.args[0], (ast.GeneratorExp, ast.ListComp)):
            g_ = t_.args[0]
            if len(g_.generators) == 1 and not g_.generators[0].ifs and isinstance(g_.elt, ast.Call) and q.method_name(g_.elt) in ('exists', 'is_file') and \
                    isinstance(g_.elt.func.value, ast.Name) and isinstance(g_.generators[0].target, ast.Name) and g_.elt.func.value.id == g_.generators[0].target.id:
                it = g_.generators[0].iter
                ps = seqs_r.get(it.id) if isinstance(it, ast.Name) else path_seq(lw, it)
                if ps is None and isinstance(it, (ast.Tuple, ast.List)) and all(isinstance(e, ast.Name) and e.id in roles_r for e in it.elts):
                    ps = [roles_r[e.id] for e in it.elts]
                if ps is not None and set(ps) == set(SUBSET):
                    return dotted(t_.func)
        return None

    def all_or_none(t0):
        # `not a.exists() or not b.exists() or not c.exists()` -> leave ;  `a.exists() and b.exists() and c.exists()` -> use ; `not (a and b and c)` ; `not all(...)`
        for t_ in (t0, lw.expand(t0)):
            if isinstance(t_, ast.BoolOp) and isinstance(t_.op, ast.Or) and all(isinstance(v, ast.UnaryOp) and isinstance(v.op, ast.Not) for v in t_.values) and n_exists(t_) == 3:
                return True
            if isinstance(t_, ast.BoolOp) and isinstance(t_.op, ast.And) and not any(isinstance(v, ast.UnaryOp) for v in t_.values) and n_exists(t_) == 3:
                return True
            if isinstance(t_, ast.UnaryOp) and isinstance(t_.op, ast.Not) and isinstance(t_.operand, ast.BoolOp) and isinstance(t_.operand.op, ast.And) and n_exists(t_) == 3:
                return True
            inner = t_.operand if isinstance(t_, ast.UnaryOp) and isinstance(t_.op, ast.Not) else t_
            if quantified(inner) == 'all':
                return True
        return False

    def weak(t0):
        t_ = lw.expand(t0)
        inner = t_.operand if isinstance(t_, ast.UnaryOp) and isinstance(t_.op, ast.Not) else t_
        if quantified(inner) == 'any' or quantified(t0.operand if isinstance(t0, ast.UnaryOp) else t0) == 'any':
            return True
        if any(isinstance(n, ast.Call) and dotted(n.func) in ('all', 'any') for n in ast.walk(t_)):
            return False
        if n_exists(t_) < 3:
            return True
        return isinstance(t_, ast.BoolOp) and isinstance(t_.op, ast.And) and all(isinstance(v, ast.UnaryOp) and isinstance(v.op, ast.Not) for v in t_.values)
    # reads protected by a handler that catches the missing-file error and answers "no store"
    reads = [c_ for c_ in lw.calls() if q.method_name(c_) == '_read_array' or dotted(c_.func) in ('np.load', '_read_array', 'read_array')]
    IOERR = {'Exception', 'BaseException', 'OSError', 'IOError', 'FileNotFoundError', 'EnvironmentError'}

    def protected(c_):
        for a_ in lw.ancestors(c_):
            if isinstance(a_, ast.Try) and any(c_ is n or q.contains(s_, c_) for s_ in a_.body for n in [s_]):
                for h in a_.handlers:
                    tys = [h.type] if h.type is not None and not isinstance(h.type, ast.Tuple) else (list(h.type.elts) if h.type is not None else [None])
                    catches = any(t_ is None or (dotted(t_) or '').split('.')[-1] in IOERR for t_ in tys)
                    leaves = not any(isinstance(n, ast.Raise) for s_ in h.body for n in ast.walk(s_)) and \
                        (any(isinstance(s_, ast.Return) and (s_.value is None or const_value(s_.value) is None and isinstance(s_.value, ast.Constant)) for s_ in h.body))
                    if catches and leaves:
                        return True
        return False
    handled = bool(reads) and all(protected(c_) for c_ in reads)
    strong = bool(guard) and any(all_or_none(g_.test) for g_ in guard)
    weak_guard = (bool(guard) and not strong and all(weak(g_.test) for g_ in guard)) or (not guard and bool(reads))
    ctx.tri(strong or handled, weak_guard and bool(reads) and not handled, 'C10.T1', lw, guard[0].test if guard else '_load_spike_waveforms',
            'a subset store with a missing member is never loaded (%s)' % ('existence test on all three files' if strong else 'the reads sit in a handler that answers "no store"'),
            'the subset store is loaded although one of its files may be missing, and the missing file is not turned into "no store"', 'the existence test of the subset store was not recognised')


def t1_store_waveforms(ctx):
    """"the spike waveform subset is saved and reloaded, with the subset-store waveforms equal to those read from the raw data": what the export writes (C03.S2, Y4, Y1 / A1 / P1)
    and what the lookup returns for a stored spike (C03.A1, A2) are the obligations of C03 on those two routes; they are prerequisites here."""
    from vlib import report
    from obligations import C03
    sub = report.Ctx('C03', ctx.repo, ctx.tier, ctx.seed)
    C03.run(sub)
    rules = ('C03.S2', 'C03.Y4', 'C03.Y1', 'C03.A1', 'C03.A2', 'C03.P1')
    rel = [o for o in sub.obs if o.rule in rules]
    bad = [o for o in rel if o.status == 'violated']
    for o in bad[:3]:
        ctx.obs.append(report.Ob('C10.T1', o.where, 'violated', 'the subset store does not hold / return the waveforms read from the raw data (%s): %s' % (o.rule, o.detail), o.construct, o.line))
    if not bad:
        if any(o.status == 'holds' for o in rel):
            ctx.holds('C10.T1', M + ':TemplateModel.save_spikes_subset_waveforms', 'export and lookup routes of the waveform subset: %d obligations of C03 (S2, Y4, Y1, A1, A2, P1) hold (%d undecided)' %
                      (len([o for o in rel if o.status == 'holds']), len([o for o in rel if o.status == 'undecided'])), 'subset store waveforms')
        else:
            ctx.undecided('C10.T1', M + ':TemplateModel.save_spikes_subset_waveforms', 'the export / lookup routes of the waveform subset (C03) were not decided')


def p1_d1(ctx):
    repo = ctx.repo
    cls = repo.cls(M, 'TemplateModel')
    lm = repo.lookup_method(cls, '_load_metadata')
    ok = False
    node = None
    for f in lm.nodes(ast.For):
        for t in [n for n in ast.walk(f) if isinstance(n, ast.Try)]:
            calls = [c for s_ in t.body for c in ast.walk(s_) if isinstance(c, ast.Call) and dotted(c.func) == 'load_metadata']
            if calls:
                node = t
                for h in t.handlers:
                    broad = h.type is None or unparse(h.type) in ('Exception', 'BaseException')
                    goes_on = not any(isinstance(n, (ast.Raise, ast.Return, ast.Break)) for s_ in h.body for n in ast.walk(s_))
                    ok = ok or (broad and goes_on)
    ctx.check(ok, 'C10.P1', lm, node or '_load_metadata', 'a metadata file that cannot be read is skipped (any exception) and loading continues',
              'an unreadable metadata file aborts loading: the per-file read is not inside a handler that catches Exception and continues')
    ret = [r for r in lm.returns() if r.value is not None]
    in_loop = bool(ret) and any(isinstance(a_, (ast.For, ast.While, ast.Try)) for a_ in lm.ancestors(ret[-1]))
    ctx.tri(bool(ret) and not in_loop, in_loop, 'C10.P1', lm, ret[-1] if ret else '_load_metadata',
            'the collected metadata is returned after the loop', 'metadata is not returned after the loop', 'the return of the collected metadata was not found')
    # D1 None filtered
    sm = repo.lookup_method(cls, 'save_metadata')
    c = [x for x in sm.calls() if dotted(x.func) == 'save_metadata']
    ok = False
    und_d = True
    if c and len(c[0].args) == 3:
        d = sm.expand(c[0].args[2])
        if isinstance(d, ast.DictComp):
            und_d = False
            g = d.generators[0]
            ok = any(q.simple_compare(i) and q.simple_compare(i)[1] == 'is not' and const_value(q.simple_compare(i)[2]) is None and
                     unparse(q.simple_compare(i)[0]) == unparse(d.value) for i in g.ifs) and unparse(g.iter) == '%s.items()' % sm.params[2]
            kv = isinstance(g.target, ast.Tuple) and unparse(d.key) == unparse(g.target.elts[0]) and unparse(d.value) == unparse(g.target.elts[1])
            ok = ok and kv
    if und_d and c:
        ctx.undecided('C10.D1', sm, 'the mapping handed to the writer is not a dictionary comprehension over the given values', c[0])
    else:
      ctx.check(ok, 'C10.D1', sm, c[0] if c else 'save_metadata', 'None entries are dropped and every other (cluster, value) pair is written unchanged',
              'save_metadata does not write exactly the non-None (cluster, value) pairs')
    hd_x = sm.expand(q.arg(c[0], 1, 'field_name')) if c and q.arg(c[0], 1, 'field_name') is not None else None
    ctx.tri(hd_x is not None and Pat().m(sm.params[1], hd_x), hd_x is not None and (isinstance(hd_x, ast.Constant) or (isinstance(hd_x, ast.Name) and hd_x.id in sm.params and hd_x.id != sm.params[1])),
            'C10.D1', sm, c[0] if c else 'save_metadata', 'the field name is the column header', 'the column header is not the field name', 'the header passed to the writer was not recognised')
    # override semantics in load_metadata / _load_metadata
    ldm = repo.func(M, 'load_metadata')
    PL = Pat(ldm)
    cid = PL.stmt("V_cid = V_row['cluster_id']") or PL.stmt("V_cid = V_row.get('cluster_id')")
    inner = [f for f in ldm.nodes(ast.For) if isinstance(f.iter, ast.Call) and q.method_name(f.iter) == 'items' and isinstance(f.target, ast.Tuple) and len(f.target.elts) == 2]
    if cid is None or not inner:
        ctx.undecided('C10.D1', ldm, 'row loop of load_metadata (cluster id + items of the row) not recognised')
    else:
        fld, val = (unparse(x) for x in inner[0].target.elts)
        st = PL.stmt('V_out[%s][V_cid] = %s' % (fld, val), within=inner[0]) or PL.stmt('V_out.setdefault(%s, {})[V_cid] = %s' % (fld, val), within=inner[0])
        st_bad = None
        if st is None:
            st_bad = PL.stmt('V_out[V_cid][%s] = %s' % (fld, val), within=inner[0]) or PL.stmt('V_out[%s][V_cid] = E_other' % fld, within=inner[0]) or \
                PL.stmt('V_out[%s].setdefault(V_cid, %s)' % (fld, val), within=inner[0])
        first_wins = [i for i in ast.walk(inner[0]) if isinstance(i, ast.If) and st is not None and q.contains(i, st) and
                      any(Pat(ldm, PL.b).m('V_cid not in V_out[%s]' % fld, n) for n in ast.walk(i.test))]
        if st is not None and not first_wins:
            ctx.holds('C10.D1', ldm, 'rows are stored as out[field][cluster_id] = value (last row wins)', st)
        elif st_bad is not None or first_wins:
            ctx.violated('C10.D1', ldm, st_bad or first_wins[0], 'load_metadata does not store rows as out[field][cluster_id] = value with the last row winning (`%s`)' %
                         unparse(st_bad or first_wins[0].test)[:80])
        else:
            ctx.undecided('C10.D1', ldm, 'store of a metadata cell not recognised')
        skip = [n for n in ast.walk(inner[0]) if isinstance(n, ast.Compare) and Pat().m("%s != 'cluster_id'" % fld, n)] + \
            [n for n in ast.walk(inner[0]) if isinstance(n, ast.Compare) and Pat().m("%s == 'cluster_id'" % fld, n) and
             any(isinstance(x, ast.Continue) for i in ast.walk(inner[0]) if isinstance(i, ast.If) and i.test is n for x in i.body)]
        popped = [c for c in ldm.calls() if q.method_name(c) == 'pop' and c.args and const_value(c.args[0]) == 'cluster_id']
        if skip or popped:
            ctx.holds('C10.D1', ldm, 'the key column itself is not reported as a field', (skip or popped)[0])
        elif st is not None:
            ctx.violated('C10.D1', ldm, st, 'the cluster_id column is reported as a metadata field (no test excludes the key column)')
        else:
            ctx.undecided('C10.D1', ldm, 'exclusion of the key column not recognised')


def run(ctx):
    f1_effects(ctx)
    f2_no_alias(ctx)
    t1_agreement(ctx)
    p1_d1(ctx)
    # metadata values (integers, floats, strings) come back through _try_make_number: its contract is a prerequisite of "the last saved mapping is shown"
    ctx.part('C10.T1', t1_store_waveforms)
    from obligations.C18 import number_recovery, csv_dialect_agreement
    ctx.part('C10.T1', number_recovery, 'C10.T1')
    # the metadata files are written by _write_tsv_simple and read by _read_tsv_simple: a label with a tab, a quote or a line break survives only if the two agree on the dialect
    # ... and on the delimiter: the reader takes the delimiter it finds in the header line (metadata found in OTHER tsv / csv files is read whatever its extension)
    from obligations.C18 import tsv_delimiters
    ctx.part('C10.T1', tsv_delimiters, 'C10.T1', (('_write_tsv_simple', '_read_tsv_simple'),))


LEVEL_TEXT = ('Static effect analysis of the four saving methods of the model against per-method write whitelists (so that no save can touch '
              'spike templates, times or any other dataset file), plus writer/reader agreement of file names, globs, exclusion list, header '
              'key, cluster-file priority and subset-store roles, the error-tolerant per-file metadata load and the None filter.')
LEVEL_NOTE = ('Trusted: effect primitive catalogue, fnmatch as model of Path.glob. Not decided: overwrite-vs-merge behaviour across histories at '
              'value level, cell typing (C18), waveform values (C03).')
TECHNIQUE = 'static analysis: interprocedural effect analysis and writer/reader table agreement'
