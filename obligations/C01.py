"""C01 - raw-data reader indexing equals NumPy indexing of the concatenated recording.

Decided
  T1  dispatch of _get_ephys_constructor: mtscomp.Reader / '.cbin' -> compressed reader, raw extensions -> flat reader,
      '.npy' -> npy reader, list/tuple -> class of the first element with the arguments of ALL elements in order,
      anything else -> in-memory reader; every target is a concrete reader overriding _get_part
  T2  every concrete reader's __init__ (super chain inlined) assigns _ops, sample_rate, dtype, n_channels, part_bounds,
      chunk_bounds on every normal path
  D1  part_bounds are computed from the very sequence / object that _get_part indexes, in the same order
      (flat: cumulative first-axis sizes of self._mmaps, _get_part = self._mmaps[part][sub]; single-part readers:
      [0, first-axis size of X], _get_part = X[sub])
  D2  the per-file mappings are built from the constructor's path list in the order given (no sorted / reversed / set)
  P1  reader[item] = replay(ops)(vstack(_get_part(p, s) for (p, s) in _get_subitems(part_bounds, item) in order))
  S1  _memmap_flat: n_samples = (file size - offset) // (itemsize * n_channels); memmap gets path, dtype, offset, mode,
      shape (n_samples, n_channels)
  S2  _find_chunks(b, x) = searchsorted(b, x, 'right') - 1
  S3  _get_subitems, slice: start/stop defaults and negative-bound normalisation; parts first..last located with
      _find_chunks on [start, stop - 1]; piece for part [i0, i1) is slice(max(start, i0) - i0, min(stop, i1) - i0, 1)
  S4  _get_subitems, index list: parts from _find_chunks(bounds, item) in increasing order, sub-index
      item[(i0 <= item) & (item < i1)] - i0; integer: (part(x), x - bounds[part]) after negative normalisation;
      tuple: split by its first component
  U1  shape = (n_samples, n_channels), n_samples = chunk_bounds[-1], duration = n_samples / sample_rate
  H1  the row selector is compared with slice(None) only when it is a slice (an index array is ambiguous in `==`)
  +   P1 prerequisite: the deferred ops, the channel selection included, are replayed as recorded (C02.T3)
Not decided: NumPy / mtscomp / memmap semantics, numeric correctness of cumulative sums, empty selections.
"""
import ast

from vlib import q, proto
from vlib.proto import C, T, is_c, is_t, show, subterms
from vlib.symwalk import SymInterp
from vlib.sym import Lin, equal
from vlib.pat import Pat, returned
from vlib.front import unparse, dotted, const_value, AnchorMissing

TR = 'phylib/io/traces.py'
FLOOR = 10          # decided obligations below this = the analysis lost its footing (exit 2); clean tree: 27
RULES = ('C01.D1', 'C01.D2', 'C01.H1', 'C01.P1', 'C01.S1', 'C01.S2', 'C01.S3', 'C01.S4', 'C01.T1', 'C01.T2', 'C01.U1')          # every obligation group must report (holds / violated / undecided): a group that vanishes silently is an analysis error
ATTRS = ['_ops', 'sample_rate', 'dtype', 'n_channels', 'part_bounds', 'chunk_bounds']
EXPLANATION = ('proto/sym engines over phylib/io/traces.py: the dispatch function is walked over all outcomes of its type / extension tests; '
               'each reader constructor is walked with its super chain inlined (definite assignment); part_bounds and _get_part are tied to '
               'the same storage; _get_subitems is walked per index kind with symbolic bounds and its outputs compared, as normal forms, with '
               'the piece formulas of the specification; __getitem__ is walked for plain items')
TRUSTED = ['python ast', 'np.searchsorted / np.vstack / np.memmap / np.cumsum as documented', 'bounds[0] == 0 and bounds[-1] == n (C16.S3)',
           'negative bounds lie in [-n, 0)']
ASSUMPTIONS = ['part files have >= 1 row', 'index lists are strictly increasing', 'slices have unit step and select >= 1 row']


# ---------------------------------------------------------------------------------------------- T1
class DispatchWalk(proto.Interp):
    def on_call(self, call, name, args, kwargs, st):
        if name in ('isinstance', 'Path', 'logger.warning', 'mp.cpu_count'):
            return [('ok', T('call', name, C(0), *args), st)]
        if name == 'mtscomp.Reader':
            return [('ok', T('newreader'), st)]
        return None

    def on_method(self, call, name, recv, args, kwargs, st):
        m = call.func.attr
        if m == 'exists':
            return [('ok', C(True), st)]
        if m == 'open' and recv == T('newreader'):
            return [('ok', C(None), st.emit('open', recv, *args))]
        if m == 'pop':
            return [('ok', T('popped'), st)]
        return None

    def on_fork(self, key, st):
        if key[0] == 'rel':
            return ['=', '<']
        return None


def t1_dispatch(ctx):
    repo = ctx.repo
    fi = repo.func(TR, '_get_ephys_constructor')
    mod = repo.module(TR)
    raw_ext = mod.const_strings('EPHYS_RAW_EXTENSIONS')
    if raw_ext is None:
        raise AnchorMissing('EPHYS_RAW_EXTENSIONS')
    ctx.check({'.dat', '.bin'} <= set(raw_ext), 'C01.T1', fi, 'EPHYS_RAW_EXTENSIONS', 'flat binary extensions include .dat and .bin',
              'raw extension table %s lost .dat/.bin' % raw_ext)
    obj = T('param', fi.params[0])
    I = DispatchWalk(repo, unroll=2, inline_depth=0)
    facts = {('in', C('n_channels_dat'), T('param**', fi.kwarg or 'kwargs')): False}
    outs = I.run(fi, facts=facts)
    ctx.analysed['paths'] += len(outs)

    def isin(st, tname):
        for k, v in st.facts.items():
            if k[0] == 'truth' and is_t(k[1]) and k[1][1] == 'call' and k[1][2] == 'isinstance' and k[1][4] == obj:
                tt = show(k[1][5])
                if tname in tt:
                    return v
        return None
    probs = {}
    seen = set()
    concrete = {}
    for c in repo.subclasses(repo.cls(TR, 'BaseEphysReader')):
        concrete[c.name] = repo.lookup_method(c, '_get_part') is not None and repo.lookup_method(c, '_get_part').cls.name != 'BaseEphysReader'
    for kind, val, st in outs:
        if kind != 'return':
            continue
        if not (is_t(val) and val[1] == 'tuple' and len(val) == 5):
            if val == C(None):
                continue
            probs.setdefault('dispatch returns %s, not (class, argument, kwargs)' % show(val)[:60], 1)
            continue
        klass, arg = val[2], val[3]
        kname = klass[2] if is_t(klass) and klass[1] == 'name' else show(klass)
        is_reader = isin(st, 'mtscomp.Reader') or isin(st, 'Reader')
        is_path = isin(st, 'str') or isin(st, 'Path')
        is_seq = isin(st, 'tuple') or isin(st, 'list')
        ext_eq = {}
        ext_in = None
        for k, v in st.facts.items():
            if k[0] == 'rel' and any(is_c(x) and isinstance(x[1], str) for x in k[1:]):
                cst = [x[1] for x in k[1:] if is_c(x)][0]
                ext_eq[cst] = (v == '=')
            if k[0] == 'in' and is_t(k[2]) and 'EPHYS_RAW_EXTENSIONS' in show(k[2]):
                ext_in = v
        if is_reader:
            want, case = 'MtscompEphysReader', 'an open mtscomp.Reader'
            if arg != obj:
                probs.setdefault('an mtscomp.Reader object is not passed on as the constructor argument', 1)
        elif is_path:
            if ext_eq.get('.cbin'):
                want, case = 'MtscompEphysReader', "a '.cbin' path"
                if arg != T('newreader') or not any(e[0] == 'open' for e in st.trace):
                    probs.setdefault("a '.cbin' path is not opened with a new mtscomp.Reader that is passed to the constructor", 1)
            elif ext_in:
                want, case = 'FlatEphysReader', 'a raw binary path'
            elif ext_eq.get('.npy'):
                want, case = 'NpyEphysReader', "a '.npy' path"
            else:
                continue
            if want != 'MtscompEphysReader' and not any(x == obj for x in subterms(arg)):
                probs.setdefault('%s: the constructor argument %s is not the path' % (case, show(arg)[:40]), 1)
        elif is_seq:
            case = 'a list / tuple'
            first = T('index', obj, C(0))
            okk = is_t(klass) and klass[1] == 'item' and klass[3] == C(0) and any(x == first for x in subterms(klass))
            if not okk:
                probs.setdefault('for a list of files the class is %s, not the class chosen for the first element' % show(klass)[:60], 1)
            oka = is_t(arg) and arg[1] == 'list' and all(is_t(a) and a[1] == 'index' and a[3] == C(1) for a in arg[2:]) or \
                (is_t(arg) and arg[1] == 'comp')
            if is_t(arg) and arg[1] == 'list' and len(arg) > 2:
                elems = [a[2][4] if is_t(a[2]) and a[2][1] == 'call' else None for a in arg[2:]]
                ordered = all(is_t(e_) and e_[1] == 'elem' and e_[2] == obj and e_[3] == C(i) for i, e_ in enumerate(elems))
                if not ordered:
                    probs.setdefault('for a list of files the constructor argument is not built from ALL elements in order (%s)' % show(arg)[:80], 1)
            elif not oka:
                probs.setdefault('for a list of files the constructor argument is %s' % show(arg)[:60], 1)
            seen.add('sequence')
            continue
        else:
            want, case = 'ArrayEphysReader', 'an in-memory array'
            if arg != obj:
                probs.setdefault('an in-memory array is not passed on as the constructor argument', 1)
        seen.add(case)
        if kname != want:
            probs.setdefault('%s is dispatched to %s, expected %s' % (case, kname, want), 1)
        if not concrete.get(kname, False):
            probs.setdefault('%s is dispatched to %s, which does not override _get_part' % (case, kname), 1)
    need = {'an open mtscomp.Reader', "a '.cbin' path", 'a raw binary path', "a '.npy' path", 'sequence', 'an in-memory array'}
    for m_ in sorted(need - seen):
        probs.setdefault('no dispatch path for %s' % m_, 1)
    if probs:
        for msg in list(probs)[:4]:
            ctx.violated('C01.T1', fi, msg[:150], msg)
    else:
        ctx.holds('C01.T1', fi, 'dispatch table: Reader/.cbin -> Mtscomp, %s -> Flat, .npy -> Npy, list -> class of first with all arguments, else Array; '
                  'all targets override _get_part (%d paths)' % (raw_ext, len(outs)), '_get_ephys_constructor')
    # get_ephys_reader: klass(arg, **kwargs)
    ge = repo.func(TR, 'get_ephys_reader')
    PG = Pat(ge)
    un = PG.stmt('(V_klass, V_arg, V_kw) = _get_ephys_constructor(REST)')
    rv = [x for _, x in returned(ge) if isinstance(x, ast.Call)]
    if un is None or not rv:
        ctx.undecided('C01.T1', ge, 'get_ephys_reader: unpacking of the dispatch result / instantiation not recognised')
    else:
        g = any(PG.m('V_klass(V_arg, **V_kw)', x) for x in rv)
        vocab = {PG.name('V_klass'), PG.name('V_arg'), PG.name('V_kw')}
        b_ = not g and any({n.id for n in ast.walk(x) if isinstance(n, ast.Name)} <= vocab for x in rv)
        if g:
            ctx.holds('C01.T1', ge, 'get_ephys_reader instantiates the dispatched class with the dispatched argument and kwargs', rv[-1])
        elif b_:
            ctx.violated('C01.T1', ge, rv[-1], 'get_ephys_reader returns `%s`, not klass(arg, **kwargs) of the dispatch result' % unparse(rv[-1]))
        else:
            ctx.undecided('C01.T1', ge, 'instantiation of the dispatched reader not in a recognised form', rv[-1])


# ---------------------------------------------------------------------------------------------- T2 / D1
class InitWalk(proto.Interp):
    def __init__(self, repo, cls):
        super().__init__(repo, unroll=2, inline_depth=4)
        for c in repo.mro(cls):
            if '__init__' in c.methods:
                self.inline.add(c.methods['__init__'].node)

    def on_call(self, call, name, args, kwargs, st):
        if name in ('isinstance',):
            return [('ok', T('call', name, C(0), *args), st)]
        if name in ('_get_part_bounds', '_get_chunk_bounds', '_memmap_flat', 'np.load', 'Path', 'int', 'round', 'all', 'len'):
            return [('ok', T('call', name, C(0), *args, *[T('kw', k, v) for k, v in sorted(kwargs.items())]), st)]
        return None

    def on_fork(self, key, st):
        if key[0] == 'rel':
            return ['=', '<']
        return None


class PartWalk(proto.Interp):
    """walk of _get_part: a property of the reader read through self (`self._data` -> `return self._arr`) is its getter's value"""
    def __init__(self, repo, cls):
        super().__init__(repo, unroll=1, inline_depth=0)
        self.cls = cls

    def on_attr_load(self, node, base, st):
        if base == T('self'):
            p = self.repo.lookup_prop(self.cls, node.attr)
            if p and 'get' in p and len(self.fi_stack) < 4:
                return [(v, s) for kind, v, s in self.call_function(p['get'], (), {}, st, recv=base) if kind == 'ok']
        return None


def _abstract(cls):
    """a class with a member whose whole body is `raise NotImplementedError`: an intermediate base, never instantiated"""
    for m in list(cls.methods.values()) + [g for p_ in getattr(cls, 'props', {}).values() for g in p_.values()]:
        body = [x for x in m.body() if not (isinstance(x, ast.Expr) and isinstance(x.value, ast.Constant))]
        if len(body) == 1 and isinstance(body[0], ast.Raise) and body[0].exc is not None and 'NotImplementedError' in unparse(body[0].exc):
            return True
    return False


def t2_d1_readers(ctx):
    repo = ctx.repo
    base = repo.cls(TR, 'BaseEphysReader')
    me = T('self')
    for cls in repo.subclasses(base):
        if _abstract(cls) and repo.subclasses(cls):
            ctx.holds('C01.T2', cls, 'intermediate base class (a member raises NotImplementedError; its concrete subclasses are checked)', cls.name, nontrivial=False)
            continue
        init = repo.lookup_method(cls, '__init__')
        gp = repo.lookup_method(cls, '_get_part')
        if init is None or gp is None or gp.cls is base:
            ctx.violated('C01.T2', cls, cls.name, 'reader class %s has no constructor or does not override _get_part' % cls.name)
            continue
        I = InitWalk(repo, cls)
        env = {init.params[0]: me}
        outs = I.run(init, env=env)
        ctx.analysed['paths'] += len(outs)
        normal = [(val, st) for kind, val, st in outs if kind == 'return']
        missing = set()
        for val, st in normal:
            for a in ATTRS:
                if (me, a) not in st.heap:
                    missing.add(a)
        if not normal:
            ctx.undecided('C01.T2', init, 'no normal path through %s.__init__' % cls.name)
            continue
        ctx.check(not missing, 'C01.T2', init, cls.name, '%s.__init__ assigns %s on all %d normal paths' % (cls.name, ', '.join(ATTRS), len(normal)),
                  '%s.__init__ leaves %s at the class defaults on some path: indexing and shape use empty bounds / rate 0' % (cls.name, sorted(missing)))
        # D1
        gwalk = PartWalk(repo, cls)
        gouts = gwalk.run(gp, env={gp.params[0]: me})
        rets = [val for kind, val, st in gouts if kind == 'return']
        if cls.name.startswith('Random'):
            ctx.holds('C01.D1', gp, 'synthetic reader (random data): storage agreement not applicable', cls.name, nontrivial=False)
            continue
        ok = bool(rets)
        why = ''
        part_p, sub_p = T('param', gp.params[1]), T('param', gp.params[2])
        for val, st in normal:
            pb = st.heap.get((me, 'part_bounds'))
            for rv in rets:
                # rv = index(index(attr(self, X), part_idx), subitem)   |  index(attr(self, X), subitem)
                if is_t(rv) and rv[1] == 'index' and rv[3] == sub_p and is_t(rv[2]) and rv[2][1] == 'index' and rv[2][3] == part_p:
                    store = rv[2][2]
                    if not (is_t(store) and store[1] == 'attr' and store[2] == me):
                        ok, why = False, '_get_part reads %s' % show(store)[:40]
                        continue
                    held = st.heap.get((me, store[3]))
                    if held is None or pb != T('call', '_get_part_bounds', C(0), held):
                        # composition of the constructor and its helper: part_bounds = [0] + running sums of the first-axis sizes of the stored sequence, whichever of
                        # the two computes the sizes
                        comp_v = _part_bounds_composite(init, store[3])
                        if comp_v == 'good':
                            continue
                        if comp_v == 'bad':
                            ok, why = False, 'part_bounds = %s is not computed from self.%s, the sequence _get_part indexes' % (show(pb)[:60], store[3])
                        else:
                            ok, why = (None if ok else ok), 'part_bounds = %s: relation to self.%s, the sequence _get_part indexes, not recognised' % (show(pb)[:60], store[3])
                elif is_t(rv) and rv[1] == 'index' and rv[3] == sub_p and is_t(rv[2]) and rv[2][1] == 'attr' and rv[2][2] == me:
                    h = st.heap.get((me, rv[2][3]))
                    # the object the reader serves is the constructor's argument itself (possibly loaded / wrapped), never a re-arranged view of it
                    rearr = [x for x in subterms(h)] if h is not None else []
                    if any((is_t(x) and x[1] == 'attr' and x[3] == 'T') or (is_t(x) and x[1] in ('call', 'm') and any(str(y).split('.')[-1] in ('transpose', 'swapaxes', 'reshape', 'flip', 'flipud', 'fliplr', 'moveaxis', 'rot90')
                                                                                                         for y in x[2:3])) for x in rearr):
                        ok, why = False, 'the stored object self.%s is %s: the argument is re-arranged (transposed / reshaped) before it is served, so rows and columns are not those of the given array' % (rv[2][3], show(h)[:70])
                        continue
                    cands = [] if h is None else [T('list', C(0), T('index', T('attr', h, 'shape'), C(0))), T('list', C(0), T('attr', h, 'n_samples')),
                                                  T('list', C(0), T('call', 'len', C(0), h))]
                    if pb not in cands:
                        ok, why = False, 'part_bounds = %s is not [0, number of rows of self.%s], the object _get_part reads' % (show(pb)[:70], rv[2][3])
                else:
                    ok, why = False, '_get_part returns %s, not storage[sub-index]' % show(rv)[:60]
        if ok is None:
            ctx.undecided('C01.D1', gp, '%s: %s' % (cls.name, why))
        else:
            ctx.check(ok, 'C01.D1', gp, cls.name, '%s: part_bounds describe exactly the storage that _get_part indexes with (part, sub-index)' % cls.name,
                      '%s: %s' % (cls.name, why or 'part_bounds / _get_part not recognised'))
        # every file of a multi-file recording is mapped with the SAME sample type, channel count, header offset and mode
        maps = []
        for val, st in normal:
            for k_, v_ in st.heap.items():
                for x in subterms(v_):
                    if is_t(x) and x[1] == 'call' and x[2] == '_memmap_flat':
                        maps.append(x)
        if maps:
            bad = None
            for mp in maps:
                kws = {a[2]: a[3] for a in mp[4:] if is_t(a) and a[1] == 'kw'}
                for key in ('dtype', 'n_channels', 'offset', 'mode'):
                    if key in init.params and kws.get(key) != T('param', key):
                        bad = (key, kws.get(key))
            ctx.check(bad is None, 'C01.D1', init, cls.name + ' file geometry', '%s: every file is mapped with the constructor\'s dtype, n_channels, offset and mode' % cls.name,
                      '%s: a file of the recording is mapped with %s = %s instead of the constructor argument: the files of one recording share one layout '
                      '(header offset, sample type, channel count)' % (cls.name, bad[0] if bad else '', show(bad[1]) if bad else ''))
            # D2: the files are mapped in the order in which the caller listed them (concatenation order = argument order)
            REORDER = ('sorted', 'reversed', 'set', 'frozenset', 'np.sort', 'np.unique', 'natsorted', 'os.listdir', 'glob')
            verdict, why2 = None, ''
            pparam = T('param', init.params[1]) if len(init.params) > 1 else None
            for mp in maps:
                f_arg = mp[4] if len(mp) > 4 else None
                srcs = [x for x in subterms(f_arg)] if f_arg is not None else []
                calls_ = [x[2] for x in srcs if is_t(x) and x[1] == 'call']
                texts = ' '.join(show(x) for x in srcs if is_t(x) and x[1] == 'comp')
                if any(c_ in REORDER for c_ in calls_) or any(('%s(' % r_) in texts for r_ in REORDER):
                    verdict, why2 = False, show(f_arg)[:90]
                    break
                if f_arg == pparam or (is_t(f_arg) and f_arg[1] == 'elem' and pparam in srcs and all(c_ in ('Path', 'str', 'list', 'tuple') for c_ in calls_)):
                    verdict = True if verdict is None else verdict
                elif verdict is None:
                    verdict, why2 = 'und', show(f_arg)[:90]
            if verdict is True:
                ctx.holds('C01.D2', init, '%s: the files are mapped in the order of the constructor argument (the concatenation order is the caller\'s order)' % cls.name, cls.name + ' file order')
            elif verdict is False:
                ctx.violated('C01.D2', init, cls.name + ' file order', '%s: the files are mapped in a re-ordered sequence (%s), not in the order given by the caller: the reader is the '
                             'concatenation of the files in a different order' % (cls.name, why2))
            else:
                ctx.undecided('C01.D2', init, '%s: provenance of the mapped file sequence not recognised (%s)' % (cls.name, why2))
    # _get_part_bounds: [0] + cumulative first-axis sizes in order
    pb = repo.func(TR, '_get_part_bounds')
    rv = [x for _, x in returned(pb)]
    p0 = pb.params[0]
    goods = ['[0] + list(np.cumsum([V_a.shape[0] for V_a in %s]))' % p0, '[0] + list(np.cumsum([len(V_a) for V_a in %s]))' % p0, '[0] + np.cumsum([V_a.shape[0] for V_a in %s]).tolist()' % p0,
             '[0] + list(np.cumsum([V_a.shape[0] for V_a in %s], REST))' % p0, 'np.concatenate(([0], np.cumsum([V_a.shape[0] for V_a in %s])))' % p0,
             'list(np.concatenate(([0], np.cumsum([V_a.shape[0] for V_a in %s]))))' % p0, 'np.r_[0, np.cumsum([V_a.shape[0] for V_a in %s])]' % p0]
    bads = ['list(np.cumsum([V_a.shape[0] for V_a in %s]))' % p0, '[0] + list(np.cumsum([V_a.shape[1] for V_a in %s]))' % p0, '[0] + [V_a.shape[0] for V_a in %s]' % p0,
            '[0] + list(np.cumsum([V_a.shape[0] for V_a in %s[::-1]]))' % p0, '[0] + list(np.cumsum([V_a.shape[0] for V_a in reversed(%s)]))' % p0,
            '[0] + list(np.cumsum([V_a.shape[0] for V_a in sorted(%s)]))' % p0, '[1] + list(np.cumsum([V_a.shape[0] for V_a in %s]))' % p0]
    g = any(Pat().any(goods, x) for x in rv)
    b_ = not g and any(Pat().any(bads, x) for x in rv)
    if g:
        ctx.holds('C01.D1', pb, 'part bounds = [0] + running sums of the first-axis sizes, in the order of the parts', rv[-1])
    elif b_:
        ctx.violated('C01.D1', pb, rv[-1], 'part bounds are `%s`, not [0] + cumulative first-axis sizes of the parts in order' % unparse(rv[-1]))
    else:
        ctx.undecided('C01.D1', pb, '_get_part_bounds not in a recognised form', rv[-1] if rv else None)


# ---------------------------------------------------------------------------------------------- S1 S2 U1
def s1_memmap(ctx):
    repo = ctx.repo
    fi = repo.func(TR, '_memmap_flat')
    pth, dt, nch, off, mode = (T('param', p) for p in fi.params[:5])
    I = SymInterp(repo, unroll=1, inline_depth=0)
    I.pure |= {'np.dtype', 'Path', 'np.memmap', 'logger.warning'}
    size = T('st_size')
    item = T('itemsize')

    class W(SymInterp):
        def on_method(self, call, name, recv, args, kwargs, st):
            if call.func.attr == 'stat':
                return [('ok', T('stat', recv), st)]
            return None

        def on_attr_load(self, node, base, st):
            if node.attr == 'st_size':
                return [(size, st)]
            if node.attr == 'itemsize':
                return [(item, st)]
            return None
    I = W(repo, unroll=1, inline_depth=0)
    I.pure |= {'np.dtype', 'Path', 'np.memmap', 'logger.warning'}
    outs = I.run(fi)
    ctx.analysed['paths'] += len(outs)
    probs, unds = {}, {}
    n = 0
    for kind, val, st in outs:
        if kind != 'return':
            continue
        n += 1
        if not (is_t(val) and val[1] == 'call' and val[2] == 'np.memmap'):
            probs.setdefault('_memmap_flat returns %s, not np.memmap(...)' % show(val)[:60], 1)
            continue
        args = val[4:]
        kws = {a[2]: a[3] for a in args if is_t(a) and a[1] == 'kw'}
        pos = [a for a in args if not (is_t(a) and a[1] == 'kw')]
        names = ['filename', 'dtype', 'mode', 'offset', 'shape']
        for nm, v in zip(names, pos):
            kws.setdefault(nm, v)
        if not any(x == pth for x in subterms(kws.get('filename', C(None)))):
            probs.setdefault('the memory map is not opened on the given path', 1)
        if kws.get('dtype') != dt:
            probs.setdefault('the memory map is opened with dtype %s, not the sample type' % show(kws.get('dtype')), 1)
        if kws.get('offset') != off:
            probs.setdefault('the header offset is not passed to np.memmap (offset=%s): rows are shifted by the header' % show(kws.get('offset')), 1)
        if kws.get('mode') != mode:
            probs.setdefault('the open mode is not passed on (mode=%s)' % show(kws.get('mode')), 1)
        shp = kws.get('shape')
        if not (is_t(shp) and shp[1] == 'tuple' and len(shp) == 4):
            probs.setdefault('shape is %s' % show(shp)[:50], 1)
            continue
        ns, nc = I.nf(shp[2]), I.nf(shp[3])
        want = Lin.atom(('fdiv', I.nf(size) - I.nf(off), I.nf(item).scale(1) if False else I.nf(T('Mult', item, nch))))
        alt = Lin.atom(('fdiv', I.nf(size) - I.nf(off), I.nf(T('Mult', nch, item))))
        if not (equal(ns, want) or equal(ns, alt)):
            # a difference is definite only between closed forms over the file size, the offset, the item size and the channel count
            if I.interpreted(ns):
                probs.setdefault('n_samples = %s, expected (file size - offset) // (itemsize * n_channels)' % ns, 1)
            else:
                unds.setdefault('n_samples = %s: relation to (file size - offset) // (itemsize * n_channels) not recognised' % ns, 1)
        if not equal(nc, I.nf(nch)):
            probs.setdefault('second dimension of the map is %s, not n_channels' % nc, 1)
    if probs:
        for msg in list(probs)[:3]:
            ctx.violated('C01.S1', fi, msg[:150], msg)
    elif unds:
        for msg in list(unds)[:2]:
            ctx.undecided('C01.S1', fi, msg)
    else:
        ctx.holds('C01.S1', fi, 'np.memmap(path, dtype, mode, offset, shape=((size - offset) // (itemsize * n_channels), n_channels)) on all %d paths' % n, '_memmap_flat')


def s2_find_chunks(ctx):
    fi = ctx.repo.func(TR, '_find_chunks')
    r = [x for x in fi.returns() if x.value is not None]
    ok, bad = False, None
    if r:
        e = fi.expand(r[-1].value)
        if isinstance(e, ast.BinOp) and isinstance(e.op, ast.Sub) and const_value(e.right) == 1 and isinstance(e.left, ast.Call) and \
                (dotted(e.left.func) or '').endswith('searchsorted'):
            c = e.left
            a0, a1 = q.arg(c, 0, 'a'), q.arg(c, 1, 'v')
            side = q.arg(c, 2, 'side')
            ok = a0 is not None and a1 is not None and unparse(a0) == fi.params[0] and unparse(a1) == fi.params[1] and const_value(side) == 'right'
            if not ok:
                bad = "searchsorted(%s, %s, side=%r) - 1" % (unparse(a0) if a0 is not None else '?', unparse(a1) if a1 is not None else '?', const_value(side) if side is not None else 'left')
    ctx.check(ok, 'C01.S2', fi, r[-1] if r else '_find_chunks', "part of x = (number of bounds <= x) - 1 = searchsorted(bounds, x, 'right') - 1",
              'the part containing x is computed as `%s`: an index equal to a bound is assigned to the previous part' % (bad or (unparse(r[-1].value) if r else '?')))


def u1_props(ctx):
    repo = ctx.repo
    cls = repo.cls(TR, 'BaseEphysReader')
    exp = {'shape': ('(self.n_samples,self.n_channels)',), 'n_samples': ('self.chunk_bounds[-1]', 'self.part_bounds[-1]'),
           'duration': ('self.n_samples/float(self.sample_rate)', 'self.n_samples/self.sample_rate')}
    for name, forms in exp.items():
        p = repo.lookup_prop(cls, name)
        if not p or 'get' not in p:
            raise AnchorMissing('BaseEphysReader.%s' % name)
        g = p['get']
        r = [x for x in g.returns() if x.value is not None]
        t = unparse(g.expand(r[-1].value)).replace(' ', '') if r else ''
        ctx.check(t in forms, 'C01.U1', g, r[-1] if r else name, '%s = %s' % (name, forms[0]), '%s is computed as `%s`, expected %s' % (name, t, forms[0]))


# ---------------------------------------------------------------------------------------------- S3 S4
class SubWalk(SymInterp):
    model_lists = True

    def on_call(self, call, name, args, kwargs, st):
        if name in ('np.asarray', 'np.array') and args:
            return [('ok', args[0], st)]
        if name == 'int' and len(args) == 1:
            return [('ok', args[0], st)]
        if name == 'isinstance':
            return [('ok', T('call', 'isinstance', C(0), *args), st)]
        if name == 'slice' and len(args) == 3:
            return [('ok', T('sliceobj', *args), st)]
        if name in ('_find_chunks', 'np.unique', 'np.all', 'np.diff', 'len', '_get_subitems'):
            return [('ok', T('call', name, C(0), *[self.deref(a, st) for a in args]), st)]
        return None


SPEC_ATOMS = {'1', ('N',), ('S',), ('E',), ('i0',), ('i1',), ('X',), ('K',)}


def closed(lin):
    """The normal form is built from the specification's own variables and interpreted operators only: a difference from the expected form is then a real
    difference. A form that still contains an uninterpreted call / attribute of the analysed code is not judged (undecided)."""
    def ok_atom(k):
        if k in SPEC_ATOMS:
            return True
        if isinstance(k, tuple) and k and k[0] in ('max', 'min', 'fdiv', 'prod', 'mod'):
            return all(ok(x) for x in k[1:])
        if isinstance(k, tuple) and len(k) == 3 and k[0] == 'index' and isinstance(k[2], Lin) and k[2].is_const() and 'param' in repr(k[1]) and 'call' not in repr(k[1]):
            return True         # bounds[<constant>]: a definite bound of the specification, different from bounds[0] = 0 and bounds[-1] = n
        return False

    def ok(x):
        if isinstance(x, Lin):
            return all(ok_atom(k) for k in x.d)
        return ok_atom(x)
    return ok(lin)


def s3_slice(ctx):
    repo = ctx.repo
    fi = repo.func(TR, '_get_subitems')
    bp, ip = fi.params[0], fi.params[1]
    bounds, item = T('param', bp), T('param', ip)
    N = T('N')
    S, E = T('S'), T('E')
    probs, und = {}, {}
    npaths = 0
    for s_none in (True, False):
        for e_none in (True, False):
            binds = {T('index', bounds, C(0)): Lin.const(0), T('index', bounds, C(-1)): Lin.atom(('N',)),
                     S: Lin.atom(('S',)), E: Lin.atom(('E',)), N: Lin.atom(('N',))}
            I = SubWalk(repo, unroll=1, inline_depth=0, pos=[N], binds=binds)
            I.arrays = ()
            facts = {('truth', T('call', 'isinstance', C(0), item, T('name', 'slice'))): True,
                     ('truth', T('call', 'isinstance', C(0), item, T('name', 'tuple'))): False}       # a slice is not a tuple
            heap = {(item, 'start'): C(None) if s_none else S, (item, 'stop'): C(None) if e_none else E, (item, 'step'): C(None)}
            if not s_none:
                facts[('truth', S)] = True
            if not e_none:
                facts[('truth', E)] = True

            class W(type(I)):
                pass
            outs = I.run(fi, heap=heap, facts=facts)
            ctx.analysed['paths'] += len(outs)
            for kind, val, st in outs:
                if kind != 'return':
                    continue
                npaths += 1
                lst = I.deref(val, st)
                if not (is_t(lst) and lst[1] == 'list'):
                    probs.setdefault('the slice branch returns %s' % show(lst)[:60], 1)
                    continue
                # effective start / stop expected on this path
                relS = None if s_none else I.rel(st, S, C(0))
                relE = None if e_none else I.rel(st, E, C(0))
                from vlib.sym import NF
                pb = dict(binds)
                if relS == '<':
                    pb[T('Mod', S, T('index', bounds, C(-1)))] = Lin.atom(('S',)) + Lin.atom(('N',))
                if relE == '<':
                    pb[T('Mod', E, T('index', bounds, C(-1)))] = Lin.atom(('E',)) + Lin.atom(('N',))
                nf = NF(pb)
                if not s_none and relS is None and not any(is_t(x) and x[1] == 'Mod' for v in [lst] for x in subterms(v)):
                    probs.setdefault('a negative start is not normalised (the sign of start is never consulted): reader[-k:] addresses the wrong rows', 1)
                if not e_none and relE is None and not any(is_t(x) and x[1] == 'Mod' for v in [lst] for x in subterms(v)):
                    probs.setdefault('a negative stop is not normalised (the sign of stop is never consulted): reader[:-k] addresses the wrong rows', 1)
                es = Lin.const(0) if s_none else (nf(S) + nf(N) if relS == '<' else nf(S))
                ee = nf(N) if e_none else (nf(E) + nf(N) if relE == '<' else nf(E))
                es_c = [es, Lin.atom(('min', *sorted([es, nf(N)], key=lambda t: t.key())))]
                # the _find_chunks call
                fc = [x for x in subterms(lst) if is_t(x) and x[1] == 'call' and x[2] == '_find_chunks']
                fc += [x for k in st.env.values() for x in subterms(k) if is_t(x) and x[1] == 'call' and x[2] == '_find_chunks']
                if not fc:
                    # chunk indices may only live in the trace; search the whole state
                    for v in st.heap.values():
                        fc += [x for x in subterms(v) if is_t(x) and x[1] == 'call' and x[2] == '_find_chunks']
                if len(lst) == 2:
                    continue            # loop unrolled 0 times
                for ent in lst[2:]:
                    if not (is_t(ent) and ent[1] == 'tuple' and len(ent) == 4 and is_t(ent[3]) and ent[3][1] == 'sliceobj'):
                        probs.setdefault('an entry of the slice branch is %s, not (part, slice(a, b, step))' % show(ent)[:70], 1)
                        continue
                    k, so = ent[2], ent[3]
                    a, b, stp = so[2], so[3], so[4]
                    # i0, i1 for this part
                    i0 = Lin.atom(('i0',))
                    i1 = Lin.atom(('i1',))
                    I2 = type(I)(repo, unroll=1, inline_depth=0, pos=[N], binds=dict(binds))
                    for form0, form1 in ((T('item', T('slice', bounds, None), C(0)), None),):
                        pass
                    # bind whatever terms the code used for bounds[k], bounds[k+1]
                    loc = dict(pb)
                    for x in list(subterms(a)) + list(subterms(b)):
                        if is_t(x) and x[1] == 'item' and is_t(x[2]) and x[2][1] == 'index' and x[2][2] == bounds and is_t(x[2][3]) and x[2][3][1] == 'slice3':
                            loc[x] = i0 if x[3] == C(0) else i1
                        if is_t(x) and x[1] == 'index' and x[2] == bounds and x[3] == k:
                            loc[x] = i0
                        if is_t(x) and x[1] == 'index' and x[2] == bounds and is_t(x[3]) and x[3][1] == 'Add' and k in x[3][2:] and C(1) in x[3][2:]:
                            loc[x] = i1
                    loc.update({k_: v_ for k_, v_ in pb.items() if k_ not in loc})
                    nf2 = NF(loc)
                    na, nb = nf2(a), nf2(b)
                    ok_a = any(equal(na, Lin.atom(('max',) + tuple(sorted([c_, i0], key=lambda t: t.key()))) - i0) for c_ in es_c)
                    ee_c = [ee, Lin.atom(('min', *sorted([ee, nf(N)], key=lambda t: t.key())))]
                    ok_b = any(equal(nb, Lin.atom(('min',) + tuple(sorted([c_, i1], key=lambda t: t.key()))) - i0) for c_ in ee_c)
                    if not ok_a:
                        ok_a = any(I.same(na, Lin.atom(('max',) + tuple(sorted([c_, i0], key=lambda t: t.key()))) - i0) for c_ in es_c)
                    if not ok_b:
                        ok_b = any(I.same(nb, Lin.atom(('min',) + tuple(sorted([c_, i1], key=lambda t: t.key()))) - i0) for c_ in ee_c)
                    if not ok_a:
                        (probs if closed(na) else und).setdefault('piece start for part [i0, i1) is %s, expected max(start, i0) - i0 with start = %s' % (na, es), 1)
                    if not ok_b:
                        (probs if closed(nb) else und).setdefault('piece stop for part [i0, i1) is %s, expected min(stop, i1) - i0 with stop = %s' % (nb, ee), 1)
                    if not equal(nf2(stp), Lin.const(1)):
                        probs.setdefault('piece step is %s' % nf2(stp), 1)
                    # the part index must be drawn from range(first, last + 1)
                    if not (is_t(k) and k[1] == 'elem'):
                        und.setdefault('part index of an entry is %s' % show(k)[:50], 1)
                    else:
                        rng = k[2]
                        okr = is_t(rng) and rng[1] == 'call' and rng[2] == 'range' and len(rng) == 6
                        if okr:
                            lo, hi = rng[4], rng[5]
                            srcs = [x for x in subterms(lo) if is_t(x) and x[1] == 'call' and x[2] == '_find_chunks']
                            srch = [x for x in subterms(hi) if is_t(x) and x[1] == 'call' and x[2] == '_find_chunks']
                            okr = bool(srcs) and bool(srch) and srcs[0] == srch[0]
                            if okr:
                                call_ = srcs[0]
                                arr = I.deref(call_[5], st) if len(call_) > 5 else None
                                if call_[4] != bounds or not (is_t(arr) and arr[1] == 'list' and len(arr) == 4):
                                    okr = False
                                else:
                                    q0, q1 = nf(arr[2]), nf(arr[3])
                                    if not any(equal(q0, c_) or I.same(q0, c_) for c_ in es_c):
                                        (probs if closed(q0) else und).setdefault('the first part is located with %s, expected start = %s' % (q0, es), 1)
                                    if not any(equal(q1, c_ - Lin.const(1)) or I.same(q1, c_ - Lin.const(1)) for c_ in ee_c):
                                        (probs if closed(q1) else und).setdefault('the last part is located with %s, expected stop - 1 = %s' % (q1, ee - Lin.const(1)), 1)
                                    # lo = item(call, 0), hi = item(call, 1) + 1
                                    if not (lo == T('item', call_, C(0))):
                                        probs.setdefault('parts start at %s, not at the part of `start`' % show(lo)[:50], 1)
                                    if not (equal(NF({T('item', call_, C(1)): Lin.atom(('last',))})(hi), Lin.atom(('last',)) + Lin.const(1))):
                                        probs.setdefault('parts end at %s, not at the part of `stop - 1` inclusive' % show(hi)[:50], 1)
                        if not okr:
                            und.setdefault('parts of a slice are not enumerated as range(first, last + 1) from one _find_chunks call', 1)
    if probs:
        for msg in list(probs)[:4]:
            ctx.violated('C01.S3', fi, msg[:160], 'slice branch of _get_subitems: ' + msg)
    elif npaths:
        ctx.holds('C01.S3', fi, 'slice: defaults 0 / n, negative bounds + n, parts part(start)..part(stop-1), piece = '
                  'slice(max(start, i0) - i0, min(stop, i1) - i0, 1) (%d paths over None/non-None and sign cases)' % npaths, '_get_subitems[slice]')
    for msg in list(und)[:2]:
        ctx.undecided('C01.S3', fi, msg)


def s4_list_int(ctx):
    repo = ctx.repo
    fi = repo.func(TR, '_get_subitems')
    bp, ip = fi.params[0], fi.params[1]
    bounds, item = T('param', bp), T('param', ip)
    probs = {}
    # ---- index list
    I = SubWalk(repo, unroll=1, inline_depth=0)
    I.arrays = (item,)
    facts = {('truth', T('call', 'isinstance', C(0), item, T('name', 'slice'))): False,
             ('truth', T('call', 'isinstance', C(0), item, T('name', 'tuple'))): False,
             ('truth', T('call', 'isinstance', C(0), item, T('tuple', T('name', 'list'), T('attr', T('name', 'np'), 'ndarray')))): True}
    und4 = {}
    outs = I.run(fi, facts=facts)
    ctx.analysed['paths'] += len(outs)
    n = 0
    for kind, val, st in outs:
        if kind != 'return':
            continue
        lst = I.deref(val, st)
        if not (is_t(lst) and lst[1] == 'list'):
            probs.setdefault('the index-list branch returns %s' % show(lst)[:60], 1)
            continue
        for ent in lst[2:]:
            n += 1
            if not (is_t(ent) and ent[1] == 'tuple' and len(ent) == 4):
                probs.setdefault('an entry of the index-list branch is %s' % show(ent)[:60], 1)
                continue
            k, sub = ent[2], ent[3]
            okk = is_t(k) and k[1] == 'elem' and is_t(k[2]) and k[2][1] == 'call' and k[2][2] == 'np.unique' and \
                is_t(k[2][4]) and k[2][4][1] == 'call' and k[2][4][2] == '_find_chunks' and k[2][4][4:] == (bounds, item)
            if not okk:
                probs.setdefault('parts of an index list are %s, expected the increasing distinct values of _find_chunks(bounds, item)' % show(k)[:80], 1)
                continue
            # sub = Sub(index(item, BitAnd(cmp(LtE, i0, item), cmp(Lt, item, i1))), i0)
            def is_i(x, which):
                if is_t(x) and x[1] == 'item' and is_t(x[2]) and x[2][1] == 'index' and x[2][2] == bounds and is_t(x[2][3]) and x[2][3][1] == 'slice3' and x[3] == C(which):
                    return True
                if which == 0 and x == T('index', bounds, k):
                    return True
                if which == 1 and is_t(x) and x[1] == 'index' and x[2] == bounds and is_t(x[3]) and x[3][1] == 'Add' and k in x[3][2:] and C(1) in x[3][2:]:
                    return True
                return False
            shape_ok = is_t(sub) and sub[1] == 'Sub' and is_t(sub[2]) and sub[2][1] == 'index' and sub[2][2] == item
            oks = bad4 = False
            if shape_ok:
                m = sub[2][3]
                parts = list(m[2:]) if is_t(m) and m[1] == 'BitAnd' else []

                def cmpf(p_):
                    """(op, a, b) with the array operand `item` on a known side, flipped to `i0 OP item` / `item OP i1` orientation"""
                    if not (is_t(p_) and p_[1] == 'cmp'):
                        return None
                    op, a_, b_ = p_[2], p_[3], p_[4]
                    flip = {'Lt': 'Gt', 'LtE': 'GtE', 'Gt': 'Lt', 'GtE': 'LtE', 'Eq': 'Eq', 'NotEq': 'NotEq'}
                    if b_ == item and is_i(a_, 0):
                        return ('lo', op)
                    if a_ == item and is_i(b_, 0):
                        return ('lo', flip[op])
                    if a_ == item and is_i(b_, 1):
                        return ('hi', op)
                    if b_ == item and is_i(a_, 1):
                        return ('hi', flip[op])
                    return None
                cs = [cmpf(p_) for p_ in parts]
                chunkvec = k[2][4]          # the vector of part numbers whose distinct values are iterated
                if is_i(sub[3], 0) and len(parts) == 2 and set(cs) == {('lo', 'LtE'), ('hi', 'Lt')}:
                    oks = True              # item[(i0 <= item) & (item < i1)] - i0
                elif is_i(sub[3], 0) and is_t(m) and m[1] == 'cmp' and m[2] == 'Eq' and {m[3], m[4]} == {chunkvec, k}:
                    oks = True              # item[parts == part] - i0: the elements located in this part
                elif len(parts) == 2 and all(c is not None for c in cs) and {c[0] for c in cs} == {'lo', 'hi'}:
                    bad4 = True             # an interval mask with other operators / bounds
                elif not is_i(sub[3], 0) and (is_i(sub[3], 1) or sub[3] == C(0)):
                    bad4 = True             # offset not relative to the start of the part
            if not oks:
                (probs if (bad4 or not shape_ok and is_t(sub) and sub[1] == 'index' and sub[2] == item) else und4).setdefault(
                    'sub-index of a part is %s, expected item[(i0 <= item) & (item < i1)] - i0' % show(sub)[:110], 1)
    # slice bounds[chunk:chunk+2]
    if probs:
        for msg in list(probs)[:3]:
            ctx.violated('C01.S4', fi, msg[:160], 'index-list branch of _get_subitems: ' + msg)
    elif und4:
        for msg in list(und4)[:2]:
            ctx.undecided('C01.S4', fi, 'index-list branch: ' + msg)
    elif n:
        ctx.holds('C01.S4', fi, 'index list: for each distinct part of _find_chunks(bounds, item), in increasing order, '
                  'sub-index = item[(i0 <= item) & (item < i1)] - i0 (%d entries over all paths)' % n, '_get_subitems[list]')
    else:
        ctx.undecided('C01.S4', fi, 'no entry produced by the index-list branch within the unrolling bound')
    # ---- integer
    X = T('X')
    N = T('N')
    binds = {T('index', bounds, C(-1)): Lin.atom(('N',)), X: Lin.atom(('X',))}
    I = SubWalk(repo, unroll=1, inline_depth=0, binds=binds)
    facts = {('truth', T('call', 'isinstance', C(0), X, T('name', 'slice'))): False,
             ('truth', T('call', 'isinstance', C(0), X, T('tuple', T('name', 'list'), T('attr', T('name', 'np'), 'ndarray')))): False,
             ('truth', T('call', 'isinstance', C(0), X, T('name', 'tuple'))): False,
             ('truth', T('call', 'isinstance', C(0), X, T('tuple', T('name', 'int'), T('attr', T('name', 'np'), 'generic')))): True}
    outs = I.run(fi, env={ip: X}, facts=facts)
    ctx.analysed['paths'] += len(outs)
    ip_probs = {}
    ip_und = {}
    n = 0
    for kind, val, st in outs:
        if kind != 'return':
            continue
        lst = I.deref(val, st)
        if lst == C(None):
            ip_probs.setdefault('an integer index falls through every branch (returns None)', 1)
            continue
        if not (is_t(lst) and lst[1] == 'list' and len(lst) == 3 and is_t(lst[2]) and lst[2][1] == 'tuple' and len(lst[2]) == 4):
            ip_probs.setdefault('the integer branch returns %s, expected [(part, offset)]' % show(lst)[:70], 1)
            continue
        n += 1
        k, off = lst[2][2], lst[2][3]
        rel = I.rel(st, X, C(0))
        pb = dict(binds)
        if rel == '<':
            pb[T('Mod', X, T('index', bounds, C(-1)))] = Lin.atom(('X',)) + Lin.atom(('N',))
        if rel is None and not any(is_t(x) and x[1] == 'Mod' for x in subterms(lst)):
            ip_probs.setdefault('a negative integer index is not normalised (its sign is never consulted)', 1)
        from vlib.sym import NF
        I.nf = NF(pb)
        eff = I.nf(X) + (Lin.atom(('N',)) if rel == '<' else Lin())
        okk = is_t(k) and k[1] == 'index' and k[3] == C(0) and is_t(k[2]) and k[2][1] == 'call' and k[2][2] == '_find_chunks' and k[2][4] == bounds
        form = 'find_chunks' if okk else None
        if okk:
            arr = I.deref(k[2][5], st)
            okk = is_t(arr) and arr[1] == 'list' and len(arr) == 3 and equal(I.nf(arr[2]), eff)
        elif is_t(k) and k[1] == 'Sub' and k[3] == C(1) and is_t(k[2]) and k[2][1] == 'call' and len(k[2]) >= 6 and k[2][4] == bounds:
            # the scalar form of the part-location rule: (number of bounds <= x) - 1 by a right bisection
            fn_ = k[2][2].split('.')[-1]
            kws_ = {a_[2]: a_[3] for a_ in k[2][6:] if is_t(a_) and a_[1] == 'kw'}
            if fn_ == 'bisect_right' or fn_ == 'bisect' or (fn_ == 'searchsorted' and kws_.get('side') == C('right')):
                form = 'bisect'
                okk = equal(I.nf(k[2][5]), eff)
            elif fn_ == 'bisect_left' or (fn_ == 'searchsorted' and kws_.get('side', C('left')) == C('left')):
                form = 'left'
        if form == 'left':
            ip_probs.setdefault('the part of an integer index is located by a LEFT bisection (%s): a sample equal to a bound is put in the part that ends there' % show(k)[:60], 1)
        elif form is None:
            ip_und.setdefault('the part of an integer index is %s: not a recognised form of the part-location rule' % show(k)[:70], 1)
            continue
        elif not okk:
            ip_probs.setdefault('the part of an integer index is %s, expected the part of x = %s' % (show(k)[:70], eff), 1)
        loc = dict(pb)
        loc[T('index', bounds, k)] = Lin.atom(('bk',))
        if not equal(NF(loc)(off), eff - Lin.atom(('bk',))):
            ip_probs.setdefault('the offset inside the part is %s, expected x - bounds[part] with x = %s' % (NF(loc)(off), eff), 1)
    # an integer in [-n, n) is a valid index: a path that RAISES must be infeasible for every such integer. The path facts (comparisons of terms over x and
    # n = bounds[-1]) are evaluated on a small grid of valid (x, n); a fact that cannot be evaluated leaves the path undecided.
    _bnd = [[0, 1], None]

    def _val(t_, x_, n_):
        if is_c(t_):
            return t_[1]
        if t_ == X:
            return x_
        if t_ == T('index', bounds, C(-1)):
            return n_
        if is_t(t_) and t_[1] == 'call' and t_[2] in ('abs', 'int', 'np.abs') and len(t_) == 5:
            v_ = _val(t_[4], x_, n_)
            return abs(v_) if t_[2] != 'int' else int(v_)
        if is_t(t_) and t_[1] == 'call' and t_[2] == 'len' and len(t_) == 5 and t_[4] == bounds:
            return len(_bnd[0])
        if is_t(t_) and t_[1] == 'index' and t_[3] == C(0) and is_t(t_[2]) and t_[2][1] == 'call' and t_[2][2] == '_find_chunks' and len(t_[2]) == 6 and t_[2][4] == bounds:
            # the part-location rule (decided by C01.S2): number of bounds <= x, minus one
            arr_ = I.deref(t_[2][5], _bnd[1])
            if is_t(arr_) and arr_[1] == 'list' and len(arr_) == 3:
                xv_ = _val(arr_[2], x_, n_)
                return sum(1 for b_ in _bnd[0] if b_ <= xv_) - 1
            raise KeyError('_find_chunks argument')
        if is_t(t_) and t_[1] == 'call' and t_[2].split('.')[-1] in ('bisect_right', 'bisect') and len(t_) == 6 and t_[4] == bounds:
            xv_ = _val(t_[5], x_, n_)
            return sum(1 for b_ in _bnd[0] if b_ <= xv_)
        if is_t(t_) and t_[1] in ('Add', 'Sub', 'Mult', 'Mod') and len(t_) == 4:
            a_, b_ = _val(t_[2], x_, n_), _val(t_[3], x_, n_)
            return {'Add': lambda: a_ + b_, 'Sub': lambda: a_ - b_, 'Mult': lambda: a_ * b_, 'Mod': lambda: a_ % b_}[t_[1]]()
        if is_t(t_) and t_[1] == 'USub' and len(t_) == 3:
            return -_val(t_[2], x_, n_)
        raise KeyError(show(t_)[:40])
    for kind, val, st in outs:
        if kind != 'raise':
            continue
        relevant = [(k_, v_) for k_, v_ in st.facts.items() if k_ not in facts]
        witness, blocked = None, None
        for n_, x_, bl_ in [(n0_, x0_, bl0_) for n0_ in (1, 2, 5) for bl0_ in ([0, n0_], [0, 1, n0_]) if bl0_[-2] < n0_ for x0_ in range(-n0_, n0_)]:
            if True:
                _bnd[0], _bnd[1] = bl_, st
                try:
                    sat = True
                    for k_, v_ in relevant:
                        if k_[0] == 'rel':
                            a_, b_ = _val(k_[1], x_, n_), _val(k_[2], x_, n_)
                            sat = sat and {'<': a_ < b_, '=': a_ == b_, '>': a_ > b_}[v_]
                        elif k_[0] == 'truth':
                            sat = sat and (bool(_val(k_[1], x_, n_)) == v_)
                        else:
                            raise KeyError(str(k_[0]))
                    if sat and witness is None:
                        witness = (x_, n_)
                except (KeyError, TypeError, ZeroDivisionError) as e_:
                    blocked = str(e_)
        if blocked is not None:
            ip_und.setdefault('a path of the integer branch raises %s under facts that are not evaluated (%s)' % (show(val)[:40], blocked), 1)
        elif witness is not None:
            ip_probs.setdefault('the valid index x = %d of a reader of n = %d samples (x in [-n, n)) raises %s' % (witness[0], witness[1], show(val)[:50]), 1)
    if ip_probs:
        for msg in list(ip_probs)[:3]:
            ctx.violated('C01.S4', fi, msg[:160], 'integer branch of _get_subitems: ' + msg)
    elif ip_und:
        for msg in list(ip_und)[:2]:
            ctx.undecided('C01.S4', fi, 'integer branch of _get_subitems: ' + msg)
    elif n:
        ctx.holds('C01.S4', fi, 'integer: (part(x), x - bounds[part]) with negative x normalised by + n (%d paths)' % n, '_get_subitems[int]')
    else:
        ctx.undecided('C01.S4', fi, 'integer branch not reached')
    # ---- tuple: recursion on the first component
    tup = T('tupitem')
    I = SubWalk(repo, unroll=1, inline_depth=0)
    facts = {('truth', T('call', 'isinstance', C(0), tup, T('name', 'slice'))): False,
             ('truth', T('call', 'isinstance', C(0), tup, T('tuple', T('name', 'list'), T('attr', T('name', 'np'), 'ndarray')))): False,
             ('truth', T('call', 'isinstance', C(0), tup, T('name', 'tuple'))): True}
    outs = I.run(fi, env={ip: tup}, facts=facts)
    rets = [val for kind, val, st in outs if kind == 'return']
    ok = bool(rets) and all(v == T('call', '_get_subitems', C(0), bounds, T('index', tup, C(0))) for v in rets)
    unwrap = [w_ for w_ in fi.nodes(ast.While) if Pat().m('isinstance(%s, tuple)' % ip, w_.test) and any(Pat().m('%s = %s[0]' % (ip, ip), x, stmt=True) for x in w_.body)] + \
        [i_ for i_ in fi.nodes(ast.If) if Pat().m('isinstance(%s, tuple)' % ip, i_.test) and any(Pat().m('%s = %s[0]' % (ip, ip), x, stmt=True) for x in i_.body)]
    other = [x for v in rets for x in subterms(v) if is_t(x) and x[1] == 'index' and x[2] == tup and is_c(x[3]) and x[3][1] not in (0,)]
    if ok or unwrap:
        ctx.holds('C01.S4', fi, 'a tuple index is split by its first (row) component', unwrap[0].test if unwrap and not ok else '_get_subitems[tuple]')
    elif other:
        ctx.violated('C01.S4', fi, '_get_subitems[tuple]', 'a tuple index is split by component %s, not by its first (row) component' % show(other[0][3]))
    else:
        ctx.undecided('C01.S4', fi, 'handling of a tuple index not recognised (returns %s)' % [show(v)[:50] for v in rets][:2])


# ---------------------------------------------------------------------------------------------- P1 H1
def p1_getitem(ctx):
    from obligations.C02 import RI, state0, entry_representation
    repo = ctx.repo
    cls = repo.cls(TR, 'BaseEphysReader')
    gi = repo.lookup_method(cls, '__getitem__')
    rep_ = entry_representation(repo)
    if rep_ != 'tuple':
        ctx.undecided('C01.P1', gi, 'a pending op is recorded as `%s`, not as the (name, argument) pair the replay walk models' % rep_)
    me = T('self')
    heap, ref0, old = state0(me, symbolic=False)
    item = T('rowitem')
    I = RI(repo, cls)
    facts = {('truth', T('call', 'isinstance', C(0), item, T('name', 'tuple'))): False}
    for a in (T('a0'), T('a1')):
        facts[('is',) + tuple(sorted([C(None), a], key=repr))] = False
    outs = I.run(gi, env={gi.params[0]: me, gi.params[1]: item}, heap=heap, facts=facts) if rep_ == 'tuple' else []
    ctx.analysed['paths'] += len(outs)
    probs = []
    n = 0
    for kind, val, st in outs:
        if kind != 'return':
            continue
        txt = show(val)
        if 'call(np.vstack, 0, list)' in txt:
            continue
        n += 1
        # replay(old1)(replay(old0)(vstack(list(part(self, p, s)...))))
        ok = is_t(val) and val[1] == 'invoke' and val[2][3] == C('__old1__') and is_t(val[2][2]) and val[2][2][1] == 'invoke' and val[2][2][2][3] == C('__old0__')
        if not ok:
            probs.append('reader[item] does not replay the deferred ops in order on the stacked block (result %s)' % txt[:100])
            continue
        blk = val[2][2][2][2]
        okb = is_t(blk) and blk[1] == 'call' and blk[2] in ('np.vstack', 'np.concatenate') and is_t(blk[4]) and blk[4][1] == 'list'
        if not okb:
            probs.append('the parts are combined with %s, not stacked along the first axis' % show(blk)[:60])
            continue
        parts = blk[4][2:]
        for i, p_ in enumerate(parts):
            okp = is_t(p_) and p_[1] == 'part' and p_[2] == me and is_t(p_[3]) and p_[3][1] == 'item' and p_[3][3] == C(0) and \
                is_t(p_[4]) and p_[4][1] == 'item' and p_[4][3] == C(1) and p_[3][2] == p_[4][2]
            if not okp:
                probs.append('a block is read as %s, not _get_part(part, sub-index) of one pair' % show(p_)[:80])
                continue
            el = p_[3][2]
            if not (is_t(el) and el[1] == 'elem' and el[3] == C(i)):
                probs.append('the parts are not stacked in the order produced by _get_subitems')
            src = el[2] if is_t(el) else None
            if not (is_t(src) and src[1] == 'call' and src[2] == '_get_subitems' and src[4] == T('attr', me, 'part_bounds') and src[5] == item):
                probs.append('the index is split with %s, expected _get_subitems(self.part_bounds, item)' % show(src)[:70])
    if probs:
        for pmsg in sorted(set(probs))[:3]:
            ctx.violated('C01.P1', gi, pmsg[:150], pmsg)
    elif n:
        ctx.holds('C01.P1', gi, 'reader[item] = replay of the deferred ops over vstack of _get_part(p, s) for (p, s) in _get_subitems(self.part_bounds, item), in order (%d paths)' % n, '__getitem__')
    elif rep_ == 'tuple':
        ctx.undecided('C01.P1', gi, 'no data path found')
    # replay of the deferred column selection (and of every other op) is C02.T3's obligation: a replay that re-orders / re-interprets the selector breaks
    # "optionally followed by a channel selector ... exactly the columns NumPy would return" here too
    if rep_ == 'tuple':
        from vlib import report as _report
        from obligations import C02 as _C02
        sub = _report.Ctx('C02', ctx.repo, ctx.tier, ctx.seed)
        try:
            _C02.run(sub)
        except Exception:
            pass          # T3 is recorded before the later groups of C02 run: what was recorded is used
        t3 = [o for o in sub.obs if o.rule == 'C02.T3']
        for o in [o for o in t3 if o.status == 'violated'][:2]:
            ctx.obs.append(_report.Ob('C01.P1', o.where, 'violated', 'the deferred ops (channel selection included) are not replayed as recorded (C02.T3): %s' % o.detail, o.construct, o.line))
        if t3 and not any(o.status == 'violated' for o in t3) and any(o.status == 'holds' for o in t3):
            ctx.holds('C01.P1', gi, 'replay of the deferred ops, the channel selection included, is as recorded (C02.T3 holds)', 'replay')
        elif not t3:
            ctx.undecided('C01.P1', gi, 'the replay obligations of C02 (T3) could not be evaluated')
    # H1 (F01)
    found = False
    for ifn in gi.nodes(ast.If):
        cj = q.conjuncts(ifn.test)
        for i, c in enumerate(cj):
            cmpn = q.simple_compare(c)
            if cmpn and cmpn[1] in ('==', '!=') and any(isinstance(x, ast.Call) and dotted(x.func) == 'slice' for x in (cmpn[0], cmpn[2])):
                found = True
                other = cmpn[0] if not (isinstance(cmpn[0], ast.Call) and dotted(cmpn[0].func) == 'slice') else cmpn[2]
                guarded = any(isinstance(g, ast.Call) and dotted(g.func) == 'isinstance' and unparse(g.args[0]) == unparse(other) and
                              'slice' in unparse(g.args[1]) for g in cj[:i])
                ctx.check(guarded, 'C01.H1', gi, c, 'the row selector is compared with slice(None) only after it is known to be a slice',
                          '`%s` is evaluated in boolean context for any row selector: reader[index_array, cols] raises ValueError (ambiguous truth value)' % unparse(c))
    if not found:
        ctx.holds('C01.H1', gi, 'no equality test between the row selector and a slice object', '__getitem__', nontrivial=False)


def _part_bounds_composite(init, store):
    """'good' / 'bad' / None for `self.part_bounds = <helper>(X)` in a constructor, judged on the helper's returned expression with X substituted."""
    asg = [a for a in init.nodes(ast.Assign) if Pat().m('self.part_bounds', a.targets[0])]
    if len(asg) != 1:
        return None
    e = init.expand(asg[0].value)
    if isinstance(e, ast.Call):
        c = init.inline_call(asg[0].value if isinstance(asg[0].value, ast.Call) else e)
        e = c if c is not None else e
    st_ = 'self.%s' % store
    sizes = ['[V_a.shape[0] for V_a in %s]' % st_, '[len(V_a) for V_a in %s]' % st_, '[V_a.shape[0] for V_a in list(%s)]' % st_]
    goods = [f_ % z_ for z_ in sizes for f_ in ('[0] + list(np.cumsum(%s))', '[0] + np.cumsum(%s).tolist()', 'np.concatenate(([0], np.cumsum(%s)))', 'list(np.concatenate(([0], np.cumsum(%s))))',
                                                'np.r_[0, np.cumsum(%s)]', '[0] + list(np.cumsum(%s, REST))')]
    if Pat().any(goods, e):
        return 'good'
    # the same construction over a re-ordered / partial version of the stored sequence
    for alt in ('%s[::-1]' % st_, 'reversed(%s)' % st_, 'sorted(%s)' % st_, '%s[1:]' % st_, '%s[:-1]' % st_, '%s[:1]' % st_):
        if Pat().any([g_.replace(st_, alt) for g_ in goods], e):
            return 'bad'
    names = {n.id for n in ast.walk(e) if isinstance(n, ast.Name)}
    attrs = {unparse(n) for n in ast.walk(e) if isinstance(n, ast.Attribute) and isinstance(n.value, ast.Name) and n.value.id == 'self'}
    if attrs and st_ not in attrs and names <= {'self', 'np', 'list', 'len'} | {n.id for n in ast.walk(e) if isinstance(n, ast.Name) and isinstance(n.ctx, ast.Store)}:
        return 'bad'            # built from another attribute of the reader
    return None


def run(ctx):
    ctx.part('C01.T1', t1_dispatch)
    ctx.part('C01.T2', t2_d1_readers)
    ctx.part('C01.S1', s1_memmap)
    ctx.part('C01.S2', s2_find_chunks)
    ctx.part('C01.U1', u1_props)
    ctx.part('C01.S3', s3_slice)
    ctx.part('C01.S4', s4_list_int)
    ctx.part('C01.P1', p1_getitem)


LEVEL_TEXT = ('Static walks of the reader module: dispatch table over all type/extension outcomes, definite assignment of the reader '
              'attributes in every constructor, agreement between part_bounds and the storage _get_part indexes, the memmap geometry formula, '
              'the part-location rule, the per-part piece formulas of _get_subitems for slices / index lists / integers (normal-form equality '
              'with the specification under the path facts), and the read-stack-replay structure of __getitem__.')
LEVEL_NOTE = ('Trusted: np.searchsorted/np.vstack/np.memmap/np.cumsum semantics, bounds[0] == 0, negative bounds in [-n, 0), unit-step slices. '
              'Not decided: NumPy/mtscomp indexing semantics, numeric sums, empty selections, the compressed decoder.')
TECHNIQUE = 'static analysis: path walks with symbolic normal forms, definite-assignment and storage-agreement rules on the ast'
