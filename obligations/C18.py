"""C18 - JSON, TSV/CSV and parameter-file serialisation round-trips values and types.

Decided (tab: writer/reader table agreement over constants and codec structure):
  T1  array codec: keys written by the encoder == keys read by the decoder; bytes are those of a
      C-contiguous copy; dtype/shape of the ORIGINAL object; decoder = frombuffer(dtype).reshape(shape);
      small-array rule (ndim == 1 and length <= 10 -> list); NumPy scalars -> .item()
  T2  key codec: the reader's integer recogniser accepts the image of the writer's str(int);
      the writer is injective on {int, str} keys
  T3  TSV/CSV: both sides pick the delimiter from the same two-symbol table; None -> '' -> omitted;
      first_field first then sorted; simple 2-column writer/reader column order and id typing;
      number recovery tries int before float
  T4  write_python serialises strings with an escaping serialiser
  T5  wiring: save_json = stringify + encoder, load_json = decoder hook + intify
  +   the dtype string carries byte order and item size (str(dtype) / dtype.str, not dtype.name / .char / .kind); T3 also: writer and reader agree on the csv dialect
  +   every record the csv reader yields becomes one row (no continue / break / filter on the record in the row loop of read_tsv)
Not decided: csv quoting, float formatting to the written precision, exec of the parameter file.
"""
import ast

from vlib import q
from vlib.pat import Pat, returned
from vlib.front import unparse, dotted, const_value, is_none, walk_local_ordered

M = 'phylib/utils/_misc.py'
FLOOR = 14          # decided obligations below this = the analysis lost its footing (exit 2); clean tree: 41
RULES = ('C18.T1', 'C18.T2', 'C18.T3', 'C18.T4', 'C18.T5')          # every obligation group must report (holds / violated / undecided): a group that vanishes silently is an analysis error
EXPLANATION = ('tab engine: constant tables and codec structure of the JSON array/key codec, the TSV/CSV '
               'writers and readers, and the parameter-file writer are extracted from the AST of '
               'phylib/utils/_misc.py and compared pairwise (writer vs reader); decides named necessary '
               'clauses of C18, not the round-trip behaviour itself')
TRUSTED = ['python ast', 'semantics of json/base64/csv/numpy.frombuffer as named', 'recogniser language table in C18.T2']
ASSUMPTIONS = ['json, csv, base64 and numpy behave as documented', 'callers pass dictionaries with int/str top-level keys']


def _branches(fi, ctx):
    """[(test, [return])] for every return of the function: test = conjunction of the tests of the `if` statements whose BODY encloses the return
    (None when there is none). An if/elif chain, separate `if` statements that each return, and nested `if`s are the same thing here."""
    out = []
    for r in sorted(fi.returns(), key=lambda n: (n.lineno, n.col_offset)):
        conj = []
        for ifn, br in q.enclosing_ifs(fi, r):
            if br == 'body':
                conj.extend(q.conjuncts(ifn.test))
        test = None if not conj else (conj[0] if len(conj) == 1 else ast.copy_location(ast.BoolOp(op=ast.And(), values=conj), conj[0]))
        out.append((test, [r]))
    return out


def _isinstance_of(test, varname, typetext):
    for c in q.conjuncts(test):
        if isinstance(c, ast.Call) and dotted(c.func) == 'isinstance' and len(c.args) == 2 and \
                isinstance(c.args[0], ast.Name) and c.args[0].id == varname:
            t = c.args[1]
            elts = t.elts if isinstance(t, ast.Tuple) else [t]
            if any((dotted(e) or '').endswith(typetext) for e in elts):
                return True
    return False


def t1_array_codec(ctx):
    repo = ctx.repo
    enc = repo.func(M, '_CustomEncoder.default')
    dec = repo.func(M, '_json_custom_hook')
    obj = enc.real_params[0]
    d = dec.real_params[0]
    # --- encoder: locate the general ndarray branch = the branch that returns a mapping
    written, ret_node, small = None, None, None
    for test, body in _branches(enc, ctx):
        if test is None or not _isinstance_of(test, obj, 'ndarray'):
            continue
        for r in [n for s in body for n in ([s] + list(walk_local_ordered(s))) if isinstance(n, ast.Return)]:
            v = enc.expand(r.value) if r.value is not None else None
            keys = q.dict_keys_written(v) if v is not None else None
            if keys is not None:
                written, ret_node = keys, r
            elif v is not None and isinstance(v, ast.Call) and q.method_name(v) == 'tolist':
                small = (test, r)
    if written is None:
        ctx.undecided('C18.T1', enc, 'no ndarray branch returning a mapping was found in the encoder')
        return
    # --- decoder: keys read from the mapping parameter
    read = {}
    marker_tests = []
    for n in walk_local_ordered(dec.node):
        if isinstance(n, ast.Subscript) and isinstance(n.value, ast.Name) and n.value.id == d:
            k = const_value(n.slice)
            if isinstance(k, str):
                read.setdefault(k, []).append(n)
        if isinstance(n, ast.Compare) and len(n.ops) == 1 and isinstance(n.ops[0], ast.In) and \
                isinstance(n.comparators[0], ast.Name) and n.comparators[0].id == d:
            marker_tests.append(const_value(n.left))
    arr_keys = set(written)
    markers = [m for m in marker_tests if m in arr_keys]
    if not markers and (not marker_tests or any(m is None for m in marker_tests)):
        # the tag is not a literal of the hook (a table of (tag, decoder) pairs, a helper): the decoder side is not followed
        ctx.undecided('C18.T1', dec, 'the decoder does not test for a literal key: how an encoded array is recognised and decoded was not followed')
        return
    ctx.check(bool(markers), 'C18.T1', dec, ret_node,
              'decoder recognises an encoded array by a key the encoder writes (%s)' % markers,
              'decoder tests for %s but the encoder writes keys %s' % (marker_tests, sorted(arr_keys)))
    if not markers:
        return
    marker = markers[0]
    # the decoder's array branch: the return under the marker test
    dec_ret = None
    for r in dec.returns():
        if any(isinstance(a, ast.If) and any(const_value(getattr(c, 'left', None)) == marker
               for c in ast.walk(a.test) if isinstance(c, ast.Compare)) for a in dec.ancestors(r)):
            dec_ret = r
            break
    if dec_ret is None:
        ctx.undecided('C18.T1', dec, 'no return under the array-marker test')
        return
    rv = dec.expand(dec_ret.value)
    read_in_branch = {const_value(n.slice) for n in ast.walk(rv) if isinstance(n, ast.Subscript) and
                      isinstance(n.value, ast.Name) and n.value.id == d}
    ctx.check(read_in_branch == arr_keys, 'C18.T1', dec, dec_ret,
              'keys read by the decoder == keys written by the encoder: %s' % sorted(arr_keys),
              'encoder writes %s, decoder reads %s' % (sorted(arr_keys), sorted(map(str, read_in_branch))))
    # decoder shape: <frombuffer(b64decode(d[marker]), d[dtype-key])>.reshape(d[shape-key])
    ok_struct = False
    dtype_key = shape_key = None
    if isinstance(rv, ast.Call) and q.method_name(rv) == 'reshape' and rv.args:
        shape_key = const_value(rv.args[0].slice) if isinstance(rv.args[0], ast.Subscript) else None
        inner = rv.func.value
        if isinstance(inner, ast.Call) and q.method_name(inner) in ('frombuffer', 'fromstring') and len(inner.args) + len(inner.keywords) >= 2:
            data = inner.args[0]
            dt = q.arg(inner, 1, 'dtype')
            dtype_key = const_value(dt.slice) if isinstance(dt, ast.Subscript) else None
            if isinstance(data, ast.Call) and q.method_name(data) == 'b64decode' and data.args and \
                    isinstance(data.args[0], ast.Subscript) and const_value(data.args[0].slice) == marker:
                ok_struct = True
    if not ok_struct:
        ctx.undecided('C18.T1', dec, 'decoder is not of the form frombuffer(b64decode(d[marker]), d[k1]).reshape(d[k2])', dec_ret)
        return
    ctx.holds('C18.T1', dec, 'decoder = frombuffer(b64decode(d[%r]), d[%r]).reshape(d[%r])' % (marker, dtype_key, shape_key), dec_ret)
    # encoder side of each key
    dv = written.get(dtype_key)
    sv = written.get(shape_key)
    bv = written.get(marker)
    if dv is None or sv is None or bv is None:
        ctx.violated('C18.T1', enc, ret_node, 'decoder reads dtype from %r and shape from %r but the encoder does not write them' % (dtype_key, shape_key))
        return
    dvt, svt = unparse(dv), unparse(sv)
    # the dtype string must identify item size AND byte order (the bytes are written in the array's own byte order): str(dtype) / dtype.str do,
    # dtype.name / .char / .kind / .type.__name__ drop the byte order ('>i4' -> 'int32') or the size
    dx = enc.expand(dv)
    PD = Pat()
    full = PD.any(['str(E_a.dtype)', 'E_a.dtype.str', 'E_a.dtype.__str__()', "'%s' % E_a.dtype", 'repr(E_a.dtype.str)[1:-1]', 'format(E_a.dtype)'], dx)
    lossy = not full and PD.any(['E_a.dtype.name', 'E_a.dtype.char', 'E_a.dtype.kind', 'E_a.dtype.type.__name__', 'str(E_a.dtype.name)', 'str(E_a.dtype.type)', 'E_a.dtype.base.name',
                                 'E_a.dtype.newbyteorder(ANY).str', 'str(E_a.dtype.newbyteorder(ANY))'], dx)
    other = not full and not lossy and (isinstance(dx, ast.Constant) or not any(isinstance(n_, ast.Attribute) and n_.attr == 'dtype' for n_ in ast.walk(dx)))
    ctx.tri(bool(full), bool(lossy) or other, 'C18.T1', enc, dv, 'dtype key carries the full dtype string of the encoded array, byte order included (%s)' % dvt,
            ('dtype key is written from `%s`, which drops the byte order (or the item size) of the dtype: a non-native-endian array is decoded with swapped bytes' % dvt) if lossy else
            ('dtype key is written from `%s`, which is not the array dtype' % dvt), 'how the dtype key is written (`%s`) was not recognised' % dvt)
    ctx.check(svt.endswith('.shape') or svt.startswith('list(') and svt.endswith('.shape)') or svt.startswith('tuple('),
              'C18.T1', enc, sv, 'shape key carries the array shape (%s)' % svt,
              'shape key is written from `%s`, which is not the array shape' % svt)
    # bytes: b64encode(X) [.decode] with X from a C-contiguous copy (ascontiguousarray(obj).data / .tobytes() / obj.tobytes())
    bt = unparse(bv)
    inner = None
    for n in ast.walk(bv):
        if isinstance(n, ast.Call) and q.method_name(n) == 'b64encode' and n.args:
            inner = n.args[0]
    if inner is None:
        ctx.undecided('C18.T1', enc, 'no b64encode call feeds the data key', bv)
    else:
        it = unparse(inner)
        contiguous = 'ascontiguousarray(%s)' % obj in it or it in ('%s.tobytes()' % obj, "%s.tobytes('C')" % obj, "%s.tobytes(order='C')" % obj)
        ctx.check(contiguous, 'C18.T1', enc, inner,
                  'encoded bytes are those of a C-contiguous copy (%s)' % it,
                  'encoded bytes `%s` are not taken from a C-contiguous copy of the array: strided / Fortran arrays decode to different values' % it)
        # the shape/dtype must describe the same element order as the bytes: shape of obj == shape of the contiguous copy, fine;
        # but bytes of `obj.T` or a slice would not match
        ctx.check(all(nm in (obj, 'np', 'numpy', 'base64', 'obj_contiguous') or nm == obj for nm in q.names_in(inner)),
                  'C18.T1', enc, inner, 'encoded bytes derive from the encoded object only', 'encoded bytes derive from %s' % sorted(q.names_in(inner)))
    # small-array rule
    if small is None:
        ctx.undecided('C18.T1', enc, 'no small-array (tolist) branch found')
    else:
        test, r = small
        parts = [q.simple_compare(c) for c in q.conjuncts(test)]
        parts = [p for p in parts if p]
        nd = any(Pat().any(['%s.ndim == 1' % obj, 'len(%s.shape) == 1' % obj, 'np.ndim(%s) == 1' % obj], c) for c in q.conjuncts(test))
        bound = None
        for a, op, b in parts:
            ta = unparse(a)
            if ta in ('%s.shape[0]' % obj, 'len(%s)' % obj, '%s.size' % obj) and op in ('<=', '<') and isinstance(const_value(b), int):
                bound = const_value(b) - (1 if op == '<' else 0)
            tb = unparse(b)
            if tb in ('%s.shape[0]' % obj, 'len(%s)' % obj, '%s.size' % obj) and op in ('>=', '>') and isinstance(const_value(a), int):
                bound = const_value(a) - (1 if op == '>' else 0)
        ctx.check(nd, 'C18.T1', enc, test, 'clear-text list form is restricted to one-dimensional arrays',
                  'clear-text list form is not restricted to ndim == 1 (`%s`): shape is lost' % unparse(test))
        if bound is None:
            ctx.undecided('C18.T1', enc, 'length bound of the small-array rule not recognised', test)
        else:
            ctx.check(bound == 10, 'C18.T1', enc, test, 'small-array rule applies to at most 10 items',
                      'small-array rule applies to arrays of up to %d items (the property allows lists only up to 10)' % bound)
    # numpy scalars
    found = False
    for test, body in _branches(enc, ctx):
        if test is not None and _isinstance_of(test, obj, 'generic'):
            rets = [n for s in body for n in ([s] + list(walk_local_ordered(s))) if isinstance(n, ast.Return)]
            vals = [enc.expand(r.value) for r in rets if r.value is not None]
            ok = any(Pat().any(['%s.item()' % obj, '%s.tolist()' % obj], v) for v in vals)
            conv = any(isinstance(v, ast.Call) and dotted(v.func) in ('float', 'int', 'str', 'repr') for v in vals)
            if ok:
                ctx.holds('C18.T1', enc, 'NumPy scalars are encoded through .item()', rets[0])
            elif conv or not vals:
                ctx.violated('C18.T1', enc, rets[0] if rets else test, 'NumPy scalar branch does not return obj.item() (`%s`): integer / boolean scalars change type' % (unparse(vals[0]) if vals else 'nothing returned'))
            else:
                ctx.undecided('C18.T1', enc, 'NumPy scalar branch not in a recognised form', rets[0])
            found = True
    if not found:
        ctx.violated('C18.T1', enc, enc.node.name, 'no branch encodes NumPy scalars (np.generic): such values cannot be serialised')


RECOGNISERS = {
    # text of the recogniser applied to key k -> accepted language class
    'k.isdigit()': 'NONNEG', 'k.isdecimal()': 'NONNEG', 'k.isnumeric()': 'NONNEG',
    "k.lstrip('-').isdigit()": 'SIGNED', "k.lstrip('-+').isdigit()": 'SIGNED', "k.lstrip('+-').isdigit()": 'SIGNED',
}
TOO_WIDE = {'k.isalnum()': 'letters', 'k.isalpha()': 'letters', 'k.isascii()': 'any ASCII text', 'k.isprintable()': 'any printable text',
            'k.isidentifier()': 'identifiers', 'len(k) > 0': 'any non-empty text', 'k': 'any non-empty text'}
REGEX_SIGNED = (r'^-?\d+$', r'-?\d+$', r'^-?[0-9]+$', r'-?[0-9]+$', r'-?\d+\Z', r'^[-+]?\d+$', r'[-+]?\d+$', r'-?\d+', r'[-+]?\d+')


def _classify(c, k):
    """Language class of a recogniser expression over the key variable k: NONNEG ([0-9]+), NEG (-[0-9]+),
    SIGNED (-?[0-9]+), or None when not recognised."""
    t = unparse(c).replace(k + '.', 'k.').replace(k + '[', 'k[')
    if t in RECOGNISERS:
        return RECOGNISERS[t]
    if isinstance(c, ast.BoolOp) and isinstance(c.op, ast.Or):
        parts = [_classify(v, k) for v in c.values]
        if any(p is None for p in parts):
            return None
        if 'SIGNED' in parts or ('NONNEG' in parts and 'NEG' in parts):
            return 'SIGNED'
        return parts[0] if len(set(parts)) == 1 else None
    if isinstance(c, ast.BoolOp) and isinstance(c.op, ast.And):
        ts = sorted(unparse(v).replace(k + '.', 'k.').replace(k + '[', 'k[') for v in c.values)
        minus = {"k[:1] == '-'", "k.startswith('-')", "k[0] == '-'"}
        rest = {'k[1:].isdigit()', 'k[1:].isdecimal()'}
        if len(ts) == 2 and any(x in minus for x in ts) and any(x in rest for x in ts):
            return 'NEG'
    return None


def _recogniser_conjuncts(repo, fi, test, k):
    """Conjuncts of a test over the key variable k; a one-argument predicate helper extracted after the pinned tree (`_is_integer_string(k)`) is
    replaced by its single returned expression with the parameter renamed to k."""
    from vlib.proto import known_functions
    out = []
    for c in q.conjuncts(test):
        if isinstance(c, ast.Call) and len(c.args) == 1 and not c.keywords and isinstance(c.args[0], ast.Name) and c.args[0].id == k:
            tg = [t for t in _resolve(repo, fi, c) if t.where not in known_functions()]
            if len(tg) == 1 and len(tg[0].real_params) == 1:
                rets = [r for r in tg[0].returns() if r.value is not None]
                if len(rets) == 1:
                    import copy as _copy
                    e = _copy.deepcopy(tg[0].expand(rets[0].value))
                    for n in ast.walk(e):
                        if isinstance(n, ast.Name) and n.id == tg[0].real_params[0]:
                            n.id = k
                    out.extend(q.conjuncts(e))
                    continue
        out.append(c)
    return out


def t2_key_codec(ctx):
    repo = ctx.repo
    rd = repo.func(M, '_intify_keys')
    wr = repo.func(M, '_stringify_keys')
    # writer: k = str(k) under an integer test
    conv = [c for c in wr.calls() if dotted(c.func) == 'str' and len(c.args) == 1]
    if not conv:
        ctx.undecided('C18.T2', wr, 'no str(k) conversion found in the key writer')
        return
    # reader: int(k) under a recogniser
    ints = [c for c in rd.calls() if dotted(c.func) == 'int' and len(c.args) == 1 and isinstance(c.args[0], ast.Name)]
    if not ints:
        ctx.undecided('C18.T2', rd, 'no int(k) conversion found in the key reader')
        return
    call = ints[0]
    k = call.args[0].id
    lang = None
    rec_node = None
    in_try = any(isinstance(a, ast.Try) for a in rd.ancestors(call))
    for ifn, br in q.enclosing_ifs(rd, call, ifexp=True):
        if br != 'body':
            continue
        for c in _recogniser_conjuncts(repo, rd, ifn.test, k):
            cl = _classify(c, k)
            if cl is not None:
                lang, rec_node = cl, c
            if isinstance(c, ast.Call) and q.method_name(c) in ('match', 'fullmatch') and c.args:
                pat = const_value(c.args[0])
                if isinstance(pat, str):
                    full = q.method_name(c) == 'fullmatch' or pat.endswith(('$', r'\Z'))
                    if pat in REGEX_SIGNED and full:
                        lang, rec_node = 'SIGNED', c
                    elif pat in (r'^\d+$', r'\d+$', r'\d+', r'[0-9]+$', r'^[0-9]+$') and full:
                        lang, rec_node = 'NONNEG', c
    if lang is None and in_try:
        lang, rec_node = 'SIGNED', call
    wide = None
    if lang is None:
        for ifn, br in q.enclosing_ifs(rd, call, ifexp=True):
            for c in (_recogniser_conjuncts(repo, rd, ifn.test, k) if br == 'body' else []):
                t = unparse(c).replace(k + '.', 'k.').replace(k + '[', 'k[')
                t = 'k' if t == k else t
                if t in TOO_WIDE and all(_classify(c2, k) is None for c2 in _recogniser_conjuncts(repo, rd, ifn.test, k)):
                    wide = (c, TOO_WIDE[t])
    if wide is not None:
        ctx.violated('C18.T2', rd, wide[0], 'the reader applies int() to every key accepted by `%s` (%s): an ordinary string key makes load_json raise '
                     'instead of coming back unchanged' % (unparse(wide[0]), wide[1]))
    elif lang is None:
        ctx.undecided('C18.T2', rd, 'integer-key recogniser not in the recogniser table', call)
    else:
        ctx.check(lang == 'SIGNED', 'C18.T2', rd, rec_node,
                  'the reader recognises every image of str(int) (language -?[0-9]+)',
                  'writer emits str(k) for every integer key (language -?[0-9]+) but the reader only converts '
                  'keys matching [0-9]+: negative integer keys come back as strings')
    # injectivity of the writer on {int, str}: a str key equal to the decimal form of an int key (or any digit string)
    # is indistinguishable after writing unless the writer tags or escapes one of the two classes
    tagged = any(isinstance(n, (ast.JoinedStr,)) or (isinstance(n, ast.BinOp) and isinstance(n.op, (ast.Add, ast.Mod)))
                 for s in wr.body() for n in ast.walk(s))
    # the construct of this obligation names the colliding pair of inputs, not the statement: the defect is the same however the writer is spelled
    ctx.check(tagged, 'C18.T2', wr, 'keys 7 and "7" have the same image' if not tagged else wr.stmt_of(conv[0]),
              'the writer marks converted integer keys, so string keys that look like integers stay strings',
              'int key k and str key str(k) are written identically (str(k) with no tag), and the reader turns every '
              'digit string into an int: a string key such as "7" comes back as the integer 7')


def t2_depth(ctx):
    """The writer converts integer keys at some nesting depth (the top-level dictionary only, or every dictionary); the reader must convert back at the same depth. A
    converter called from the JSON object hook (which json runs on EVERY decoded object) or calling itself on its values works at every depth; one called once on the
    loaded / saved dictionary works at the top level only. A mismatch turns the digit-string keys of nested dictionaries into integers (or leaves nested integer keys as
    strings)."""
    repo = ctx.repo
    rd = repo.func(M, '_intify_keys')
    wr = repo.func(M, '_stringify_keys')
    hook = repo.func(M, '_json_custom_hook')
    enc = repo.func(M, '_CustomEncoder.default')
    mod = repo.modules[M]

    def depth_of(conv, per_object, top):
        """'all' / 'top' / None"""
        callers = []
        for f_ in mod.all_funcs() if hasattr(mod, 'all_funcs') else repo.all_funcs():
            if f_.module is not mod:
                continue
            for c in f_.calls():
                tg = repo.resolve_call(f_, c)
                if tg and any(t.node is conv.node for t in tg):
                    callers.append((f_, c))
        if not callers:
            return None, None
        kinds = set()
        for f_, c in callers:
            if f_.node is conv.node or any(f_.node is g_.node for p_ in per_object for g_ in repo.transparent_closure(p_)):
                kinds.add('all')
            elif f_.node is top.node:
                kinds.add('top')
            else:
                kinds.add(None)
        if 'all' in kinds:
            return 'all', [c for f_, c in callers if f_.node is conv.node or any(f_.node is g_.node for p_ in per_object for g_ in repo.transparent_closure(p_))][0]
        if kinds == {'top'}:
            return 'top', callers[0][1]
        return None, callers[0][1]
    wd, wn = depth_of(wr, [enc], repo.func(M, 'save_json'))
    rdp, rn = depth_of(rd, [hook], repo.func(M, 'load_json'))
    ctx.tri(wd is not None and wd == rdp, wd is not None and rdp is not None and wd != rdp, 'C18.T2', rd, rn if rn is not None else '_intify_keys',
            'integer keys are converted to strings and back at the same nesting depth (%s-level dictionaries)' % wd,
            'the writer converts integer keys of %s, the reader converts digit-string keys of %s: string keys such as "0" of a nested dictionary come back as integers (or nested '
            'integer keys stay strings)' % ({'top': 'the top-level dictionary only', 'all': 'every nested dictionary'}.get(wd), {'top': 'the top-level dictionary only', 'all': 'every decoded object'}.get(rdp)),
            'the nesting depth at which integer keys are converted was not recognised (writer: %s, reader: %s)' % (wd, rdp))


def t5_wiring(ctx):
    """save_json serialises _stringify_keys(data) with the array encoder; load_json decodes with the array hook. Three-valued: the encoder may be named by `cls=` of
    json.dump(s) or instantiated and asked to (iter)encode; the hook may be the `object_hook=` of json.load(s) or installed by the __init__ of a JSONDecoder subclass
    passed as `cls=`. A plain json.dump / json.loads without either is the wrong form; anything else is undecided."""
    repo = ctx.repo
    sj = repo.func(M, 'save_json')
    lj = repo.func(M, 'load_json')
    enc_cls = repo.func(M, '_CustomEncoder.default').cls
    hook = repo.func(M, '_json_custom_hook')
    strf = repo.func(M, '_stringify_keys')

    def cls_of(fi, e):
        """True: names the encoder class (or a subclass); False: names the standard-library JSON encoder / nothing; None: something else."""
        if e is None or (isinstance(e, ast.Constant) and e.value is None):
            return False
        if isinstance(e, ast.Name):
            r = repo.resolve_name(fi.module, e.id)
            if r is not None and r[0] == 'class':
                ci = r[1]
                for _ in range(6):
                    if ci is enc_cls:
                        return True
                    nxt = [repo.resolve_name(ci.module, b) for b in ci.bases if '.' not in b]
                    nxt = [x[1] for x in nxt if x is not None and x[0] == 'class']
                    if not nxt:
                        break
                    ci = nxt[0]
                return None
        if (repo.ext_name(fi, e) or '') in ('json.JSONEncoder', 'json.encoder.JSONEncoder'):
            return False
        return None

    def is_fn(fi, e, target):
        if isinstance(e, ast.Name):
            r = repo.resolve_name(fi.module, e.id)
            return r is not None and r[0] in ('func', 'bound') and r[1].node is target.node
        return False

    def data_of(fi, e):
        """True: the value comes out of _stringify_keys; False: it is the caller's dictionary itself; None: not followed."""
        if e is None:
            return None
        src = fi.expand(e)
        if any(isinstance(n, ast.Call) and is_fn(fi, n.func, strf) for n in ast.walk(src)):
            return True
        if isinstance(e, ast.Name) and any(kind == 'assign' and isinstance(v, ast.Call) and is_fn(fi, v.func, strf) for kind, v, st, ex in fi.defs().get(e.id, [])):
            return True
        if isinstance(src, ast.Name) and src.id in fi.params and not any(kind == 'assign' for kind, v, st, ex in fi.defs().get(src.id, [])):
            return False
        return None
    sites = []          # (node, uses encoder, data through _stringify_keys)
    for c in sj.calls():
        ext = repo.ext_name(sj, c.func) or ''
        if ext in ('json.dump', 'json.dumps'):
            sites.append((c, cls_of(sj, q.kwarg(c, 'cls')), data_of(sj, c.args[0] if c.args else q.kwarg(c, 'obj'))))
        elif isinstance(c.func, ast.Attribute) and c.func.attr in ('iterencode', 'encode') and c.args:
            recv = sj.expand(c.func.value)
            k = cls_of(sj, recv.func) if isinstance(recv, ast.Call) else None
            if k is not None or isinstance(recv, ast.Call):
                sites.append((c, k, data_of(sj, c.args[0])))
    good = any(k is True and d is True for _, k, d in sites)
    bad = bool(sites) and not good and all(k is False or d is False for _, k, d in sites)
    ctx.tri(good, bad, 'C18.T5', sj, sites[0][0] if sites else sj.node.name,
            'save_json serialises _stringify_keys(data) with the array encoder',
            'save_json does not pass the stringified dictionary through the array encoder',
            'save_json: the serialisation call was not recognised (json.dump(s) with cls=, or <encoder>(...).iterencode / encode)')

    def decoder_installs_hook(ci):
        init = repo.lookup_method(ci, '__init__')
        if init is None or init.cls is not ci:
            return None
        for c in init.calls():
            if isinstance(c.func, ast.Attribute) and c.func.attr == '__init__':
                h = q.kwarg(c, 'object_hook')
                if h is not None:
                    return True if is_fn(init, h, hook) else None
        return None
    rsites = []
    for c in lj.calls():
        ext = repo.ext_name(lj, c.func) or ''
        if ext not in ('json.loads', 'json.load'):
            continue
        h, cl = q.kwarg(c, 'object_hook'), q.kwarg(c, 'cls')
        if h is not None:
            rsites.append((c, True if is_fn(lj, h, hook) else None))
        elif cl is not None:
            r = repo.resolve_name(lj.module, cl.id) if isinstance(cl, ast.Name) else None
            rsites.append((c, decoder_installs_hook(r[1]) if r is not None and r[0] == 'class' else None))
        elif any(k.arg is None for k in c.keywords):
            rsites.append((c, None))
        else:
            rsites.append((c, False))
    rgood = any(k is True for _, k in rsites)
    rbad = bool(rsites) and not rgood and all(k is False for _, k in rsites)
    ctx.tri(rgood, rbad, 'C18.T5', lj, rsites[0][0] if rsites else lj.node.name,
            'load_json decodes with the array hook', 'load_json does not install the array decoder hook',
            'load_json: the decoding call was not recognised (json.load(s) with object_hook=, or cls= a JSONDecoder subclass whose __init__ installs the hook)')
    rets = [r for r in lj.returns() if r.value is not None]
    last = rets[-1] if rets else None
    intify = last is not None and any(isinstance(n, ast.Call) and dotted(n.func) == '_intify_keys' for n in ast.walk(lj.expand(last.value)))
    ctx.check(intify, 'C18.T5', lj, last, 'load_json restores integer keys on the top-level dictionary',
              'load_json does not restore integer keys')


def _delims(fi, repo=None):
    """(csv call, delimiter expression expanded, function in which that expression lives); a delimiter computed by a helper of the
    same module is followed into the helper's single return expression."""
    for c in q.calls_named(fi, 'writer', 'reader'):
        d = q.kwarg(c, 'delimiter')
        if d is not None:
            e = fi.expand(d)
            home = fi
            if repo is not None and isinstance(e, ast.Call) and isinstance(e.func, ast.Name):
                try:
                    g = repo.func(M, e.func.id)
                except Exception:
                    g = None
                if g is not None:
                    rets = [r for r in g.returns() if r.value is not None]
                    if len(rets) == 1:
                        e, home = g.expand(rets[0].value), g
            return c, e, home
    return None, None, fi


def _ifexp_table(e):
    if isinstance(e, ast.IfExp) and isinstance(const_value(e.body), str) and isinstance(const_value(e.orelse), str):
        return e.test, const_value(e.body), const_value(e.orelse)
    return None


def _resolve(repo, fi, call):
    try:
        return repo.resolve_call(fi, call, virtual=False)
    except Exception:
        return []


def csv_dialect_agreement(ctx, rule, wn, rn):
    """The csv dialect of a writer / reader pair agrees: quoting, quote character, escape character, doubling. A reader that does not undo the quoting the writer
    applies returns cells with literal quotes / split at a delimiter inside a cell ("strings containing the other delimiter or quotes"). Shared with C10."""
    repo = ctx.repo
    w, r = repo.func(M, wn), repo.func(M, rn)
    wc, _wd, _wh = _delims(w, repo)
    rc, _rdl, _rhome = _delims(r, repo)
    if wc is None or rc is None:
        ctx.undecided(rule, w, 'csv writer / reader calls of %s / %s not found' % (wn, rn))
        return
    DIALECT = ('quoting', 'quotechar', 'escapechar', 'doublequote', 'skipinitialspace', 'dialect', 'strict')
    DEFAULT = {'quoting': 'csv.QUOTE_MINIMAL', 'quotechar': "'\"'", 'escapechar': 'None', 'doublequote': 'True', 'skipinitialspace': 'False', 'dialect': "'excel'", 'strict': 'False'}

    def dial(call, home):
        out = {}
        for k in call.keywords:
            if k.arg in DIALECT:
                out[k.arg] = unparse(home.expand(k.value))
            elif k.arg is None:
                out['**'] = unparse(k.value)
        return out
    dw, dr = dial(wc, w), dial(rc, r)
    diff = [k for k in DIALECT if k not in ('strict',) and dw.get(k, DEFAULT[k]) != dr.get(k, DEFAULT[k])]
    if '**' in dw or '**' in dr:
        ctx.undecided(rule, w, 'csv dialect of %s/%s passed through ** arguments' % (wn, rn))
    elif diff:
        ctx.violated(rule, r, rc, '%s reads with %s but %s writes with %s: cells the writer quotes (a delimiter, a quote or a line break inside a string) are not read back as written' %
                     (rn, ', '.join('%s=%s' % (k, dr.get(k, DEFAULT[k])) for k in diff), wn, ', '.join('%s=%s' % (k, dw.get(k, DEFAULT[k])) for k in diff)))
    else:
        ctx.holds(rule, w, '%s and %s use the same csv dialect (quoting, quote / escape characters, doubling)' % (wn, rn), wc)


def tsv_delimiters(ctx, rule='C18.T3', pairs=(('write_tsv', 'read_tsv'), ('_write_tsv_simple', '_read_tsv_simple'))):
    """writer / reader delimiter tables, header sniffing and csv dialect of the given pairs (shared with C10 for the metadata pair)"""
    repo = ctx.repo
    for wn, rn in pairs:
        w, r = repo.func(M, wn), repo.func(M, rn)
        wc, wd, _wh = _delims(w, repo)
        rc, rdl, rhome = _delims(r, repo)
        csv_dialect_agreement(ctx, rule, wn, rn)
        wt, rt = _ifexp_table(wd) if wd is not None else None, _ifexp_table(rdl) if rdl is not None else None
        if not wt or not rt:
            ctx.undecided(rule, w, 'delimiter choice of %s/%s is not a two-way constant table' % (wn, rn), wc or rc)
            continue
        wtest, wa, wb = wt
        rtest, ra, rb = rt
        # writer: '.tsv' suffix -> tab
        wcmp = q.simple_compare(wtest)
        w_ok = wcmp is not None and '.tsv' in (const_value(wcmp[0]), const_value(wcmp[2])) and \
            ((wcmp[1] == '==' and wa == '\t' and wb == ',') or (wcmp[1] == '!=' and wa == ',' and wb == '\t'))
        ctx.check(w_ok, rule, w, wd, "%s writes tab-separated for '.tsv' and comma-separated otherwise" % wn,
                  "%s does not map '.tsv' -> tab / other -> comma (`%s`)" % (wn, unparse(wd)))
        # reader: sniffed symbol must be the symbol it then selects, and the table must be {tab, comma}
        rcmp = q.simple_compare(rtest)
        r_ok = rcmp is not None and rcmp[1] in ('in', 'not in') and isinstance(const_value(rcmp[0]), str) and \
            ((rcmp[1] == 'in' and const_value(rcmp[0]) == ra) or (rcmp[1] == 'not in' and const_value(rcmp[0]) == rb))
        ctx.check(r_ok and {ra, rb} == {wa, wb}, rule, r, rdl,
                  '%s selects the delimiter it sniffs in the header, from the same table {tab, comma} as %s' % (rn, wn),
                  '%s chooses between %r and %r on `%s`, %s writes %r/%r' % (rn, ra, rb, unparse(rtest), wn, wa, wb))
        # what is sniffed: only the header line. String cells are in the property's quantifier and may contain the other delimiter,
        # so a sniff over more of the file picks the wrong delimiter for a comma-separated table holding a tab in a cell
        sniffed = rcmp[2] if rcmp is not None else None
        if sniffed is not None:
            sx = rhome.expand(sniffed)
            st_ = unparse(sx).replace(' ', '')
            mname = q.method_name(sx) if isinstance(sx, ast.Call) else None
            if mname == 'readline' or (isinstance(sx, ast.Call) and dotted(sx.func) == 'next') or st_.endswith('.readlines()[0]') or st_.endswith('.splitlines()[0]'):
                ctx.holds(rule, rhome, '%s sniffs the delimiter in the header line only' % rn, sx)
            elif mname in ('read', 'read_text', 'readlines') or (isinstance(sx, ast.Call) and dotted(sx.func) in ('str', 'repr')):
                ctx.violated(rule, rhome, sx, '%s sniffs the delimiter in `%s`, which covers data rows: a comma-separated table with a tab inside a string cell is read as '
                             'tab-separated (rows collapse into one column)' % (rn, unparse(sx)))
            else:
                ctx.undecided(rule, rhome, 'text in which %s sniffs the delimiter not recognised' % rn, sx)
        ctx.check(dotted(wc.func).endswith('writer') and dotted(rc.func).endswith('reader'), rule, w, wc,
                  'csv.writer / csv.reader pair', 'writer/reader pair mismatch')


def t3_tsv(ctx):
    repo = ctx.repo
    tsv_delimiters(ctx)
    # write_tsv: None for absent fields, first_field first then sorted
    w = repo.func(M, 'write_tsv')
    gets = [c for c in q.calls_named(w, 'get') if isinstance(c.func, ast.Attribute)]
    get_refs = [n for n in ast.walk(w.node) if isinstance(n, ast.Attribute) and n.attr == 'get' and isinstance(n.ctx, ast.Load) and
                not any(isinstance(p_, ast.Call) and p_.func is n for p_ in ast.walk(w.node))]            # `map(row.get, fields)`: the bound method, default None
    ok_none = any((len(c.args) == 1) or (len(c.args) == 2 and (is_none(c.args[1]) or const_value(c.args[1]) == '')) for c in gets) or bool(get_refs)
    bad_default = [c for c in gets if len(c.args) == 2 and not (is_none(c.args[1]) or const_value(c.args[1]) == '')]
    row_sub = [n for n in ast.walk(w.node) if isinstance(n, ast.Subscript) and isinstance(n.ctx, ast.Load) and isinstance(n.value, ast.Name) and n.value.id in ('row', 'r', 'd') and
               isinstance(n.slice, ast.Name)]
    # `row[field] ... if field in row`: the lookup is guarded, absent fields are left to the writer (csv.DictWriter fills them with restval)
    def guarded(n):
        nm, key = n.value.id, n.slice.id
        for a_ in w.ancestors(n):
            tests = []
            if isinstance(a_, (ast.ListComp, ast.DictComp, ast.SetComp, ast.GeneratorExp)):
                tests = [t_ for g_ in a_.generators for t_ in g_.ifs]
            elif isinstance(a_, ast.IfExp) and q.contains(a_.body, n):
                tests = [a_.test]
            elif isinstance(a_, ast.If) and any(q.contains(b_, n) for b_ in a_.body):
                tests = [a_.test]
            if any(Pat().m('%s in %s' % (key, nm), t_) for t_ in tests):
                return True
        return False
    dictw = [c for c in w.calls() if (dotted(c.func) or '').split('.')[-1] == 'DictWriter']
    if row_sub and all(guarded(n) for n in row_sub) and not gets and not get_refs:
        rv = q.kwarg(dictw[0], 'restval') if dictw else None
        if dictw and (rv is None or is_none(rv) or const_value(rv) == ''):
            ctx.holds('C18.T3', w, 'absent fields are written as empty cells (guarded lookup, csv.DictWriter fills the missing keys with an empty restval)', dictw[0])
        elif dictw and isinstance(rv, ast.Constant):
            ctx.violated('C18.T3', w, dictw[0], 'absent fields are written as `%s`, not as empty cells' % unparse(rv))
        else:
            ctx.undecided('C18.T3', w, 'how a cell of an absent field is produced was not recognised (guarded row lookup)')
    elif ok_none and not bad_default:
        ctx.holds('C18.T3', w, 'absent fields are written as empty cells (row.get(field, None))', (gets or get_refs)[0])
    elif bad_default or (row_sub and not gets and not get_refs):
        ctx.violated('C18.T3', w, (bad_default or row_sub)[0], 'absent fields are not written as empty cells (`%s`)' % unparse((bad_default or row_sub)[0]))
    else:
        ctx.undecided('C18.T3', w, 'how a cell of an absent field is produced was not recognised')
    ff = w.real_params[2] if len(w.real_params) > 2 else 'first_field'
    order_ok = order_bad = False
    node = None
    for a in w.nodes(ast.Assign):
        v = a.value
        if isinstance(v, ast.BinOp) and isinstance(v.op, ast.Add):
            sides = (v.left, v.right)
            srt = [x for x in sides if isinstance(x, ast.Call) and dotted(x.func) == 'sorted']
            oth = [x for x in sides if x not in srt]
            if len(srt) == 1 and len(oth) == 1:
                o = oth[0]
                # the first-field part: [first_field], or `[first_field] if <present> else []`
                lst = o if isinstance(o, ast.List) else (o.body if isinstance(o, ast.IfExp) and isinstance(o.body, ast.List) else None)
                has_ff = lst is not None and len(lst.elts) == 1 and unparse(lst.elts[0]) == ff
                plain = not q.kwarg(srt[0], 'reverse') and not q.kwarg(srt[0], 'key')
                node = a
                if has_ff and plain and v.left is o:
                    order_ok = True
                elif has_ff and (v.right is o or not plain):
                    order_bad = True
    if order_ok:
        ctx.holds('C18.T3', w, 'requested first column first, remaining columns in sorted order', node)
    elif order_bad:
        ctx.violated('C18.T3', w, node, 'column order is `%s`, not [first_field] + sorted(others)' % unparse(node.value))
    else:
        ctx.undecided('C18.T3', w, 'construction of the column order not recognised')
    # header row and data rows use the same field list
    wr_rows = q.calls_named(w, 'writerow', 'writerows')
    hdr = [c for c in wr_rows if q.method_name(c) == 'writerow']
    rows = [c for c in wr_rows if q.method_name(c) == 'writerows']
    if hdr and hdr[0].args and isinstance(hdr[0].args[0], ast.Name):
        hname = hdr[0].args[0].id
        # every iteration that produces the cells of a row: comprehensions, for loops and map(f, <iterable>) - outside the statement that builds the header list
        iters = [g.iter for n in ast.walk(w.node) if isinstance(n, (ast.ListComp, ast.GeneratorExp)) for g in n.generators] + \
                [l.iter for l in w.nodes(ast.For)] + [c.args[1] for c in w.calls() if dotted(c.func) == 'map' and len(c.args) == 2]
        over_header = [i for i in iters if isinstance(i, ast.Name) and i.id == hname]
        over_row = [i for i in iters if Pat().any(['sorted(V_r)', 'V_r.keys()', 'V_r.values()', 'V_r.items()', 'sorted(V_r.keys())', 'sorted(V_r.items())'], i) and
                    not (isinstance(i, ast.Call) and any(isinstance(a_, ast.Name) and a_.id == w.real_params[1] for a_ in ast.walk(i)))]
        if over_header:
            ctx.holds('C18.T3', w, 'data cells are produced by iterating the header field list `%s`' % hname, over_header[0])
        elif over_row:
            ctx.violated('C18.T3', w, over_row[0], 'data cells are produced by iterating `%s`, not the header field list `%s`: cells do not line up with the header' % (unparse(over_row[0]), hname))
        else:
            ctx.undecided('C18.T3', w, 'the iteration producing the cells of a row was not recognised')
    # read_tsv: omit empty cells, zip header with row, number recovery
    r = repo.func(M, 'read_tsv')
    clo = repo.transparent_closure(r)
    ok_f = False
    for home in clo:
        for dc in home.nodes(ast.DictComp):
            g = dc.generators[0]
            if not (isinstance(g.iter, ast.Call) and dotted(g.iter.func) == 'zip' and len(g.iter.args) == 2):
                continue
            ok_f = True
            filt = any((q.simple_compare(i) or (None, None, None))[1] == '!=' and '' in (const_value(q.simple_compare(i)[0]), const_value(q.simple_compare(i)[2]))
                       for i in g.ifs if q.simple_compare(i)) or any(isinstance(i, ast.Name) for i in g.ifs)
            conv = isinstance(dc.value, ast.Call) and dotted(dc.value.func) == '_try_make_number'
            ctx.check(filt, 'C18.T3', home, dc, 'empty cells are omitted on read', 'empty cells are not omitted on read (absent fields come back as empty strings)')
            ctx.check(conv, 'C18.T3', home, dc.value, 'cell values are converted back with _try_make_number', 'cell values are not converted back to numbers')
            # where the header and the rows come from: in read_tsv itself; a per-row helper receives them as arguments
            harg, site, site_fn = g.iter.args[0], dc, home
            if home is not r:
                calls = [c for f_ in clo for c in f_.calls() if any(t.node is home.node for t in _resolve(repo, f_, c))]
                fn_of = {id(c): f_ for f_ in clo for c in f_.calls()}
                if len(calls) == 1 and isinstance(harg, ast.Name) and harg.id in home.real_params:
                    k_ = home.real_params.index(harg.id)
                    harg, site, site_fn = q.arg(calls[0], k_, home.real_params[k_]), calls[0], fn_of[id(calls[0])]
                else:
                    harg = None
            if harg is None or site_fn is not r:
                ctx.undecided('C18.T3', r, 'origin of the header passed to the row parser not recognised')
                continue
            hd = r.expand(harg)
            if any(isinstance(n, ast.Call) and dotted(n.func) == 'next' for n in ast.walk(hd)):
                ctx.holds('C18.T3', r, 'keys are the header row (first row of the file)', harg)
            elif isinstance(harg, ast.Name) and r.unique_def(harg.id) is not None:
                ctx.violated('C18.T3', r, harg, 'keys are not taken from the header row (`%s`)' % unparse(hd))
            else:
                ctx.undecided('C18.T3', r, 'origin of the keys `%s` not recognised' % unparse(harg))
            srcs = [l.iter for l in r.nodes(ast.For) if q.contains(l, site)] + \
                   [g_.iter for n_ in r.nodes(ast.ListComp, ast.GeneratorExp) if q.contains(n_, site) for g_ in n_.generators]
            if srcs:
                it = srcs[-1]
                itx = r.expand(it)
                whole = isinstance(itx, ast.Call) and dotted(itx.func).endswith('reader') or (isinstance(it, ast.Call) and dotted(it.func) in ('list', 'iter', 'tuple') and len(it.args) == 1)
                part = isinstance(it, ast.Subscript) or (isinstance(it, ast.Call) and dotted(it.func) in ('itertools.islice', 'islice')) or isinstance(it, ast.BinOp)
                if whole:
                    ctx.holds('C18.T3', r, 'every row after the header is read (the loop iterates the csv reader)', it)
                elif part:
                    ctx.violated('C18.T3', r, it, 'the row loop iterates `%s`, not the csv reader itself: rows are skipped or repeated' % unparse(it))
                else:
                    ctx.undecided('C18.T3', r, 'iterable of the row loop not recognised', it)
    if not ok_f:
        ctx.undecided('C18.T3', r, 'row comprehension zip(header, row) not found')
    # simple writer / reader: (id, value) column order
    ws, rs = repo.func(M, '_write_tsv_simple'), repo.func(M, '_read_tsv_simple')
    fieldp, datap = ws.real_params[1], ws.real_params[2]
    hdr = [c for c in q.calls_named(ws, 'writerow')]
    ok_h = bool(hdr) and isinstance(hdr[0].args[0], (ast.List, ast.Tuple)) and len(hdr[0].args[0].elts) == 2 and \
        const_value(hdr[0].args[0].elts[0]) == 'cluster_id' and unparse(hdr[0].args[0].elts[1]) == fieldp
    ctx.check(ok_h, 'C18.T3', ws, hdr[0] if hdr else ws.node.name, "header row is ['cluster_id', <field name>]",
              "header row is not ['cluster_id', <field name>]")
    # data rows: writerows(<comprehension>) or a loop of writerow(<pair>) -> (target, iterable, pair)
    prod = []
    for c in q.calls_named(ws, 'writerows'):
        comp = ws.expand(c.args[0]) if c.args else None
        if isinstance(comp, (ast.ListComp, ast.GeneratorExp)) and len(comp.generators) == 1:
            prod.append((comp.generators[0].target, comp.generators[0].iter, comp.elt, c))
    for l in ws.nodes(ast.For):
        for c in q.calls_named(l, 'writerow'):
            if c.args:
                prod.append((l.target, l.iter, ws.expand(c.args[0]), c))
    if len(prod) != 1 or not (isinstance(prod[0][2], (ast.Tuple, ast.List)) and len(prod[0][2].elts) == 2):
        ctx.undecided('C18.T3', ws, 'production of the data rows of _write_tsv_simple not recognised')
    else:
        kid, it, pair, site = prod[0]
        P = Pat(ws)
        e0, e1 = pair.elts
        by_key = isinstance(kid, ast.Name) and P.any(['sorted(%s)' % datap, 'sorted(%s.keys())' % datap, datap, '%s.keys()' % datap, 'list(%s)' % datap, 'sorted(list(%s))' % datap], it, expand=True)
        by_item = isinstance(kid, ast.Tuple) and len(kid.elts) == 2 and all(isinstance(x, ast.Name) for x in kid.elts) and \
            P.any(['sorted(%s.items())' % datap, '%s.items()' % datap], it, expand=True)
        norm = lambda x: ast.dump(ast.parse(x if isinstance(x, str) else unparse(x), mode='eval').body)
        if by_key:
            kd, vd = norm(kid.id), norm('%s[%s]' % (datap, kid.id))
        elif by_item:
            kd, vd = norm(kid.elts[0].id), norm(kid.elts[1].id)
        else:
            kd = vd = None
        if kd is None:
            ctx.undecided('C18.T3', ws, 'iteration over the clusters in _write_tsv_simple not recognised', it)
        elif norm(e0) == kd and norm(e1) == vd:
            ctx.holds('C18.T3', ws, 'rows are (cluster id, its value) pairs', site)
        elif norm(e1) == kd:
            ctx.violated('C18.T3', ws, site, 'rows are not (cluster id, data[cluster id]) pairs: the id is written in the SECOND column (`%s`)' % unparse(pair))
        elif all(isinstance(x, (ast.Name, ast.Subscript, ast.Constant)) for x in (e0, e1)):
            ctx.violated('C18.T3', ws, site, 'rows are not (cluster id, data[cluster id]) pairs (`%s`)' % unparse(pair))
        else:
            ctx.undecided('C18.T3', ws, 'the cells of a data row `%s` were not recognised' % unparse(pair), site)
    # reader: first column -> int key, second -> value via _try_make_number ; header second column -> field name
    ok_rd = False
    for f in rs.nodes(ast.For):
        unp = [a for a in f.body if isinstance(a, ast.Assign) and isinstance(a.targets[0], ast.Tuple) and unparse(a.value) == unparse(f.target)]
        if unp and len(unp[0].targets[0].elts) == 2:
            kname, vname = (unparse(e) for e in unp[0].targets[0].elts)
            stores = [a for a in f.body if isinstance(a, ast.Assign) and isinstance(a.targets[0], ast.Subscript)]
            intconv = any(isinstance(a, ast.Assign) and unparse(a.targets[0]) == kname and unparse(a.value) == 'int(%s)' % kname for a in f.body)
            for st in stores:
                kexpr, vexpr = unparse(st.targets[0].slice), unparse(st.value)
                key_int = (kexpr == kname and intconv) or kexpr == 'int(%s)' % kname
                val_ok = vexpr == '_try_make_number(%s)' % vname
                ok_rd = True
                ctx.check(key_int, 'C18.T3', rs, st, 'first column is read back as the integer cluster id',
                          'first column is not converted to an integer cluster id')
                ctx.check(val_ok, 'C18.T3', rs, st, 'second column is read back through _try_make_number',
                          'value column `%s` is not the second column converted through _try_make_number' % vexpr)
    if not ok_rd:
        ctx.undecided('C18.T3', rs, 'row loop `id, value = row` not found')
    hdr_unp = [a for a in rs.nodes(ast.Assign) if isinstance(a.targets[0], ast.Tuple) and isinstance(a.value, ast.Call) and dotted(a.value.func) == 'next']
    if hdr_unp:
        names = [unparse(e) for e in hdr_unp[0].targets[0].elts]
        ret = [x for _, x in returned(rs) if isinstance(x, ast.Tuple) and len(x.elts) == 2]
        if len(names) != 2 or not ret:
            ctx.undecided('C18.T3', rs, 'header unpacking / returned pair of _read_tsv_simple not recognised')
        else:
            ctx.check(unparse(ret[-1].elts[0]) == names[1], 'C18.T3', rs, hdr_unp[0],
                      'the returned field name is the second header cell', 'the returned field name is `%s`, not the second header cell' % unparse(ret[-1].elts[0]))
    number_recovery(ctx)


def number_recovery(ctx, rule='C18.T3'):
    """_try_make_number (shared with C10: metadata values are read back through it): int before float, every float text of the writers accepted, other strings unchanged."""
    repo = ctx.repo
    # _try_make_number: int is attempted before float
    tm = repo.func(M, '_try_make_number')
    order = []          # conversions in the order in which they are attempted
    for n in walk_local_ordered(tm.node):
        if isinstance(n, ast.Call) and dotted(n.func) in ('int', 'float'):
            order.append(dotted(n.func))
        elif isinstance(n, ast.For) and isinstance(n.target, ast.Name) and isinstance(tm.expand(n.iter), (ast.Tuple, ast.List)) and \
                any(isinstance(c, ast.Call) and isinstance(c.func, ast.Name) and c.func.id == n.target.id for c in ast.walk(n)):
            order.extend(dotted(x) for x in tm.expand(n.iter).elts)      # `for convert in (int, float): ... convert(value)`
    if order and all(x in ('int', 'float') for x in order) and order[0] == 'int' and 'float' in order:
        ctx.holds(rule, tm, 'number recovery tries int, then float, then keeps the string', tm.node.name)
    elif order and all(x in ('int', 'float') for x in order):
        ctx.violated(rule, tm, tm.node.name, 'number recovery does not try int before float (integers would come back as floats) or lacks the float case')
    else:
        ctx.undecided(rule, tm, 'the conversions attempted by _try_make_number were not recognised (%s)' % order)
    # a guard in front of a conversion must accept every text the writers produce for that type (csv writes repr(float): exponent forms included)
    WITNESS = {'float': ['0.5', '-3.0625', '12.25', '2.5e-05', '3e+16', '1e-07', '1.5e+300'], 'int': ['7', '-3', '0', '123456789012']}
    mod_ = repo.module(M)
    for c_ in [n for n in walk_local_ordered(tm.node) if isinstance(n, ast.Call) and dotted(n.func) in ('int', 'float')]:
        kind = dotted(c_.func)
        guards = [(i_, br) for i_, br in q.enclosing_ifs(tm, c_, ifexp=True) if br == 'body']
        if not guards:
            continue            # attempted unconditionally (try / except decides)
        for i_, _br in guards:
            for g_ in q.conjuncts(i_.test):
                pat_, how = None, None
                if isinstance(g_, ast.Call) and isinstance(g_.func, ast.Attribute) and g_.func.attr in ('fullmatch', 'match', 'search'):
                    how = g_.func.attr
                    rcv = g_.func.value
                    if isinstance(rcv, ast.Name) and rcv.id in mod_.consts:
                        cdef = mod_.consts[rcv.id]
                        if isinstance(cdef, ast.Call) and dotted(cdef.func) == 're.compile' and cdef.args and isinstance(const_value(cdef.args[0]), str):
                            pat_ = const_value(cdef.args[0])
                    elif dotted(rcv) == 're' and len(g_.args) >= 2 and isinstance(const_value(g_.args[0]), str):
                        pat_ = const_value(g_.args[0])
                if pat_ is None:
                    ctx.undecided(rule, tm, 'the guard `%s` in front of %s() was not recognised' % (unparse(g_)[:60], kind), g_)
                    continue
                import re as _re
                try:
                    rx = _re.compile(pat_)
                    rejected = [w for w in WITNESS[kind] if not getattr(rx, how)(w)]
                except _re.error:
                    ctx.undecided(rule, tm, 'the pattern %r does not compile' % pat_, g_)
                    continue
                if rejected:
                    ctx.violated(rule, tm, g_, '%s() is only attempted on texts matching %r, which rejects %s: such %s cells, as the csv writer emits them, come back as strings' % (kind, pat_, rejected[:3], kind))
                else:
                    ctx.holds(rule, tm, 'the guard of %s() accepts the texts the writers emit for %s cells (%d witnesses incl. exponent forms)' % (kind, kind, len(WITNESS[kind])), g_)
    fallthrough = [r_ for r_ in tm.returns() if r_.value is not None and Pat().m(tm.real_params[0], tm.expand(r_.value))]
    other_ret = [r_ for r_ in tm.returns() if r_.value is not None and not Pat().m(tm.real_params[0], tm.expand(r_.value)) and
                 not (isinstance(tm.expand(r_.value), ast.Call) and (dotted(tm.expand(r_.value).func) in ('int', 'float') or isinstance(tm.expand(r_.value).func, ast.Name)))]
    ctx.tri(bool(fallthrough), not fallthrough and (bool(other_ret) or any(r_.value is None for r_ in tm.returns())), rule, tm, (fallthrough or other_ret or [tm.node.name])[0],
            'non-numeric strings are returned unchanged', 'non-numeric strings are not returned unchanged', 'the fall-through return of _try_make_number was not recognised')


ESCAPING = ('repr', 'json.dumps', 'ascii')


def _line_template(e):
    """Template of a formatted line with `{}` for every inserted value ('%s = %s\\n' % .., '{} = {}\\n'.format(..), f'{k} = {v}\\n',
    k + ' = ' + v + '\\n'), or None when the expression is not one of these forms."""
    import re as _re
    if isinstance(e, ast.BinOp) and isinstance(e.op, ast.Mod) and isinstance(const_value(e.left), str):
        return _re.sub(r'%[sra]', '{}', const_value(e.left))
    if isinstance(e, ast.Call) and isinstance(e.func, ast.Attribute) and e.func.attr == 'format' and isinstance(const_value(e.func.value), str):
        return _re.sub(r'\{[^{}]*\}', '{}', const_value(e.func.value))
    if isinstance(e, ast.JoinedStr):
        return ''.join(x.value if isinstance(x, ast.Constant) else '{}' for x in e.values)
    if isinstance(e, ast.BinOp) and isinstance(e.op, ast.Add):
        parts, stack = [], [e]
        while stack:
            x = stack.pop()
            if isinstance(x, ast.BinOp) and isinstance(x.op, ast.Add):
                stack.append(x.right); stack.append(x.left)
            else:
                parts.append(x)
        if any(isinstance(const_value(x), str) for x in parts):
            return ''.join(const_value(x) if isinstance(const_value(x), str) else '{}' for x in parts)
    return None


def _value_is_raw(e):
    """The value slot of the line is filled with str(v) / %s / {} (no escaping conversion)."""
    if isinstance(e, ast.BinOp) and isinstance(e.op, ast.Mod) and isinstance(const_value(e.left), str):
        return const_value(e.left).rstrip().endswith('%s')
    if isinstance(e, ast.Call) and isinstance(e.func, ast.Attribute) and e.func.attr == 'format':
        return '!r' not in const_value(e.func.value) and '!a' not in const_value(e.func.value)
    if isinstance(e, ast.JoinedStr):
        fv = [x for x in e.values if isinstance(x, ast.FormattedValue)]
        return bool(fv) and fv[-1].conversion not in (114, 97)
    return True


def t4_write_python(ctx):
    repo = ctx.repo
    wp = repo.func(M, 'write_python')
    rp = repo.func(M, 'read_python')
    # the branch taken for str values
    hit = False
    for ifn in wp.nodes(ast.If):
        c = ifn.test
        if isinstance(c, ast.Call) and dotted(c.func) == 'isinstance' and len(c.args) == 2 and unparse(c.args[1]) == 'str':
            v = unparse(c.args[0])
            for a in [s for s in ifn.body if isinstance(s, ast.Assign)]:
                hit = True
                val = a.value
                t = unparse(val)
                ok = (isinstance(val, ast.Call) and dotted(val.func) in ESCAPING) or \
                     (isinstance(val, ast.BinOp) and isinstance(val.op, ast.Mod) and const_value(val.left) in ('%r', '%a')) or \
                     (isinstance(val, ast.JoinedStr) and all(isinstance(x, ast.Constant) or x.conversion in (114, 97) for x in val.values))
                ctx.check(ok, 'C18.T4', wp, a,
                          'string values are written with an escaping serialiser (%s)' % t,
                          'string values are written as `%s`: quotes, backslashes or newlines inside the string are not escaped, '
                          'so the parameter file does not read back (or reads back a different value)' % t)
    if not hit:
        # maybe every value goes through repr
        w = [c for c in q.calls_named(wp, 'write')]
        ok = any('repr(' in unparse(wp.expand(c.args[0])) or '%r' in unparse(wp.expand(c.args[0])) for c in w if c.args)
        raw = [c for c in w if c.args and _line_template(wp.expand(c.args[0])) is not None and
               _value_is_raw(wp.expand(c.args[0]))]
        if ok:
            ctx.holds('C18.T4', wp, 'every value is written through repr()', w[0])
        elif raw and not any(isinstance(n, ast.Call) and dotted(n.func) in ESCAPING for n in ast.walk(wp.node)):
            ctx.violated('C18.T4', wp, raw[0], 'values are written with str() and nothing quotes string values: a string parameter is written '
                         'as a bare word and the parameter file does not read back')
        else:
            ctx.undecided('C18.T4', wp, 'string branch of write_python not recognised')
    # line format `key = value\n`
    w = [c for c in q.calls_named(wp, 'write') if c.args]
    tpls = [(_line_template(c.args[0]), c) for c in w]
    known = [(t, c) for t, c in tpls if t is not None]
    if not known:
        ctx.undecided('C18.T4', wp, 'line template of write_python not recognised', w[0] if w else None)
    else:
        t, c = known[0]
        ctx.check(t.replace(' ', '') == '{}={}\n', 'C18.T4', wp, c, "one `key = value` assignment per line", 'lines are not of the form `key = value\\n` (template %r)' % t)
    # reader lower-cases keys: writer/reader agree only for lower-case keys (recorded, not a violation)
    low = any(isinstance(n, ast.Call) and q.method_name(n) == 'lower' for n in ast.walk(rp.node))
    ctx.holds('C18.T4', rp, 'read_python executes the file and returns its variables (keys lower-cased: %s)' % low, rp.node.name, nontrivial=False)


def t3_float_cells(ctx):
    """Float cells of a table: the text written for a float must read back as a FLOAT (the reader tries int first) - a fixed-point / exponent conversion
    keeps a '.' or an exponent, `%g` drops both for integral values (2.0 -> '2' -> int 2) and keeps significant figures, not decimals."""
    repo = ctx.repo
    try:
        pf = repo.func(M, '_pretty_floats')
    except Exception:
        return ctx.undecided('C18.T3', repo.func(M, 'write_tsv'), 'the float formatter of write_tsv was not found')
    obj = pf.real_params[0]
    convs = []
    for test, body in _branches(pf, ctx):
        if test is None or not any(isinstance(c, ast.Call) and dotted(c.func) == 'isinstance' and c.args and isinstance(c.args[0], ast.Name) and c.args[0].id == obj and
                                   any((dotted(t_) or '').split('.')[-1] in ('float', 'float64', 'floating') for t_ in (c.args[1].elts if isinstance(c.args[1], ast.Tuple) else [c.args[1]]))
                                   for c in q.conjuncts(test)):
            continue
        for r in body:
            v = pf.expand(r.value) if r.value is not None else None
            spec = None
            if isinstance(v, ast.BinOp) and isinstance(v.op, ast.Mod):
                pieces = [n.value for n in ast.walk(v.left) if isinstance(n, ast.Constant) and isinstance(n.value, str)]
                # constant pieces in source order: the conversion character is the last character of the last piece
                pieces = [n.value for n in sorted((n for n in ast.walk(v.left) if isinstance(n, ast.Constant) and isinstance(n.value, str)), key=lambda n: (n.lineno, n.col_offset))]
                spec = pieces[-1][-1:] if pieces and pieces[-1] else None
            elif isinstance(v, ast.Call) and isinstance(v.func, ast.Attribute) and v.func.attr == 'format' and isinstance(const_value(v.func.value), str):
                t_ = const_value(v.func.value)
                spec = t_.rstrip('}')[-1:] if t_.endswith('}') and ':' in t_ else None
            elif isinstance(v, ast.JoinedStr):
                fv = [x for x in v.values if isinstance(x, ast.FormattedValue)]
                if len(fv) == 1 and fv[0].format_spec is not None:
                    cs = [x.value for x in fv[0].format_spec.values if isinstance(x, ast.Constant)]
                    spec = cs[-1][-1:] if cs and cs[-1] else None
            elif isinstance(v, ast.Call) and dotted(v.func) in ('repr', 'str', 'float', 'np.format_float_positional'):
                spec = 'repr'
            elif isinstance(v, ast.Call) and dotted(v.func) in ('int', 'round') and len(v.args) == 1:
                spec = 'int'
            convs.append((r, spec))
    if not convs:
        ctx.undecided('C18.T3', pf, 'no branch formatting float cells was recognised')
    elif all(sp in ('f', 'F', 'e', 'E', 'repr') for _, sp in convs):
        ctx.holds('C18.T3', pf, 'float cells are written with a conversion that keeps a decimal point or an exponent (%s): they read back as floats, to the written precision' % [sp for _, sp in convs], convs[0][0])
    elif any(sp in ('g', 'G', 'd', 'i', 'int') for _, sp in convs):
        b_ = [x for x in convs if x[1] in ('g', 'G', 'd', 'i', 'int')][0]
        ctx.violated('C18.T3', pf, b_[0], 'float cells are written with conversion `%s`: an integral float (2.0) is written without a decimal point and reads back as an int, and large values keep '
                     'significant figures instead of decimals' % b_[1])
    else:
        ctx.undecided('C18.T3', pf, 'conversion of float cells not recognised (%s)' % [sp for _, sp in convs], convs[0][0])


def t3_every_record(ctx):
    """"read back as the same rows ... missing fields and FULLY EMPTY rows": every record the csv reader yields becomes one row of the result - the row loop of
    read_tsv has no filter (no continue / break, no condition on the record around the append, no `if` in a row comprehension)."""
    repo = ctx.repo
    r = repo.func(M, 'read_tsv')
    loops = [l for l in r.nodes(ast.For) if isinstance(l.iter, ast.Name) and isinstance(r.unique_def(l.iter.id), ast.Call) and (dotted(r.unique_def(l.iter.id).func) or '').endswith('reader')]
    comps = [c for c in ast.walk(r.node) if isinstance(c, (ast.ListComp, ast.GeneratorExp)) and any(isinstance(g.iter, ast.Name) and isinstance(r.unique_def(g.iter.id), ast.Call) and
                                                                                                  (dotted(r.unique_def(g.iter.id).func) or '').endswith('reader') for g in c.generators)]
    if loops:
        lp = loops[0]
        rowv = {n.id for n in ast.walk(lp.target) if isinstance(n, ast.Name)}
        jumps = [n for b in lp.body for n in ast.walk(b) if isinstance(n, (ast.Continue, ast.Break))]
        appends = [c for b in lp.body for c in ast.walk(b) if isinstance(c, ast.Call) and q.method_name(c) in ('append', 'extend', 'insert')]
        guarded = [c for c in appends if any(isinstance(a, ast.If) and q.contains(a, c) and a is not lp and any(isinstance(n, ast.Name) and n.id in rowv for n in ast.walk(a.test)) and
                                             any(q.contains(lp, a) for _ in [0]) for a in r.ancestors(c))]
        top = [b for b in lp.body if isinstance(b, ast.Expr) and isinstance(b.value, ast.Call) and q.method_name(b.value) == 'append']
        ctx.tri(bool(top) and not jumps and not guarded, bool(jumps) or bool(guarded), 'C18.T3', r, (jumps or guarded or top or [lp])[0],
                'every record of the file becomes one row of the result (the row loop appends unconditionally)',
                'read_tsv drops some records (`%s` in the row loop): a row that write_tsv wrote - e.g. a fully empty one, a line of bare delimiters - does not come back' %
                (unparse(r.parent(jumps[0]) if jumps and isinstance(r.parent(jumps[0]), ast.If) else (jumps or guarded)[0])[:70].replace('\n', ' ') if (jumps or guarded) else ''),
                'the row loop of read_tsv was not recognised')
    elif comps:
        c = comps[0]
        filt = [g for g in c.generators if g.ifs]
        ctx.tri(not filt, bool(filt), 'C18.T3', r, c, 'every record of the file becomes one row of the result (row comprehension without filter)',
                'read_tsv drops the records failing `%s`' % (unparse(filt[0].ifs[0]) if filt else ''), '')
    else:
        ctx.undecided('C18.T3', r, 'the loop of read_tsv over the csv reader was not found')


def run(ctx):
    ctx.part('C18.T3', t3_every_record)
    t1_array_codec(ctx)
    t2_key_codec(ctx)
    ctx.part('C18.T2', t2_depth)
    t5_wiring(ctx)
    t3_tsv(ctx)
    ctx.part('C18.T3', t3_float_cells)
    t4_write_python(ctx)

LEVEL_TEXT = ('Static table-agreement check of the serialisation code: the JSON array codec (keys, contiguity of the encoded '
              'bytes, dtype/shape provenance, small-array rule, NumPy scalars), the integer-key codec (recogniser language vs '
              'image of str(int), injectivity), the TSV/CSV writer/reader tables (delimiter table, empty-cell convention, column '
              'order, id typing, int-before-float recovery) and the escaping of strings in the parameter-file writer.')
LEVEL_NOTE = ('Trusted: Python ast, documented behaviour of json/base64/csv/numpy.frombuffer, the recogniser-language table. '
              'Not decided: csv quoting, the number of decimals, exec of the parameter file, value-level round trips.')
TECHNIQUE = 'static analysis: writer/reader table agreement and codec-structure rules over the ast (custom checker)'
