"""C03 - every route to a spike waveform yields the same zero-padded raw window.

Decided
  S1  _extract_waveform (sym walk over the sign cases): rows read = traces[max(0, s - n//2) : s - n//2 + n] on the requested
      columns; when the window starts before 0 the missing rows are stacked BEFORE as zeros, when it ends after the recording they
      are stacked AFTER, in both cases n - (rows read) rows of the right width and dtype; -1 channels are zeroed
  Y2  the spike sample is converted to a Python int before any subtraction (unsigned NumPy scalars wrap around below 0)
  Y3  the -1 test on the channel list is made on an ndarray (a Python list compares as a whole)
  S2  iter_waveforms assigns a spike to the chunk with i0 <= s < i1 (via _find_chunks == 0), selects samples and channel rows with
      the SAME mask, extracts every spike of the chunk in order from the recording (not from the chunk) with its own channel row
  Y4  the yielded block is converted to the declared (float) dtype BEFORE it is multiplied by the unit factor (int16 x integer factor wraps around otherwise)
  Y1  the bytes appended to the .npy file have the dtype declared in its header; A1 the header shape is (n_spikes, n, n_channels_loc);
      P1 every yielded chunk is appended in yield order times the unit factor, the writer is closed
  A1  get_spike_waveforms: stored row = position of the spike in the store; columns written = positions of the common channels in the
      REQUEST, columns read = their positions in the STORED channel row of that spike
  A2  the subset export passes samples and channel rows of the same spikes, channels from each spike's template; get_waveforms reads the
      store when present and otherwise the raw window at spike_samples[spike_ids]; extract_waveforms keeps spike order
  +   a recognised wrong form of S2: spike i of the chunk extracted on row i of the channel table of ALL spikes (no chunk-local table)
  +   A2 prerequisite: the readers serve the given files in the given order with the given layout (C01.D1 / D2)
Not decided: mtscomp's decoder (the chaining of the compressed reader's batch intervals is C16.P2), the sortedness precondition, values.
"""
import ast

from vlib import q, proto
from vlib.pat import Pat, returned
from vlib.proto import C, T, is_c, is_t, show, subterms
from vlib.symwalk import SymInterp
from vlib.sym import Lin, equal, NF
from vlib.front import unparse, dotted, const_value, AnchorMissing
from vlib.shape import Shape, Space, Ix, Q, D, BoolT, StrT, NoneT, SizeOf, UNK, is_unk, Arr, Rec, Tup, ListT, B
from obligations.shape_tables import (model_attrs, COMMON_SIGS, M, TR, Spike, Chan, Samp, Loc, RAW, Tmpl)

FLOOR = 11          # decided obligations below this = the analysis lost its footing (exit 2); clean tree: 30
RULES = ('C03.A1', 'C03.A2', 'C03.P1', 'C03.S1', 'C03.S2', 'C03.Y1', 'C03.Y2', 'C03.Y3', 'C03.Y4')          # every obligation group must report (holds / violated / undecided): a group that vanishes silently is an analysis error
EXPLANATION = ('sym walk of _extract_waveform over all sign cases of the window bounds (slice bounds and padding compared as normal forms with '
               'the window [s - n//2, s - n//2 + n)); structural dtype / conversion rules for the three dtype hazards; shape engine over the '
               'store lookup and the subset export; order / mask-sharing rules for the chunked extraction and the .npy writer')
TRUSTED = ['python ast', 'normal forms of vlib/sym.py', 'NumPy transfer rules of vlib/shape.py', 'C01.S2 (_find_chunks = number of bounds <= x, minus 1)']
ASSUMPTIONS = ['spike samples are sorted', 'n_samples_waveforms > 0', 'the recording has at least n rows or the window is padded on both sides']


class EW(SymInterp):
    def on_call(self, call, name, args, kwargs, st):
        if name in ('np.zeros', 'np.vstack', 'np.asarray', 'isinstance', 'len', 'int', 'slice', 'np.concatenate'):
            return [('ok', T('call', name, C(0), *(tuple(args) + tuple(T('kw', k, v) for k, v in sorted(kwargs.items())))), st)]
        return None


def s1_extract(ctx):
    repo = ctx.repo
    fi = repo.func(TR, '_extract_waveform')
    trp, sp, chp, np_ = fi.params[:4]
    tr, s, ch, n = T('param', trp), T('param', sp), T('param', chp), T('param', np_)
    dur = T('DUR')
    binds = {T('call', 'int', C(0), s): Lin.atom(('S',)), s: Lin.atom(('S',)), n: Lin.atom(('N',)), dur: Lin.atom(('DUR',)),
             T('index', T('attr', tr, 'shape'), C(0)): Lin.atom(('DUR',))}
    I = EW(repo, unroll=1, inline_depth=0, binds=binds, pos=[n])
    facts = {('is',) + tuple(sorted([C(None), ch], key=repr)): False, ('truth', T('call', 'isinstance', C(0), ch, T('name', 'slice'))): False}
    outs = I.run(fi, facts=facts)
    ctx.analysed['paths'] += len(outs)
    nf = I.nf
    S, N, DUR = Lin.atom(('S',)), Lin.atom(('N',)), Lin.atom(('DUR',))
    half = Lin.atom(('fdiv', N, Lin.const(2)))
    lo_spec = Lin.atom(('max', Lin.const(0), S - half)) if True else None
    from vlib.sym import mk_ext
    lo_spec = mk_ext('max', [Lin.const(0), S - half])
    hi_spec = S - half + N
    probs = {}
    seen_cases = set()
    npaths = 0
    for kind, val, st in outs:
        if kind != 'return':
            continue
        npaths += 1
        # locate the base read  traces[lo:hi][:, channels]
        reads = [x for x in subterms(val) if is_t(x) and x[1] == 'index' and x[2] == tr]
        if not reads:
            probs.setdefault('the returned block is not read from the recording (%s)' % show(val)[:70], 1)
            continue
        rd = reads[0]
        sl = rd[3]
        if not (is_t(sl) and sl[1] == 'slice3'):
            probs.setdefault('the recording is not read with a row slice (%s)' % show(sl)[:50], 1)
            continue
        lo, hi = nf(sl[2]), nf(sl[3])
        if not equal(lo, lo_spec):
            probs.setdefault('first row read is %s, expected max(0, s - n//2)' % lo, 1)
        if not equal(hi, hi_spec):
            probs.setdefault('row after the last read is %s, expected s - n//2 + n' % hi, 1)
        # column selection on the requested channels
        cols = [x for x in subterms(val) if is_t(x) and x[1] == 'index' and x[2] == rd]
        okc = any(is_t(x[3]) and x[3][1] == 'tuple' and x[3][2] == T('slice3', C(None), C(None), C(None)) and any(y == ch for y in subterms(x[3][3])) for x in cols)
        if not okc:
            probs.setdefault('the window is not restricted to the requested channels as block[:, channel_ids]', 1)
        # sign cases of this path
        r0 = I.sign(S - half)            # usually unknown; use recorded facts instead
        t0_neg = None
        t1_over = None
        for k, v in st.facts.items():
            if k[0] == 'rel':
                a, b = k[1], k[2]
                da = nf(a) - nf(b)
                if equal(da, S - half) or equal(da, half - S):
                    rel = v if equal(da, S - half) else {'<': '>', '>': '<', '=': '='}[v]
                    t0_neg = rel == '<'
                if equal(da, hi_spec - DUR) or equal(da, DUR - hi_spec):
                    rel = v if equal(da, hi_spec - DUR) else {'<': '>', '>': '<', '=': '='}[v]
                    t1_over = rel == '>'
        # a path that took `if n:` on a row count the walk could not evaluate may be infeasible: with the rows actually read in this sign case
        # (min(t1, dur) - max(0, t0)) the count is decided, and a path whose recorded truth contradicts it is dropped
        if t0_neg is not None and t1_over is not None:
            present_ = (DUR if t1_over else hi_spec) - (Lin.const(0) if t0_neg else (S - half))
            case = [(half - S - Lin.const(1)) if t0_neg else (S - half), (half - S) if t0_neg else (S - half),
                    (hi_spec - DUR - Lin.const(1)) if t1_over else (DUR - hi_spec), (hi_spec - DUR) if t1_over else (DUR - hi_spec)]
            infeasible = False
            for k, v in st.facts.items():
                if k[0] == 'truth' and is_t(k[1]) and k[1][1] in ('Add', 'Sub', 'Neg', 'USub', 'Mult'):
                    b2 = dict(binds)
                    for x in subterms(k[1]):
                        if is_t(x) and x[1] == 'index' and x[3] == C(0) and is_t(x[2]) and x[2][1] == 'attr' and x[2][3] == 'shape' and any(y == rd for y in subterms(x[2][2])):
                            b2[x] = present_
                        if is_t(x) and x[1] == 'call' and x[2] == 'len' and any(y == rd for y in subterms(x)):
                            b2[x] = present_
                    try:
                        got_ = NF(b2)(k[1])
                    except Exception:
                        continue
                    if any(isinstance(a_, tuple) and a_[0] in ('index', 'attr', 'call') for a_ in got_.d):
                        continue
                    saved_ = list(I.nonneg)
                    I.nonneg = saved_ + case
                    try:
                        sg_ = I.sign(got_)
                    finally:
                        I.nonneg = saved_
                    if (sg_ in ('+', '-') and v is False) or (sg_ == '0' and v is True):
                        infeasible = True
            if infeasible:
                continue
        seen_cases.add((t0_neg, t1_over))
        # structure of the result: nested vstack((zeros, w)) / vstack((w, zeros)), unwrapped from the outside in
        cur = val
        before = after = 0
        ok_pad = True
        pads = []
        same_base = False
        if is_t(cur) and cur[1] == 'call' and cur[2] == 'np.pad' and len(cur) >= 6:
            # np.pad(w, ((rows_before, rows_after), (0, 0)), mode='constant'): both zero blocks at once, each row count relative to the UNPADDED block
            inner, widths = cur[4], cur[5]
            kws = {x[2]: x[3] for x in cur[6:] if is_t(x) and x[1] == 'kw'}
            mode = kws.get('mode', cur[6] if len(cur) > 6 and not (is_t(cur[6]) and cur[6][1] == 'kw') else C('constant'))
            okw = is_t(widths) and widths[1] == 'tuple' and len(widths) == 4 and all(is_t(w_) and w_[1] == 'tuple' and len(w_) == 4 for w_ in widths[2:]) and \
                widths[3][2] == C(0) and widths[3][3] == C(0)
            if mode != C('constant') or ('constant_values' in kws and kws['constant_values'] not in (C(0), C(0.0))):
                probs.setdefault('the block is padded with np.pad in mode %s: rows outside the recording are not zeros' % show(mode), 1)
            elif not okw:
                probs.setdefault('UNDECIDED pad widths of np.pad `%s` not recognised' % show(widths)[:60], 1)
            else:
                same_base = True
                nb_, na_ = widths[2][2], widths[2][3]
                if na_ != C(0):
                    after += 1
                    pads.append(('after', na_, inner))
                if nb_ != C(0):
                    before += 1
                    pads.append(('before', nb_, inner))
            cur = inner
        while is_t(cur) and cur[1] == 'call' and cur[2] in ('np.vstack', 'np.concatenate'):
            tup = cur[4]
            if not (is_t(tup) and tup[1] == 'tuple' and len(tup) == 4):
                ok_pad = False
                break
            a, b = tup[2], tup[3]
            za = is_t(a) and a[1] == 'call' and a[2] == 'np.zeros'
            zb = is_t(b) and b[1] == 'call' and b[2] == 'np.zeros'
            if za and not zb:
                z, cur, side = a, b, 'before'
                before += 1
            elif zb and not za:
                z, cur, side = b, a, 'after'
                after += 1
            else:
                ok_pad = False
                break
            shp = z[4]
            if not (is_t(shp) and shp[1] == 'tuple' and len(shp) == 4):
                probs.setdefault('padding zeros are not created with a (rows, columns) shape', 1)
                continue
            pads.append((side, shp[2], cur))
            wcols = nf(shp[3])
            if not equal(wcols, nf(T('call', 'len', C(0), ch))):
                probs.setdefault('padding has %s columns, expected one per requested channel' % wcols, 1)
            kws = {x[2]: x[3] for x in z[5:] if is_t(x) and x[1] == 'kw'}
            if 'dtype' in kws and not (is_t(kws['dtype']) and kws['dtype'][1] == 'attr' and kws['dtype'][3] == 'dtype'):
                probs.setdefault('padding dtype is %s, not the dtype of the block' % show(kws['dtype'])[:40], 1)
        # number of rows of every pad, evaluated from the inside out: rows present after the read = min(t1, dur) - max(0, t0) in this sign case
        if ok_pad and pads and t0_neg is not None and t1_over is not None:
            present = (DUR if t1_over else hi_spec) - (Lin.const(0) if t0_neg else (S - half))
            present0 = present
            for side, rows_t, inner in reversed(pads):
                b2 = dict(binds)
                b2[T('index', T('attr', inner, 'shape'), C(0))] = present0 if same_base else present
                b2[T('call', 'len', C(0), inner)] = present0 if same_base else present
                got = NF(b2)(rows_t)
                want = (half - S) if side == 'before' else (hi_spec - DUR)
                if any(isinstance(k, tuple) and k[0] in ('index', 'attr', 'call') for k in got.d):
                    und_pad = True
                    probs.setdefault('UNDECIDED number of padding rows `%s` not evaluated' % show(rows_t)[:50], 1)
                elif not equal(got, want):
                    probs.setdefault('in the case (window starts before 0: %s, ends after the recording: %s) the zeros stacked %s the data have %s rows, but %s rows of the window lie %s the recording' %
                                     (t0_neg, t1_over, side.upper(), got, want, 'before' if side == 'before' else 'after'), 1)
                present = present + got
        if not ok_pad:
            probs.setdefault('the padded result is not built by stacking zeros before / after the block (%s)' % show(val)[:80], 1)
            continue
        if t0_neg is True and before != 1:
            probs.setdefault('window starting before sample 0: %d zero block(s) stacked BEFORE the data, expected 1' % before, 1)
        if t0_neg is False and before != 0:
            probs.setdefault('window starting inside the recording is padded at the start', 1)
        if t1_over is True and after != 1:
            probs.setdefault('window ending after the recording: %d zero block(s) stacked AFTER the data, expected 1' % after, 1)
        if t1_over is False and after != 0:
            probs.setdefault('window ending inside the recording is padded at the end', 1)
        if t0_neg is None and before:
            probs.setdefault('padding before the block is not conditioned on the window starting before sample 0', 1)
        if t1_over is None and after:
            probs.setdefault('padding after the block is not conditioned on the window ending after the recording', 1)
        # -1 channels zeroed
        z = [e for e in st.trace if e[0] == 'setitem' and e[3] == C(0)]
        if not z:
            probs.setdefault('channels given as -1 are not zeroed', 1)
    need = {(True, False), (False, True), (False, False), (True, True)}
    if not probs and not need <= {c for c in seen_cases}:
        miss = sorted(map(str, need - seen_cases))
        probs.setdefault('the sign cases of the window bounds are not all distinguished by the code (missing %s): a window crossing an end of the recording is not padded' % miss, 1)
    und_msgs = [m for m in probs if m.startswith('UNDECIDED ')]
    for m in und_msgs:
        probs.pop(m)
        ctx.undecided('C03.S1', fi, m[10:])
    if probs:
        for msg in list(probs)[:4]:
            ctx.violated('C03.S1', fi, msg[:150], msg)
    elif not und_msgs:
        ctx.holds('C03.S1', fi, 'rows [max(0, s - n//2), s - n//2 + n) on the requested columns; zeros stacked before iff the window starts before 0 and after iff it '
                  'ends beyond the recording, n - present rows each; -1 channels zeroed (%d paths, cases %s)' % (npaths, sorted(map(str, seen_cases))), '_extract_waveform')
    # ---- Y2 / Y3
    subs = [b for b in fi.nodes(ast.BinOp) if isinstance(b.op, (ast.Sub, ast.Add)) and sp in q.names_in(b)]
    conv = [a for a in fi.nodes(ast.Assign) if unparse(a.targets[0]) == sp and isinstance(a.value, ast.Call) and dotted(a.value.func) == 'int' and unparse(a.value.args[0]) == sp]
    bad = []
    for b in subs:
        inside_int_of_param_only = False
        # acceptable: int(sample) - a   (the BinOp's operand is int(sample))   or a prior `sample = int(sample)`
        ops = [b.left, b.right]
        direct = any(isinstance(o, ast.Name) and o.id == sp for o in ops)
        if direct and not (conv and conv[0].lineno < b.lineno):
            bad.append(b)
    ctx.check(not bad, 'C03.Y2', fi, bad[0] if bad else 'sample arithmetic', 'the spike sample is converted with int() before it enters the window arithmetic',
              '`%s` subtracts from the raw spike sample: for an unsigned NumPy scalar within n//2 of the start this wraps around instead of going negative' % (unparse(bad[0]) if bad else ''))
    cmp_ = []
    for c in fi.nodes(ast.Compare):
        if len(c.ops) == 1 and isinstance(c.ops[0], ast.Eq) and (const_value(c.comparators[0]) == -1 or const_value(c.left) == -1):
            if const_value(c.left) == -1:       # normalise `-1 == x` to `x == -1`
                c = ast.copy_location(ast.Compare(left=c.comparators[0], ops=[ast.Eq()], comparators=[c.left]), c)
            cmp_.append(c)
    okm = True
    node = None
    for c in cmp_:
        node = c
        left = unparse(c.left)
        asarr = [a for a in fi.nodes(ast.Assign) if unparse(a.targets[0]) == chp and isinstance(a.value, ast.Call) and dotted(a.value.func) in ('np.asarray', 'np.array', 'np.atleast_1d') and a.lineno < c.lineno]
        if left == chp and not asarr:
            okm = False
        elif left != chp and not (left.startswith('np.asarray(') or left.startswith('np.array(')):
            okm = okm and True
    ctx.check(bool(cmp_) and okm, 'C03.Y3', fi, node or 'mask', 'the -1 mask is computed on an ndarray of the channel list',
              '`%s` compares the channel list as given: a Python list [.., -1] == -1 is the scalar False and no column is zeroed' % (unparse(node) if node is not None else 'no -1 test'))


def tri(ctx, rule, fi, node, good, bad, ok_msg, bad_msg, und_msg):
    if good:
        ctx.holds(rule, fi, ok_msg, node)
    elif bad:
        ctx.violated(rule, fi, node, bad_msg)
    else:
        ctx.undecided(rule, fi, und_msg, node if not isinstance(node, str) else None)


def _window_sources(ctx, fi, il, tr_, nsw_, i0_, i1_):
    """Where the window of a spike is read from. Reading it from the whole recording at the spike sample is the reference. Reading it from a chunk-local array
    `traces[a:b]` at `s - a` is the same window only when [s - n//2, s - n//2 + n) lies inside [a, b): this is DERIVED from the guard under which the
    chunk-local source is chosen (linear forms over s, a, b, n, n//2; the guard's comparisons are the assumptions). Not derivable on exact forms = violated:
    the rows outside the chunk are zero-padded although the recording has data there."""
    if not (isinstance(il.target, ast.Tuple) and len(il.target.elts) == 2 and all(isinstance(x, ast.Name) for x in il.target.elts)):
        return
    s_name = il.target.elts[1].id
    calls = [c for c in ast.walk(il) if isinstance(c, ast.Call) and dotted(c.func) == '_extract_waveform' and len(c.args) >= 2]
    if len(calls) != 1:
        return
    c0 = calls[0]
    body_defs = {}

    def lin(e, depth=0):
        if e is None or depth > 8:
            return None
        c = const_value(e)
        if isinstance(c, int) and not isinstance(c, bool):
            return Lin.const(c)
        if isinstance(e, ast.Name):
            if e.id in (s_name, i0_, i1_, nsw_):
                return Lin.atom(('v', e.id))
            d_ = body_defs.get(e.id)
            if d_ is not None and len(d_) == 1:
                return lin(d_[0], depth + 1)
            x = fi.expand(e)
            if not (isinstance(x, ast.Name) and x.id == e.id):
                return lin(x, depth + 1)
            return Lin.atom(('v', e.id))
        if isinstance(e, ast.Call) and dotted(e.func) in ('int', 'np.int64', 'np.int32', 'np.intp') and len(e.args) == 1:
            return lin(e.args[0], depth + 1)
        if isinstance(e, ast.UnaryOp) and isinstance(e.op, ast.USub):
            v = lin(e.operand, depth + 1)
            return None if v is None else -v
        if isinstance(e, ast.BinOp) and isinstance(e.op, (ast.Add, ast.Sub)):
            l, r = lin(e.left, depth + 1), lin(e.right, depth + 1)
            return None if l is None or r is None else (l + r if isinstance(e.op, ast.Add) else l - r)
        if isinstance(e, ast.BinOp) and isinstance(e.op, ast.Mult):
            l, r = lin(e.left, depth + 1), lin(e.right, depth + 1)
            if l is not None and r is not None and l.is_const():
                return r.scale(l.cval())
            if l is not None and r is not None and r.is_const():
                return l.scale(r.cval())
            return None
        if isinstance(e, ast.BinOp) and isinstance(e.op, ast.FloorDiv):
            l, r = lin(e.left, depth + 1), lin(e.right, depth + 1)
            if l is not None and r is not None and r.is_const() and r.cval() >= 1:
                return Lin.atom(('fdiv', l, r))
            return None
        return None

    # plain single assignments of the loop body (`s = int(s)` rebinding the loop variable is the sample itself)
    for st in il.body:
        if isinstance(st, ast.Assign) and len(st.targets) == 1 and isinstance(st.targets[0], ast.Name):
            if st.targets[0].id == s_name and Pat().any(['int(%s)' % s_name, 'np.int64(%s)' % s_name], st.value):
                continue
            body_defs.setdefault(st.targets[0].id, []).append(st.value)

    def assumptions(test):
        pos, nonneg = [], []
        for c in q.conjuncts(test):
            if not isinstance(c, ast.Compare):
                continue
            terms = [c.left] + list(c.comparators)
            for (l, op, r) in zip(terms[:-1], c.ops, terms[1:]):
                a, b = lin(l), lin(r)
                if a is None or b is None:
                    continue
                if isinstance(op, ast.LtE):
                    nonneg.append(b - a)
                elif isinstance(op, ast.Lt):
                    nonneg.append(b - a - Lin.const(1))
                elif isinstance(op, ast.GtE):
                    nonneg.append(a - b)
                elif isinstance(op, ast.Gt):
                    nonneg.append(a - b - Lin.const(1))
        return pos, nonneg

    # alternatives: (guard test or None, source expression, sample expression)
    alts = []
    a0, a1 = c0.args[0], c0.args[1]
    chosen = None
    if isinstance(a0, ast.Name) and isinstance(a1, ast.Name):
        for st in il.body:
            if isinstance(st, ast.If) and st.orelse:
                def pick(block):
                    got = {}
                    for x in block:
                        if isinstance(x, ast.Assign) and len(x.targets) == 1:
                            t_ = x.targets[0]
                            if isinstance(t_, ast.Tuple) and isinstance(x.value, ast.Tuple) and len(t_.elts) == len(x.value.elts):
                                for tt, vv in zip(t_.elts, x.value.elts):
                                    if isinstance(tt, ast.Name):
                                        got[tt.id] = vv
                            elif isinstance(t_, ast.Name):
                                got[t_.id] = x.value
                    return got
                gb, go = pick(st.body), pick(st.orelse)
                if a0.id in gb and a1.id in gb and a0.id in go and a1.id in go:
                    chosen = st
                    alts = [(st.test, gb[a0.id], gb[a1.id]), (None, go[a0.id], go[a1.id])]
    if chosen is None:
        guards = [i_.test for i_, br in q.enclosing_ifs(fi, c0) if br == 'body' and q.contains(il, i_)]
        alts = [(guards[0] if guards else None, a0, a1)]
    S_ = Lin.atom(('v', s_name))
    N_ = Lin.atom(('v', nsw_))
    half = Lin.atom(('fdiv', N_, Lin.const(2)))
    for test, src_e, t_e in alts:
        src = src_e
        if isinstance(src, ast.Name) and src.id in body_defs and len(body_defs[src.id]) == 1:
            src = body_defs[src.id][0]
        src = fi.expand(src) if isinstance(src, ast.Name) else src
        tl = lin(t_e)
        if Pat().m(tr_, src):
            if tl is not None and tl == S_:
                ctx.holds('C03.S2', fi, 'the window is read from the whole recording at the spike sample', src_e)
            elif tl is not None and set(tl.atoms()) <= {('v', s_name), ('v', i0_), ('v', i1_), ('v', nsw_)}:
                ctx.violated('C03.S2', fi, c0, 'the window is read from the whole recording at `%s`, not at the spike sample' % unparse(t_e))
            else:
                ctx.undecided('C03.S2', fi, 'sample `%s` passed with the whole recording not recognised' % unparse(t_e), c0)
            continue
        if isinstance(src, ast.Subscript) and Pat().m(tr_, src.value) and isinstance(src.slice, ast.Slice) and src.slice.step is None:
            a = lin(src.slice.lower) if src.slice.lower is not None else Lin.const(0)
            b = lin(src.slice.upper)
            if a is None or b is None or tl is None:
                ctx.undecided('C03.S2', fi, 'bounds of the chunk-local source `%s` not recognised' % unparse(src), c0)
                continue
            if not (tl + a == S_):
                if set((tl + a).atoms()) <= {('v', s_name), ('v', i0_), ('v', i1_), ('v', nsw_)}:
                    ctx.violated('C03.S2', fi, c0, 'the window is read from `%s` at `%s`: that is sample %s of the recording, not the spike sample' % (unparse(src), unparse(t_e), tl + a))
                else:
                    ctx.undecided('C03.S2', fi, 'sample `%s` in the chunk-local source not recognised' % unparse(t_e), c0)
                continue
            SI = SymInterp(ctx.repo)
            pos, nonneg = assumptions(test) if test is not None else ([], [])
            SI.pos = [N_] + pos
            SI.nonneg = nonneg + [b - a]
            lo = S_ - half - a                        # first row of the window, relative to the chunk start: must be >= 0
            hi = b - (S_ - half + N_)                 # rows of the chunk after the window: must be >= 0
            ok_lo = SI.sign(lo) in ('+', '>=0', '0')
            ok_hi = SI.sign(hi) in ('+', '>=0', '0')
            exact = all(set(x.atoms()) <= {('v', s_name), ('v', i0_), ('v', i1_), ('v', nsw_), ('fdiv', N_, Lin.const(2))} for x in [lo, hi] + nonneg)
            if ok_lo and ok_hi:
                ctx.holds('C03.S2', fi, 'the chunk-local source is used only when the whole window [s - n//2, s - n//2 + n) lies inside the chunk (derived from the guard)', chosen.test if chosen is not None else c0)
            elif exact:
                which = 'starts %s rows before the chunk' % (-lo) if not ok_lo else 'ends after the chunk: %s rows of the chunk after the window is not >= 0 under the guard `%s`' % (hi, unparse(test) if test is not None else 'none')
                ctx.violated('C03.S2', fi, chosen.test if chosen is not None else c0, 'the window of a spike is read from the chunk-local array `%s` although it can reach outside the chunk (%s): '
                             'the rows outside are zero-padded while the recording has data there' % (unparse(src), which))
            else:
                ctx.undecided('C03.S2', fi, 'containment of the window in the chunk-local source could not be derived from the guard', c0)
            continue
        if chosen is not None or not Pat().m(tr_, fi.expand(a0)):
            ctx.undecided('C03.S2', fi, 'source of the window `%s` not recognised' % unparse(src_e), c0)


def s2_iter(ctx):
    repo = ctx.repo
    fi = repo.func(TR, 'iter_waveforms')
    tr_, smp_, chn_, nsw_ = fi.params[0], fi.params[1], fi.params[2], fi.params[3]
    P = Pat(fi)
    lp = [l for l in fi.nodes(ast.For) if isinstance(l.iter, ast.Call) and q.method_name(l.iter) == 'iter_chunks']
    if not lp:
        ctx.undecided('C03.S2', fi, 'the loop over the reader\'s chunk intervals was not found')
        return
    good_it = P.m('%s.iter_chunks(REST)' % tr_, lp[0].iter) and isinstance(lp[0].target, ast.Tuple) and len(lp[0].target.elts) == 2 and P.m('(V_i0, V_i1)', lp[0].target)
    tri(ctx, 'C03.S2', fi, lp[0].iter, good_it, not P.m('%s.iter_chunks(REST)' % tr_, lp[0].iter), 'chunks are the tiling intervals of the reader',
        'chunks are not taken from %s.iter_chunks()' % tr_, 'chunk loop target not recognised')
    if not good_it:
        return
    ind = P.stmt('V_ind = _find_chunks([V_i0, V_i1], %s) == 0' % smp_, within=lp[0])
    ind_bad = None
    if ind is None:
        for pat_ in ('V_ind = _find_chunks([V_i0, V_i1], %s) >= 0', 'V_ind = _find_chunks([V_i0, V_i1], %s) <= 0', 'V_ind = _find_chunks([V_i0, V_i1], %s) != -1',
                     'V_ind = (V_i0 <= %s) & (%s <= V_i1)', 'V_ind = (V_i0 < %s) & (%s <= V_i1)', 'V_ind = (V_i0 < %s) & (%s < V_i1)'):
            ind_bad = ind_bad or P.stmt(pat_ % ((smp_,) * pat_.count('%s')), within=lp[0])
    ind_alt = P.stmt('V_ind = (V_i0 <= %s) & (%s < V_i1)' % (smp_, smp_), within=lp[0]) if ind is None and ind_bad is None else None
    tri(ctx, 'C03.S2', fi, ind or ind_alt or ind_bad or 'chunk mask', ind is not None or ind_alt is not None, ind_bad is not None,
        'a spike belongs to the chunk with i0 <= s < i1 (exactly one of the tiling chunks)',
        'chunk membership is `%s`: a spike on a chunk boundary is exported twice or not at all' % (unparse(ind_bad.value) if ind_bad is not None else ''),
        'chunk membership test not recognised')
    if P.name('V_ind') is None:
        return
    ss = P.stmt('V_ss = %s[V_ind]' % smp_, within=lp[0])
    sc = P.stmt('V_sc = %s[V_ind]' % chn_, within=lp[0]) or P.stmt('V_sc = %s[V_ind, :]' % chn_, within=lp[0])
    sc_bad = None
    if sc is None:
        sc_bad = P.stmt('V_sc = %s' % chn_, within=lp[0]) or P.stmt('V_sc = %s[ANY]' % chn_, within=lp[0])
    tri(ctx, 'C03.S2', fi, ss or 'masks', ss is not None and sc is not None, ss is not None and sc_bad is not None, 'samples and channel rows of a chunk are selected with the same mask',
        'samples and channel rows of a chunk are not selected with the same mask (`%s`)' % (unparse(sc_bad) if sc_bad is not None else ''), 'selection of the samples / channel rows of a chunk not recognised')
    inner = [l for l in ast.walk(lp[0]) if isinstance(l, ast.For) and l is not lp[0] and isinstance(l.iter, ast.Call) and dotted(l.iter.func) == 'enumerate' and l.iter.args and
             isinstance(l.iter.args[0], ast.Name) and l.iter.args[0].id == P.name('V_ss')]
    if inner and P.name('V_sc') is None and isinstance(inner[0].target, ast.Tuple) and len(inner[0].target.elts) == 2:
        # no chunk-local table of channel rows: a recognised WRONG form is the row of the table of ALL spikes at the chunk-relative index
        i_ = unparse(inner[0].target.elts[0])
        calls_ = [c for c in ast.walk(inner[0]) if isinstance(c, ast.Call) and dotted(c.func) == '_extract_waveform']
        ch_ = (q.kwarg(calls_[0], 'channel_ids') if q.kwarg(calls_[0], 'channel_ids') is not None else (calls_[0].args[2] if len(calls_[0].args) > 2 else None)) if calls_ else None
        if isinstance(ch_, ast.Name):
            d_ = [x for x in inner[0].body if isinstance(x, ast.Assign) and isinstance(x.targets[0], ast.Name) and x.targets[0].id == ch_.id]
            ch_ = d_[0].value if d_ else ch_
        if ch_ is not None and Pat().any(['%s[%s, :]' % (chn_, i_), '%s[%s]' % (chn_, i_), '%s[%s, ...]' % (chn_, i_)], ch_):
            ctx.violated('C03.S2', fi, ch_, 'spike i OF THE CHUNK is extracted on `%s`, the channel row of spike i of the WHOLE selection: from the second chunk on every spike gets the channels of '
                         'another spike' % unparse(ch_))
        elif ch_ is not None and Pat().any(['%s[%s][%s]' % (chn_, P.name('V_ind'), i_), '%s[%s][%s, :]' % (chn_, P.name('V_ind'), i_), '%s[%s, :][%s]' % (chn_, P.name('V_ind'), i_)], ch_):
            ctx.holds('C03.S2', fi, 'spike i of the chunk is extracted on its own channel row (row i of the rows selected by the chunk mask)', ch_)
        else:
            ctx.undecided('C03.S2', fi, 'per-spike extraction loop `for i, s in enumerate(<samples of the chunk>)` not recognised')
    elif not inner or P.name('V_sc') is None:
        ctx.undecided('C03.S2', fi, 'per-spike extraction loop `for i, s in enumerate(<samples of the chunk>)` not recognised')
    else:
        il = inner[0]
        i_, s_ = (unparse(x) for x in il.target.elts) if isinstance(il.target, ast.Tuple) and len(il.target.elts) == 2 else ('?', '?')
        calls = [c for c in ast.walk(il) if isinstance(c, ast.Call) and dotted(c.func) == '_extract_waveform']
        st = [x for x in il.body if isinstance(x, ast.Assign) and isinstance(x.targets[0], ast.Subscript)]
        if not calls or not st:
            ctx.undecided('C03.S2', fi, 'extraction call / store of the per-spike loop not recognised', il)
        else:
            c0 = calls[0]
            ch_arg = q.kwarg(c0, 'channel_ids') if q.kwarg(c0, 'channel_ids') is not None else (c0.args[2] if len(c0.args) > 2 else None)
            ch_x = ch_arg
            if isinstance(ch_arg, ast.Name):
                d_ = [x for x in il.body if isinstance(x, ast.Assign) and isinstance(x.targets[0], ast.Name) and x.targets[0].id == ch_arg.id]
                ch_x = d_[0].value if d_ else ch_arg
            sc_n = P.name('V_sc')
            row_good = ch_x is not None and Pat().any(['%s[%s, :]' % (sc_n, i_), '%s[%s]' % (sc_n, i_), '%s[%s, ...]' % (sc_n, i_)], ch_x)
            src_good = bool(c0.args) and Pat().m(tr_, c0.args[0])
            smp_good = len(c0.args) > 1 and Pat().m(s_, c0.args[1])
            dst_good = Pat().any(['V_w[%s, ...]' % i_, 'V_w[%s]' % i_, 'V_w[%s, :, :]' % i_], st[0].targets[0])
            nsw_arg = q.kwarg(c0, 'n_samples_waveforms') if q.kwarg(c0, 'n_samples_waveforms') is not None else (c0.args[3] if len(c0.args) > 3 else None)
            nsw_good = nsw_arg is not None and Pat().m(nsw_, fi.expand(nsw_arg))
            allg = row_good and src_good and smp_good and dst_good and nsw_good
            vocab = {tr_, s_, i_, sc_n, P.name('V_i0'), P.name('V_i1'), nsw_, 'np'} | ({ch_arg.id} if isinstance(ch_arg, ast.Name) else set()) | {unparse(st[0].targets[0].value)}
            used = {n.id for x in (ch_x, c0, st[0].targets[0]) if x is not None for n in ast.walk(x) if isinstance(n, ast.Name)} - {'_extract_waveform'}
            tri(ctx, 'C03.S2', fi, il, allg, not allg and used <= vocab,
                'spike i of the chunk: window from the whole recording at its sample on its own channel row, stored at position i',
                'the per-spike extraction does not pair sample i, channel row i and output row i on the whole recording (`%s = %s`, channel row `%s`)' %
                (unparse(st[0].targets[0]), unparse(c0)[:80], unparse(ch_x) if ch_x is not None else '?'), 'per-spike extraction not in a recognised form')
    if inner and P.name('V_sc') is not None:
        ctx.part('C03.S2', _window_sources, fi, inner[0], tr_, nsw_, P.name('V_i0'), P.name('V_i1'))
    z = [c for c in ast.walk(lp[0]) if isinstance(c, ast.Call) and dotted(c.func) == 'np.zeros']
    if not z:
        ctx.undecided('C03.S2', fi, 'allocation of the block of a chunk not recognised')
    else:
        shp = fi.expand(z[0].args[0]) if z[0].args else None
        dt = q.kwarg(z[0], 'dtype')
        g = isinstance(shp, ast.Tuple) and len(shp.elts) == 3 and Pat().any(['len(%s[%s])' % (smp_, P.name('V_ind')), 'len(%s)' % (P.name('V_ss') or '?')], shp.elts[0]) and \
            Pat().m(nsw_, shp.elts[1]) and Pat().any(['%s.shape[1]' % chn_], shp.elts[2]) and dt is not None and Pat().m('%s.dtype' % tr_, dt)
        b_ = isinstance(shp, ast.Tuple) and len(shp.elts) == 3 and not g and (dt is None or not Pat().m('%s.dtype' % tr_, dt) or Pat().m(nsw_, shp.elts[2]))
        tri(ctx, 'C03.S2', fi, z[0], g, b_, 'a chunk of waveforms has (spikes in chunk, n, channels per spike) entries of the recording dtype',
            'the chunk array is `%s`, not zeros((spikes in chunk, n, channels per spike), dtype of the recording)' % unparse(z[0])[:100], 'chunk array not in a recognised form')
    ys = fi.yields()
    wname = None
    for x in ast.walk(lp[0]):
        if isinstance(x, ast.Assign) and isinstance(x.value, ast.Call) and dotted(x.value.func) == 'np.zeros' and isinstance(x.targets[0], ast.Name):
            wname = x.targets[0].id
    g = len(ys) == 1 and q.contains(lp[0], ys[0]) and isinstance(ys[0].value, ast.Name) and ys[0].value.id == wname
    b_ = len(ys) == 0 or (len(ys) == 1 and not q.contains(lp[0], ys[0]))
    tri(ctx, 'C03.S2', fi, ys[0] if ys else 'yield', g, b_, 'one block per non-empty chunk, in chunk order', 'blocks are not yielded once per chunk inside the chunk loop', 'yield structure not recognised')


def y1_writer(ctx):
    repo = ctx.repo
    wcls = repo.cls(TR, 'NpyWriter')
    init, app, close = (repo.lookup_method(wcls, m) for m in ('__init__', 'append', 'close'))
    if not all((init, app, close)):
        raise AnchorMissing('NpyWriter methods')
    ex = repo.func(TR, 'export_waveforms')
    PI = Pat(init)
    shape_p, dtype_p = init.params[2], init.params[3]
    g_dt = PI.stmt('self.dtype = np.dtype(%s)' % dtype_p) or PI.stmt('self.dtype = %s' % dtype_p)
    g_sh = PI.stmt('self.shape = %s' % shape_p) or PI.stmt('self.shape = tuple(%s)' % shape_p)
    hdr = PI.expr('_npy_header(self.shape, self.dtype)') or PI.expr('_npy_header(%s, self.dtype)' % shape_p) or PI.expr('_npy_header(self.shape, self.dtype, REST)')
    hdr_any = [c for c in init.calls() if dotted(c.func) == '_npy_header']
    tri(ctx, 'C03.Y1', init, hdr or (hdr_any[0] if hdr_any else 'header'), g_dt is not None and g_sh is not None and hdr is not None, bool(hdr_any) and hdr is None,
        'the header declares the shape and dtype given to the writer', 'the header is written for `%s`, not for (self.shape, self.dtype)' % (unparse(hdr_any[0]) if hdr_any else ''),
        'construction of the .npy header not recognised')
    wr = [c for c in app.calls() if q.method_name(c) == 'write']
    cast = False
    if wr and wr[0].args:
        wx = app.expand(wr[0].args[0])
        cast = any(Pat().any(['ANY.astype(self.dtype, REST)', 'ANY.astype(self.dtype)', 'np.ascontiguousarray(ANY, dtype=self.dtype)', 'np.asarray(ANY, dtype=self.dtype)', 'np.array(ANY, dtype=self.dtype)',
                              'np.asarray(ANY, self.dtype)', 'np.array(ANY, REST, dtype=self.dtype)'], n) for n in ast.walk(wx) if isinstance(n, ast.Call))
    cast_ex = any(any(Pat().any(['ANY.astype(dtype)', 'np.asarray(ANY, dtype=dtype)'], n) for n in ast.walk(c) if isinstance(n, ast.Call)) and
                  not any(isinstance(b, ast.BinOp) and isinstance(b.op, ast.Mult) and any(isinstance(n, ast.Call) and q.method_name(n) == 'astype' for n in ast.walk(b)) and b is c.args[0] for b in [c.args[0]])
                  for c in ex.calls() if q.method_name(c) == 'append' and c.args)
    tri(ctx, 'C03.Y1', app, wr[0] if wr else 'append', cast or cast_ex, bool(wr) and not cast and not cast_ex, 'the bytes appended are those of the chunk in the dtype declared in the header',
        '`%s` writes the chunk in whatever dtype it has: export_waveforms declares float64 but int16 x int / float32 x float chunks keep their dtype, so the file holds fewer bytes than '
        'declared and cannot be loaded' % (unparse(wr[0]) if wr else 'append'), 'write of the appended chunk not recognised')
    # ---- export_waveforms
    PE = Pat(ex)
    pth, tr_, smp_, chn_, nsw_ = ex.params[:5]
    n_sp = PE.stmt('V_nspk = len(%s)' % smp_) or PE.stmt('V_nspk = %s.shape[0]' % smp_)
    n_ch = PE.stmt('V_nch = %s.shape[1]' % chn_)
    shp = PE.stmt('V_shape = (E_a, E_b, E_c)')
    if shp is None:
        ctx.undecided('C03.A1', ex, 'declared shape of the exported array not recognised')
    else:
        e = [ex.expand(x) for x in shp.value.elts]
        is_n = lambda x: Pat().any(['len(%s)' % smp_, '%s.shape[0]' % smp_], x)
        is_w = lambda x: Pat().m(nsw_, x)
        is_c = lambda x: Pat().any(['%s.shape[1]' % chn_, 'np.asarray(%s, REST).shape[1]' % chn_], x)
        g = is_n(e[0]) and is_w(e[1]) and is_c(e[2])
        b_ = not g and all(is_n(x) or is_w(x) or is_c(x) for x in e)
        tri(ctx, 'C03.A1', ex, shp, g, b_, 'declared shape = (n_spikes, n, channels per spike)', 'the declared shape is `%s`, not (n_spikes, n, channels per spike)' % unparse(shp.value),
            'components of the declared shape not recognised')
    wctor = [c for c in ex.calls() if dotted(c.func) == 'NpyWriter']
    if not wctor:
        ctx.undecided('C03.A1', ex, 'creation of the NpyWriter not found')
    else:
        a_ = wctor[0].args
        g = len(a_) == 3 and Pat().m(pth, a_[0]) and isinstance(a_[1], ast.Name) and a_[1].id == PE.name('V_shape') and isinstance(a_[2], ast.Name)
        b_ = len(a_) == 3 and not g and all(isinstance(x, ast.Name) for x in a_)
        tri(ctx, 'C03.A1', ex, wctor[0], g, b_, 'the writer is opened on the given path with that shape', 'NpyWriter is created with `%s`, not (path, shape, dtype)' % unparse(wctor[0]),
            'arguments of the writer not recognised')
        dname = a_[2].id if len(a_) == 3 and isinstance(a_[2], ast.Name) else None
    lp = [l for l in ex.nodes(ast.For) if isinstance(l.iter, ast.Call) and dotted(l.iter.func) == 'iter_waveforms']
    if not lp:
        ctx.undecided('C03.P1', ex, 'the loop over iter_waveforms(...) was not found')
    else:
        c = lp[0].iter
        args_ok = len(c.args) >= 3 and Pat().m(tr_, c.args[0]) and Pat().m(smp_, c.args[1]) and Pat().m(chn_, c.args[2]) and q.kwarg(c, 'n_samples_waveforms') is not None and \
            Pat().m(nsw_, q.kwarg(c, 'n_samples_waveforms'))
        ap = [x for x in ast.walk(lp[0]) if isinstance(x, ast.Call) and q.method_name(x) == 'append' and x.args]
        tgt = unparse(lp[0].target)
        f2u = ex.params[6] if len(ex.params) > 6 else 'sample2unit'
        if not ap:
            ctx.violated('C03.P1', ex, lp[0], 'the yielded blocks are never appended to the writer')
        else:
            v = ap[0].args[0]
            core = v
            while isinstance(core, ast.Call) and q.method_name(core) == 'astype':
                core = core.func.value
            mult = isinstance(core, ast.BinOp) and isinstance(core.op, ast.Mult) and f2u in q.names_in(core) and tgt in q.names_in(core)
            plain = tgt in q.names_in(v) and f2u not in q.names_in(v)
            tri(ctx, 'C03.P1', ex, ap[0], args_ok and mult, plain or (not args_ok and len(c.args) >= 3), 'every yielded block is appended in yield order, multiplied by the unit factor',
                'yielded blocks are appended as `%s` (iterating `%s`): not block x unit factor of the given recording / spikes / channels' % (unparse(v), unparse(c)[:70]),
                'appended value not recognised')
            # Y4: the product is formed in the declared dtype, not in the (integer) sample dtype
            if mult:
                block = [o for o in (core.left, core.right) if tgt in q.names_in(o)][0]
                conv = any(isinstance(n, ast.Call) and (q.method_name(n) == 'astype' or dotted(n.func) in ('np.asarray', 'np.array', 'np.float64', 'np.asfarray', 'float')) for n in ast.walk(block))
                fconv = any(isinstance(n, ast.Call) and dotted(n.func) in ('float', 'np.float64') for o in (core.left, core.right) if f2u in q.names_in(o) for n in ast.walk(o))
                raw = isinstance(block, ast.Name)
                tri(ctx, 'C03.Y4', ex, ap[0], conv or fconv, raw and not fconv, 'the block is converted to the declared dtype before it is multiplied by the unit factor',
                    '`%s` multiplies in the sample dtype of the recording: int16 samples times an integer unit factor wrap around before the cast to the declared float type' % unparse(core),
                    'dtype in which the unit factor is applied not recognised')
        cl = [c_ for c_ in ex.calls() if q.method_name(c_) == 'close']
        tri(ctx, 'C03.P1', ex, cl[0] if cl else 'close', bool(cl) and cl[0].lineno > lp[0].end_lineno, not cl, 'the writer is closed after the last block', 'the writer is never closed (the file is left without its last blocks flushed)',
            'position of writer.close() not recognised')
    chk = [x for x in ex.nodes(ast.Assert) if any(isinstance(n, ast.Call) and dotted(n.func) in ('prod', 'np.prod') for n in ast.walk(x.test))]
    if chk:
        ctx.holds('C03.P1', ex, 'the number of values written is checked against the declared shape', chk[0])
    else:
        ctx.undecided('C03.P1', ex, 'no assertion comparing the written size with the declared shape was recognised')


def a1_store(ctx):
    repo = ctx.repo
    fi = repo.func(TR, 'get_spike_waveforms')
    Row, ReqS, ReqC = B('Row'), B('ReqS'), B('ReqC')
    store = Rec({'spike_ids': Arr((Row,), Ix(Spike)), 'spike_channels': Arr((Row, Loc), Ix(Chan, True)), 'waveforms': Arr((Row, Samp, Loc), RAW)})
    S = Shape(repo, sigs=COMMON_SIGS, inline_depth=1)
    res = S.result(fi, {'spike_ids': Arr((ReqS,), Ix(Spike)), 'channel_ids': Arr((ReqC,), Ix(Chan)), 'spike_waveforms': store, 'n_samples_waveforms': SizeOf(Samp)})
    for r in S.reports:
        ctx.violated('C03.A1', r.fi, r.node, '[get_spike_waveforms] %s' % r.msg)
    if isinstance(res, Arr):
        ctx.check(res.axes == (ReqS, Samp, ReqC) and not S.reports, 'C03.A1', fi, 'store lookup axes', 'store lookup returns (requested spikes, samples, requested channels)', 'store lookup returns %s' % res, value=res)
    else:
        ctx.undecided('C03.A1', fi, 'store lookup result not typed (%s)' % res)
    sid_p, ch_p, sw_p = fi.params[0], fi.params[1], fi.params[2]
    P = Pat(fi)
    rel = P.stmt('V_rel = _index_of(%s, %s.spike_ids)' % (sid_p, sw_p))
    lp = [l for l in fi.nodes(ast.For) if isinstance(l.iter, ast.Call) and dotted(l.iter.func) == 'enumerate']
    g_lp = rel is not None and bool(lp) and P.m('enumerate(V_rel)', lp[0].iter) and P.m('(V_i, V_sid)', lp[0].target)
    b_lp = bool(lp) and not g_lp and (P.m('enumerate(%s)' % sid_p, lp[0].iter) or (rel is not None and P.m('(V_sid, V_i)', lp[0].target)))
    tri(ctx, 'C03.A1', fi, lp[0].iter if lp else 'loop', g_lp, b_lp, 'requested spike i reads stored row sid, in request order',
        'the loop iterates `%s`: it does not pair request position i with the position of that spike in the store' % (unparse(lp[0].iter) if lp else ''), 'lookup loop not recognised')
    if g_lp:
        row = P.stmt('V_row = %s.spike_channels[V_sid, :]' % sw_p, within=lp[0]) or P.stmt('V_row = %s.spike_channels[V_sid]' % sw_p, within=lp[0])
        row_bad = P.stmt('V_row = %s.spike_channels[ANY, :]' % sw_p, within=lp[0]) if row is None else None
        com = P.stmt('V_com = np.intersect1d(%s, V_row)' % ch_p, within=lp[0]) if row is not None else None
        c0 = P.stmt('V_c0 = _index_of(V_com, %s)' % ch_p, within=lp[0]) if com is not None else None
        c1 = P.stmt('V_c1 = _index_of(V_com, V_row)', within=lp[0]) if c0 is not None else None
        swapped = None
        if row is not None and com is not None and (c0 is None or c1 is None):
            PX = Pat(fi, P.b)
            swapped = PX.stmt('V_c0 = _index_of(V_com, V_row)', within=lp[0]) and PX.stmt('V_c1 = _index_of(V_com, %s)' % ch_p, within=lp[0])
        # the position tables are recomputed for EVERY spike: a table kept from a previous iteration (memoised on the set of common channels) is wrong as soon as
        # two stored rows list the same channels in a different order
        memo = None
        if row is not None:
            for a in ast.walk(lp[0]):
                if isinstance(a, ast.Assign) and isinstance(a.value, ast.Call) and dotted(a.value.func) == '_index_of' and len(a.value.args) == 2 and \
                        isinstance(a.value.args[1], ast.Name) and a.value.args[1].id == P.name('V_row'):
                    for ifn, br_ in q.enclosing_ifs(fi, a):
                        if not q.contains(lp[0], ifn):
                            continue
                        assigned = {n.id for x in ast.walk(ifn) for n in ([x.targets[0]] if isinstance(x, ast.Assign) and isinstance(x.targets[0], ast.Name) else [])}
                        if assigned & set(q.names_in(ifn.test)):
                            memo = ifn
        if memo is not None:
            ctx.violated('C03.A1', fi, memo.test, 'the positions of the common channels in the stored row are recomputed only when `%s`: they are carried over from a previous spike, whose stored '
                         'channel row may list the same channels in another order' % unparse(memo.test))
        tri(ctx, 'C03.A1', fi, c0 or row or row_bad or 'index vectors', c1 is not None, row_bad is not None or bool(swapped),
            'row = position of the spike in the store; cols0 / cols1 = positions of the common channels in the request / in the stored row',
            'the store lookup does not compute (row in store, positions in request, positions in stored row): %s' %
            ('the stored channel row is `%s`' % unparse(row_bad.value) if row_bad is not None else 'the two position tables are computed against the wrong lists'), 'index vectors of the store lookup not recognised')
        st = [x for x in ast.walk(lp[0]) if isinstance(x, ast.Assign) and isinstance(x.targets[0], ast.Subscript) and 'waveforms' in unparse(x.value)]
        if c1 is not None and st:
            g = P.m('V_out[V_i, :, V_c0]', st[0].targets[0]) and P.m('%s.waveforms[V_sid, :, V_c1]' % sw_p, st[0].value)
            vocab = {P.name(k) for k in ('V_i', 'V_sid', 'V_c0', 'V_c1', 'V_out')} | {sw_p}
            used = {n.id for n in ast.walk(st[0]) if isinstance(n, ast.Name)}
            tri(ctx, 'C03.A1', fi, st[0], g, not g and used <= vocab, 'out[i, :, positions in request] = stored[row, :, positions in stored row]',
                'the copy is `%s = %s`' % (unparse(st[0].targets[0]), unparse(st[0].value)), 'copy statement not recognised')
        else:
            ctx.undecided('C03.A1', fi, 'copy from the store into the output not recognised')
    mem = [x for x in fi.nodes(ast.Assert) if any(Pat().any(['np.isin(%s, %s.spike_ids)' % (sid_p, sw_p), 'np.in1d(%s, %s.spike_ids)' % (sid_p, sw_p)], n) for n in ast.walk(x.test))]
    if mem:
        ctx.holds('C03.A1', fi, 'spikes absent from the store are refused (the caller falls back to the raw data)', mem[0])
    else:
        ctx.undecided('C03.A1', fi, 'the refusal of spikes absent from the store was not recognised')


def a2_routes(ctx):
    repo = ctx.repo
    cls = repo.cls(M, 'TemplateModel')
    sw = repo.lookup_method(cls, 'save_spikes_subset_waveforms')
    P = Pat(sw)
    ex = [c for c in sw.calls() if dotted(c.func) == 'export_waveforms']
    sel = P.stmt('V_ids = V_selector(REST)')
    ids_stmt = None
    for a in sw.nodes(ast.Assign):
        if isinstance(a.value, ast.Call) and isinstance(a.value.func, ast.Name) and isinstance(a.targets[0], ast.Name):
            d = sw.unique_def(a.value.func.id)
            if isinstance(d, ast.Call) and dotted(d.func) == 'SpikeSelector':
                ids_stmt = a
    if not ex or ids_stmt is None:
        ctx.undecided('C03.A2', sw, 'the subset export (spike selection + export_waveforms call) was not recognised')
    else:
        ids = ids_stmt.targets[0].id
        PS = Pat(sw)
        table = PS.stmt('V_best = np.vstack([self._template_n_channels(V_t, ANY) for V_t in range(self.n_templates)]).astype(ANY)') or \
            PS.stmt('V_best = np.vstack([self._template_n_channels(V_t, ANY) for V_t in range(self.n_templates)])') or \
            PS.stmt('V_best = np.array([self._template_n_channels(V_t, ANY) for V_t in range(self.n_templates)], REST)')
        table_any = [a for a in sw.nodes(ast.Assign) if any(isinstance(n, ast.Call) and q.method_name(n) == '_template_n_channels' for n in ast.walk(a.value))]
        tri(ctx, 'C03.A2', sw, table or (table_any[0] if table_any else 'best channels'), table is not None,
            table is None and bool(table_any) and any(isinstance(n, ast.comprehension) and not Pat().m('range(self.n_templates)', n.iter) for n in ast.walk(table_any[0].value)),
            'the channel table has one row per template id 0..n_templates-1', 'the channel table is not built for every template id in order (`%s`)' % (unparse(table_any[0].value)[:90] if table_any else ''),
            'construction of the per-template channel table not recognised')
        chs = PS.stmt('V_chs = V_best[self.spike_templates[%s], :]' % ids) or PS.stmt('V_chs = V_best[self.spike_templates[%s]]' % ids) if table is not None else None
        chs_bad = None
        if table is not None and chs is None:
            chs_bad = PS.stmt('V_chs = V_best[self.spike_clusters[%s], :]' % ids) or PS.stmt('V_chs = V_best[E_other, :]') or PS.stmt('V_chs = V_best[E_other]')
        a_ = ex[0].args
        smp_good = len(a_) >= 4 and Pat().m('self.spike_samples[%s]' % ids, a_[2]) and Pat().m('self.traces', a_[1])
        smp_bad = len(a_) >= 4 and not smp_good and ('spike_samples' in unparse(a_[2]) or 'spike_times' in unparse(a_[2]))
        ch_good = chs is not None and len(a_) >= 4 and isinstance(a_[3], ast.Name) and a_[3].id == PS.name('V_chs')
        tri(ctx, 'C03.A2', sw, ex[0], smp_good and ch_good, smp_bad or chs_bad is not None,
            'the export gets the samples and the channel rows of the SAME spikes; a spike\'s channels are those of its template',
            'the subset export does not pass spike_samples[spike_ids] with best_channels[spike_templates[spike_ids]] (samples `%s`, channel rows `%s`)' %
            (unparse(a_[2]) if len(a_) > 2 else '?', unparse(chs_bad.value) if chs_bad is not None else (unparse(chs.value) if chs is not None else '?')), 'arguments of the subset export not recognised')
        f2u = [p_ for p_ in sw.params if 'unit' in p_]
        nk, uk = q.kwarg(ex[0], 'n_samples_waveforms'), q.kwarg(ex[0], 'sample2unit')
        g = nk is not None and Pat().m('self.n_samples_waveforms', nk) and uk is not None and f2u and Pat().m(f2u[0], uk)
        tri(ctx, 'C03.A2', sw, ex[0], bool(g), nk is None or uk is None, 'window length and unit factor are forwarded', 'n_samples_waveforms / sample2unit are not forwarded to the export',
            'forwarding of the window length / unit factor not recognised')
        sv = [c for c in sw.calls() if dotted(c.func) == 'np.save' and len(c.args) == 2]
        pnames = {}
        for a in sw.nodes(ast.Assign):
            if isinstance(a.targets[0], ast.Name) and isinstance(a.value, ast.BinOp):
                cst = [const_value(n) for n in ast.walk(a.value) if isinstance(n, ast.Constant) and isinstance(n.value, str)]
                if cst:
                    pnames[a.targets[0].id] = cst[0]
        got = {pnames.get(unparse(c.args[0]), unparse(c.args[0])): unparse(c.args[1]) for c in sv}
        g = got.get('_phy_spikes_subset.spikes.npy') == ids and got.get('_phy_spikes_subset.channels.npy') == (PS.name('V_chs') or '?')
        b_ = not g and set(got) >= {'_phy_spikes_subset.spikes.npy', '_phy_spikes_subset.channels.npy'}
        tri(ctx, 'C03.A2', sw, sv[0] if sv else 'store members', g, b_, 'the store records the exported spike ids and their channel rows',
            'the spike-id / channel files do not hold the exported spike ids / their channel rows (%s)' % got, 'saves of the store members not recognised')
    gw = repo.lookup_method(cls, 'get_waveforms')
    PGW = Pat(gw)
    sid_p, ch_p = gw.params[1], gw.params[2]
    br = [i for i in gw.nodes(ast.If) if Pat().m('self.spike_waveforms is not None', i.test)]
    first = [c for c in ast.walk(br[0]) if isinstance(c, ast.Call) and dotted(c.func) == 'get_spike_waveforms'] if br else []
    raw = [c for c in ast.walk(gw.node) if isinstance(c, ast.Call) and dotted(c.func) == 'extract_waveforms']
    if not br or not first or not raw:
        ctx.undecided('C03.A2', gw, 'get_waveforms: the store / raw-data alternative was not recognised')
    else:
        def raw_ok(c):
            smp = gw.expand(c.args[1]) if len(c.args) > 1 else None
            nk = q.kwarg(c, 'n_samples_waveforms')
            return len(c.args) >= 3 and Pat().m('self.traces', c.args[0]) and Pat().m(ch_p, c.args[2]) and nk is not None and Pat().m('self.n_samples_waveforms', gw.expand(nk)), smp
        oks = [raw_ok(c) for c in raw]
        nk1 = q.kwarg(first[0], 'n_samples_waveforms')
        f_ok = len(first[0].args) >= 2 and Pat().m(sid_p, first[0].args[0]) and Pat().m(ch_p, first[0].args[1]) and q.kwarg(first[0], 'spike_waveforms') is not None and \
            Pat().m('self.spike_waveforms', q.kwarg(first[0], 'spike_waveforms')) and nk1 is not None and Pat().m('self.n_samples_waveforms', gw.expand(nk1))
        tri(ctx, 'C03.A2', gw, br[0], f_ok and all(o for o, _ in oks), not (f_ok and all(o for o, _ in oks)) and all(len(c.args) >= 3 for c in raw),
            'get_waveforms reads the store when there is one, otherwise the raw window on the same channels and window length',
            'get_waveforms does not choose store / raw data on the same (spikes, channels, window length)', 'arguments of the two routes not recognised')
        # where the raw windows are centred: the sample vector handed to extract_waveforms (definitions may be repeated per branch)
        smp_defs = []
        for c in raw:
            a1 = c.args[1] if len(c.args) > 1 else None
            if isinstance(a1, ast.Name):
                smp_defs += [x.value for x in gw.nodes(ast.Assign) if isinstance(x.targets[0], ast.Name) and x.targets[0].id == a1.id]
            elif a1 is not None:
                smp_defs.append(a1)
        g = bool(smp_defs) and all(Pat().m('self.spike_samples[%s]' % sid_p, v) for v in smp_defs)
        b_ = bool(smp_defs) and not g and any(Pat().any(['self.spike_times[%s]' % sid_p, 'self.spike_samples', 'self.spike_times', sid_p], v) for v in smp_defs)
        tri(ctx, 'C03.A2', gw, smp_defs[0] if smp_defs else 'samples', g, b_, 'raw windows are centred on spike_samples[spike_ids]',
            'raw windows are centred on `%s`, not on self.spike_samples[spike_ids]' % (unparse(smp_defs[0]) if smp_defs else ''), 'sample vector of the raw route not recognised')
    ew = repo.func(TR, 'extract_waveforms')
    lp = [l for l in ew.nodes(ast.For) if isinstance(l.iter, ast.Call) and dotted(l.iter.func) == 'enumerate']
    if not lp or not isinstance(lp[0].target, ast.Tuple):
        ctx.undecided('C03.A2', ew, 'extraction loop of extract_waveforms not recognised')
    else:
        i_, ts_ = (unparse(x) for x in lp[0].target.elts)
        c = [x for x in ast.walk(lp[0]) if isinstance(x, ast.Call) and dotted(x.func) == '_extract_waveform']
        st = [x for x in lp[0].body if isinstance(x, ast.Assign) and isinstance(x.targets[0], ast.Subscript)]
        if not c or not st:
            ctx.undecided('C03.A2', ew, 'extraction call / store of extract_waveforms not recognised')
        else:
            chk_ = q.kwarg(c[0], 'channel_ids') if q.kwarg(c[0], 'channel_ids') is not None else (c[0].args[2] if len(c[0].args) > 2 else None)
            g = Pat().m('enumerate(%s)' % ew.params[1], lp[0].iter) and len(c[0].args) > 1 and Pat().m(ts_, c[0].args[1]) and Pat().m(ew.params[0], c[0].args[0]) and \
                Pat().any(['V_out[%s]' % i_, 'V_out[%s, ...]' % i_, 'V_out[%s, :, :]' % i_], st[0].targets[0]) and chk_ is not None and Pat().m(ew.params[2], chk_)
            used = {n.id for n in ast.walk(st[0].targets[0]) if isinstance(n, ast.Name)} | {n.id for n in ast.walk(c[0]) if isinstance(n, ast.Name)}
            vocab = {i_, ts_, unparse(st[0].targets[0].value), '_extract_waveform', 'np'} | set(ew.params) | {n for n in ('ns', 'nsw', 'nc')} | \
                {a.targets[0].id for a in ew.nodes(ast.Assign) if isinstance(a.targets[0], ast.Name)}
            tri(ctx, 'C03.A2', ew, lp[0], g, not g and used <= vocab, 'extract_waveforms: row i = window of spike i on the requested channels (spike order kept)',
                'extract_waveforms does not fill row i with the window of spike i (`%s = %s`)' % (unparse(st[0].targets[0]), unparse(c[0])[:70]), 'extraction loop not in a recognised form')


def a2_recording(ctx):
    """Every route cuts its windows out of `traces[...]`: that this is the recording - the given files concatenated in the given order, each mapped with the given
    layout - is C01's obligation on the readers (D1 storage vs bounds, D2 file order). Prerequisite here: a reader that serves other rows makes all three routes agree
    with each other and disagree with the raw data."""
    from vlib import report
    from obligations import C01
    sub = report.Ctx('C01', ctx.repo, ctx.tier, ctx.seed)
    C01.t2_d1_readers(sub)
    rel = [o for o in sub.obs if o.rule in ('C01.D1', 'C01.D2')]
    bad = [o for o in rel if o.status == 'violated']
    for o in bad[:2]:
        ctx.obs.append(report.Ob('C03.A2', o.where, 'violated', 'the recording the windows are read from is not the given files in the given order (%s): %s' % (o.rule, o.detail), o.construct, o.line))
    if not bad and any(o.status == 'holds' for o in rel):
        ctx.holds('C03.A2', TR + ':BaseEphysReader', 'the readers serve the given files, in the given order, with the given layout (%d obligations of C01.D1 / D2 hold)' % len([o for o in rel if o.status == 'holds']),
                  'recording')
    elif not bad:
        ctx.undecided('C03.A2', TR + ':BaseEphysReader', 'the storage obligations of the readers (C01.D1 / D2) were not decided')


def run(ctx):
    ctx.part('C03.A2', a2_recording)
    ctx.part('C03.S1', s1_extract)
    ctx.part('C03.S2', s2_iter)
    ctx.part('C03.Y1', y1_writer)
    ctx.part('C03.A1', a1_store)
    ctx.part('C03.A2', a2_routes)


LEVEL_TEXT = ('Static check of the three waveform routes: symbolic window / padding formulas of _extract_waveform over all sign cases, the three '
              'dtype hazards (unsigned sample, list mask, header dtype vs bytes), chunk membership and mask sharing of the chunked extraction, '
              'order and unit factor of the .npy export, index spaces of the store lookup, and agreement of the arguments on the routes through '
              'the model.')
LEVEL_NOTE = ('Trusted: normal forms, NumPy transfer rules, C01.S2 for _find_chunks. Not decided: the mtscomp decoder, sortedness, values.')
TECHNIQUE = 'static analysis: symbolic path walk with normal forms, index-space typing, and dtype-hazard rules on the ast'
