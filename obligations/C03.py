"""C03 - every route to a spike waveform yields the same zero-padded raw window.

Decided
  S1  _extract_waveform (sym walk over the sign cases): rows read = traces[max(0, s - n//2) : s - n//2 + n] on the requested
      columns; when the window starts before 0 the missing rows are stacked BEFORE as zeros, when it ends after the recording they
      are stacked AFTER, in both cases n - (rows read) rows of the right width and dtype; -1 channels are zeroed
  Y2  the spike sample is converted to a Python int before any subtraction (unsigned NumPy scalars wrap around below 0)
  Y3  the -1 test on the channel list is made on an ndarray (a Python list compares as a whole)
  S2  iter_waveforms assigns a spike to the chunk with i0 <= s < i1 (via _find_chunks == 0), selects samples and channel rows with
      the SAME mask, extracts every spike of the chunk in order from the recording (not from the chunk) with its own channel row
  Y1  the bytes appended to the .npy file have the dtype declared in its header; A1 the header shape is (n_spikes, n, n_channels_loc);
      P1 every yielded chunk is appended in yield order times the unit factor, the writer is closed
  A1  get_spike_waveforms: stored row = position of the spike in the store; columns written = positions of the common channels in the
      REQUEST, columns read = their positions in the STORED channel row of that spike
  A2  the subset export passes samples and channel rows of the same spikes, channels from each spike's template; get_waveforms reads the
      store when present and otherwise the raw window at spike_samples[spike_ids]; extract_waveforms keeps spike order
Not decided: the compressed reader's chunk iterator (C16), sortedness precondition, values.
"""
import ast

from vlib import q, proto
from vlib.proto import C, T, is_c, is_t, show, subterms
from vlib.symwalk import SymInterp
from vlib.sym import Lin, equal, NF
from vlib.front import unparse, dotted, const_value, AnchorMissing
from vlib.shape import Shape, Space, Ix, Q, D, BoolT, StrT, NoneT, SizeOf, UNK, is_unk, Arr, Rec, Tup, ListT, B
from obligations.shape_tables import (model_attrs, COMMON_SIGS, M, TR, Spike, Chan, Samp, Loc, RAW, Tmpl)

FLOOR = 24
EXPLANATION = ('sym walk of _extract_waveform over all sign cases of the window bounds (slice bounds and padding compared as normal forms with '
               'the window [s - n//2, s - n//2 + n)); structural dtype / conversion rules for the three dtype hazards; shape engine over the '
               'store lookup and the subset export; order / mask-sharing rules for the chunked extraction and the .npy writer')
TRUSTED = ['python ast', 'normal forms of vlib/sym.py', 'NumPy transfer rules of vlib/shape.py', 'C01.S2 (_find_chunks = number of bounds <= x, minus 1)']
ASSUMPTIONS = ['spike samples are sorted', 'n_samples_waveforms > 0', 'the recording has at least n rows or the window is padded on both sides']


class EW(SymInterp):
    def on_call(self, call, name, args, kwargs, st):
        if name in ('np.zeros', 'np.vstack', 'np.asarray', 'isinstance', 'len', 'int', 'slice', 'np.concatenate'):
            return [('ok', T('call', name, C(0), *(tuple(args) + tuple(T('kw', k, v) for k, v in sorted(kwargs.items())))), st)]
        return None


def s1_extract(ctx):
    repo = ctx.repo
    fi = repo.func(TR, '_extract_waveform')
    trp, sp, chp, np_ = fi.params[:4]
    tr, s, ch, n = T('param', trp), T('param', sp), T('param', chp), T('param', np_)
    dur = T('DUR')
    binds = {T('call', 'int', C(0), s): Lin.atom(('S',)), s: Lin.atom(('S',)), n: Lin.atom(('N',)), dur: Lin.atom(('DUR',)),
             T('index', T('attr', tr, 'shape'), C(0)): Lin.atom(('DUR',))}
    I = EW(repo, unroll=1, inline_depth=0, binds=binds, pos=[n])
    facts = {('is',) + tuple(sorted([C(None), ch], key=repr)): False, ('truth', T('call', 'isinstance', C(0), ch, T('name', 'slice'))): False}
    outs = I.run(fi, facts=facts)
    ctx.analysed['paths'] += len(outs)
    nf = I.nf
    S, N, DUR = Lin.atom(('S',)), Lin.atom(('N',)), Lin.atom(('DUR',))
    half = Lin.atom(('fdiv', N, Lin.const(2)))
    lo_spec = Lin.atom(('max', Lin.const(0), S - half)) if True else None
    from vlib.sym import mk_ext
    lo_spec = mk_ext('max', [Lin.const(0), S - half])
    hi_spec = S - half + N
    probs = {}
    seen_cases = set()
    npaths = 0
    for kind, val, st in outs:
        if kind != 'return':
            continue
        npaths += 1
        # locate the base read  traces[lo:hi][:, channels]
        reads = [x for x in subterms(val) if is_t(x) and x[1] == 'index' and x[2] == tr]
        if not reads:
            probs.setdefault('the returned block is not read from the recording (%s)' % show(val)[:70], 1)
            continue
        rd = reads[0]
        sl = rd[3]
        if not (is_t(sl) and sl[1] == 'slice3'):
            probs.setdefault('the recording is not read with a row slice (%s)' % show(sl)[:50], 1)
            continue
        lo, hi = nf(sl[2]), nf(sl[3])
        if not equal(lo, lo_spec):
            probs.setdefault('first row read is %s, expected max(0, s - n//2)' % lo, 1)
        if not equal(hi, hi_spec):
            probs.setdefault('row after the last read is %s, expected s - n//2 + n' % hi, 1)
        # column selection on the requested channels
        cols = [x for x in subterms(val) if is_t(x) and x[1] == 'index' and x[2] == rd]
        okc = any(is_t(x[3]) and x[3][1] == 'tuple' and x[3][2] == T('slice3', C(None), C(None), C(None)) and any(y == ch for y in subterms(x[3][3])) for x in cols)
        if not okc:
            probs.setdefault('the window is not restricted to the requested channels as block[:, channel_ids]', 1)
        # sign cases of this path
        r0 = I.sign(S - half)            # usually unknown; use recorded facts instead
        t0_neg = None
        t1_over = None
        for k, v in st.facts.items():
            if k[0] == 'rel':
                a, b = k[1], k[2]
                da = nf(a) - nf(b)
                if equal(da, S - half) or equal(da, half - S):
                    rel = v if equal(da, S - half) else {'<': '>', '>': '<', '=': '='}[v]
                    t0_neg = rel == '<'
                if equal(da, hi_spec - DUR) or equal(da, DUR - hi_spec):
                    rel = v if equal(da, hi_spec - DUR) else {'<': '>', '>': '<', '=': '='}[v]
                    t1_over = rel == '>'
        seen_cases.add((t0_neg, t1_over))
        # structure of the result: nested vstack((zeros, w)) / vstack((w, zeros))
        cur = val
        before = after = 0
        ok_pad = True
        while is_t(cur) and cur[1] == 'call' and cur[2] in ('np.vstack', 'np.concatenate'):
            tup = cur[4]
            if not (is_t(tup) and tup[1] == 'tuple' and len(tup) == 4):
                ok_pad = False
                break
            a, b = tup[2], tup[3]
            za = is_t(a) and a[1] == 'call' and a[2] == 'np.zeros'
            zb = is_t(b) and b[1] == 'call' and b[2] == 'np.zeros'
            if za and not zb:
                z, cur, side = a, b, 'before'
                before += 1
            elif zb and not za:
                z, cur, side = b, a, 'after'
                after += 1
            else:
                ok_pad = False
                break
            shp = z[4]
            if not (is_t(shp) and shp[1] == 'tuple' and len(shp) == 4):
                probs.setdefault('padding zeros are not created with a (rows, columns) shape', 1)
                continue
            rows = shp[2]
            inner_rows = T('index', T('attr', cur, 'shape'), C(0))
            okrows = is_t(rows) and rows[1] == 'Sub' and nf(rows[2]) == N and rows[3] == inner_rows
            if not okrows:
                probs.setdefault('padding %s the block has %s rows, expected n minus the rows already present' % (side, show(rows)[:60]), 1)
            wcols = nf(shp[3])
            if not equal(wcols, nf(T('call', 'len', C(0), ch))):
                probs.setdefault('padding has %s columns, expected one per requested channel' % wcols, 1)
            kws = {x[2]: x[3] for x in z[5:] if is_t(x) and x[1] == 'kw'}
            if 'dtype' in kws and not (is_t(kws['dtype']) and kws['dtype'][1] == 'attr' and kws['dtype'][3] == 'dtype'):
                probs.setdefault('padding dtype is %s, not the dtype of the block' % show(kws['dtype'])[:40], 1)
        if not ok_pad:
            probs.setdefault('the padded result is not built by stacking zeros before / after the block (%s)' % show(val)[:80], 1)
            continue
        if t0_neg is True and before != 1:
            probs.setdefault('window starting before sample 0: %d zero block(s) stacked BEFORE the data, expected 1' % before, 1)
        if t0_neg is False and before != 0:
            probs.setdefault('window starting inside the recording is padded at the start', 1)
        if t1_over is True and after != 1:
            probs.setdefault('window ending after the recording: %d zero block(s) stacked AFTER the data, expected 1' % after, 1)
        if t1_over is False and after != 0:
            probs.setdefault('window ending inside the recording is padded at the end', 1)
        if t0_neg is None and before:
            probs.setdefault('padding before the block is not conditioned on the window starting before sample 0', 1)
        if t1_over is None and after:
            probs.setdefault('padding after the block is not conditioned on the window ending after the recording', 1)
        # -1 channels zeroed
        z = [e for e in st.trace if e[0] == 'setitem' and e[3] == C(0)]
        if not z:
            probs.setdefault('channels given as -1 are not zeroed', 1)
    need = {(True, False), (False, True), (False, False)}
    if not probs and not need <= {c for c in seen_cases}:
        miss = sorted(map(str, need - seen_cases))
        probs.setdefault('the sign cases of the window bounds are not all distinguished by the code (missing %s): a window crossing an end of the recording is not padded' % miss, 1)
    if probs:
        for msg in list(probs)[:4]:
            ctx.violated('C03.S1', fi, msg[:150], msg)
    else:
        ctx.holds('C03.S1', fi, 'rows [max(0, s - n//2), s - n//2 + n) on the requested columns; zeros stacked before iff the window starts before 0 and after iff it '
                  'ends beyond the recording, n - present rows each; -1 channels zeroed (%d paths, cases %s)' % (npaths, sorted(map(str, seen_cases))), '_extract_waveform')
    # ---- Y2 / Y3
    subs = [b for b in fi.nodes(ast.BinOp) if isinstance(b.op, (ast.Sub, ast.Add)) and sp in q.names_in(b)]
    conv = [a for a in fi.nodes(ast.Assign) if unparse(a.targets[0]) == sp and isinstance(a.value, ast.Call) and dotted(a.value.func) == 'int' and unparse(a.value.args[0]) == sp]
    bad = []
    for b in subs:
        inside_int_of_param_only = False
        # acceptable: int(sample) - a   (the BinOp's operand is int(sample))   or a prior `sample = int(sample)`
        ops = [b.left, b.right]
        direct = any(isinstance(o, ast.Name) and o.id == sp for o in ops)
        if direct and not (conv and conv[0].lineno < b.lineno):
            bad.append(b)
    ctx.check(not bad, 'C03.Y2', fi, bad[0] if bad else 'sample arithmetic', 'the spike sample is converted with int() before it enters the window arithmetic',
              '`%s` subtracts from the raw spike sample: for an unsigned NumPy scalar within n//2 of the start this wraps around instead of going negative' % (unparse(bad[0]) if bad else ''))
    cmp_ = [c for c in fi.nodes(ast.Compare) if const_value(c.comparators[0]) == -1 and isinstance(c.ops[0], ast.Eq)]
    okm = True
    node = None
    for c in cmp_:
        node = c
        left = unparse(c.left)
        asarr = [a for a in fi.nodes(ast.Assign) if unparse(a.targets[0]) == chp and isinstance(a.value, ast.Call) and dotted(a.value.func) in ('np.asarray', 'np.array', 'np.atleast_1d') and a.lineno < c.lineno]
        if left == chp and not asarr:
            okm = False
        elif left != chp and not (left.startswith('np.asarray(') or left.startswith('np.array(')):
            okm = okm and True
    ctx.check(bool(cmp_) and okm, 'C03.Y3', fi, node or 'mask', 'the -1 mask is computed on an ndarray of the channel list',
              '`%s` compares the channel list as given: a Python list [.., -1] == -1 is the scalar False and no column is zeroed' % (unparse(node) if node is not None else 'no -1 test'))


def s2_iter(ctx):
    repo = ctx.repo
    fi = repo.func(TR, 'iter_waveforms')
    a = {unparse(x.targets[0]): x for x in fi.nodes(ast.Assign) if isinstance(x.targets[0], ast.Name)}
    ind = a.get('ind')
    t = unparse(ind.value).replace(' ', '') if ind is not None else ''
    good = t == '_find_chunks([i0,i1],spike_samples)==0'
    bad = t in ('_find_chunks([i0,i1],spike_samples)>=0', '_find_chunks([i0,i1],spike_samples)<=0', '_find_chunks([i0,i1],spike_samples)!=-1')
    if good:
        ctx.holds('C03.S2', fi, 'a spike belongs to the chunk with i0 <= s < i1 (exactly one of the tiling chunks)', ind)
    elif bad or ind is None:
        ctx.violated('C03.S2', fi, ind or 'chunk mask', 'chunk membership is `%s`: a spike on a chunk boundary is exported twice or not at all' % t)
    else:
        ctx.undecided('C03.S2', fi, 'chunk membership `%s` not recognised' % t, ind)
    lp = [l for l in fi.nodes(ast.For) if 'iter_chunks' in unparse(l.iter)]
    ctx.check(bool(lp) and unparse(lp[0].iter).replace(' ', '') == 'traces.iter_chunks(cache=cache)' and unparse(lp[0].target).replace(' ', '') in ('(i0,i1)', 'i0,i1'), 'C03.S2', fi, lp[0].iter if lp else 'chunks',
              'chunks are the tiling intervals of the reader', 'chunks are not taken from traces.iter_chunks()')
    ss, sc = a.get('ss'), a.get('sc')
    ok = ss is not None and sc is not None and unparse(ss.value).replace(' ', '') == 'spike_samples[ind]' and unparse(sc.value).replace(' ', '') == 'spike_channels[ind]'
    ctx.check(ok, 'C03.S2', fi, ss or 'masks', 'samples and channel rows of a chunk are selected with the same mask', 'samples and channel rows of a chunk are not selected with the same mask')
    inner = [l for l in fi.nodes(ast.For) if isinstance(l.iter, ast.Call) and dotted(l.iter.func) == 'enumerate' and unparse(l.iter.args[0]) == 'ss']
    okx = False
    if inner:
        il = inner[0]
        i, s_ = (unparse(x) for x in il.target.elts)
        calls = [c for c in ast.walk(il) if isinstance(c, ast.Call) and dotted(c.func) == '_extract_waveform']
        st = [x for x in il.body if isinstance(x, ast.Assign) and isinstance(x.targets[0], ast.Subscript)]
        chrow = [x for x in il.body if isinstance(x, ast.Assign) and unparse(x.targets[0]) == 'channel_ids']
        okx = bool(calls) and unparse(calls[0].args[0]) == 'traces' and unparse(calls[0].args[1]) == s_ and bool(st) and unparse(st[0].targets[0]).replace(' ', '').startswith('waveforms[%s' % i) and \
            bool(chrow) and unparse(chrow[0].value).replace(' ', '') == 'sc[%s,:]' % i and unparse(q.kwarg(calls[0], 'channel_ids')) == 'channel_ids' and \
            unparse(q.kwarg(calls[0], 'n_samples_waveforms')) == 'n_samples_waveforms'
    ctx.check(okx, 'C03.S2', fi, inner[0] if inner else 'extraction loop', 'spike i of the chunk: window from the whole recording at its sample on its own channel row, stored at position i',
              'the per-spike extraction does not pair sample i, channel row i and output row i on the whole recording')
    z = [c for c in fi.calls() if dotted(c.func) == 'np.zeros']
    ctx.check(bool(z) and unparse(z[0].args[0]).replace(' ', '') == '(ns,n_samples_waveforms,n_channels_loc)' and unparse(q.kwarg(z[0], 'dtype')) == 'traces.dtype', 'C03.S2', fi, z[0] if z else 'chunk array',
              'a chunk of waveforms has (spikes in chunk, n, channels per spike) entries of the recording dtype', 'the chunk array is not zeros((ns, n, n_channels_loc), traces.dtype)')
    ys = fi.yields()
    ctx.check(len(ys) == 1 and unparse(ys[0].value) == 'waveforms' and any(isinstance(x, ast.Continue) for x in ast.walk(lp[0])) if lp else False, 'C03.S2', fi, ys[0] if ys else 'yield',
              'one block per non-empty chunk, in chunk order', 'blocks are not yielded once per non-empty chunk')


def y1_writer(ctx):
    repo = ctx.repo
    wcls = repo.cls(TR, 'NpyWriter')
    init, app, close = (repo.lookup_method(wcls, m) for m in ('__init__', 'append', 'close'))
    if not all((init, app, close)):
        raise AnchorMissing('NpyWriter methods')
    ex = repo.func(TR, 'export_waveforms')
    ai = {unparse(x.targets[0]): unparse(x.value).replace(' ', '') for x in init.nodes(ast.Assign)}
    ctx.check(ai.get('self.dtype') in ('np.dtype(dtype)', 'dtype') and ai.get('header') == '_npy_header(self.shape,self.dtype)' and ai.get('self.shape') == 'shape', 'C03.Y1', init, 'header',
              'the header declares the shape and dtype given to the writer', 'the header is not written for (self.shape, self.dtype)')
    wr = [c for c in app.calls() if q.method_name(c) == 'write']
    cast = False
    if wr and wr[0].args:
        t = unparse(wr[0].args[0]).replace(' ', '')
        cast = 'dtype=self.dtype' in t or '.astype(self.dtype' in t or ',self.dtype)' in t
    cast_ex = any('astype(dtype' in unparse(c).replace(' ', '') or 'dtype=dtype' in unparse(c).replace(' ', '') for c in ex.calls() if q.method_name(c) == 'append')
    ctx.check(cast or cast_ex, 'C03.Y1', app, wr[0] if wr else 'append', 'the bytes appended are those of the chunk in the dtype declared in the header',
              '`%s` writes the chunk in whatever dtype it has: export_waveforms declares float64 but int16 x int / float32 x float chunks keep their dtype, so the file holds fewer bytes than declared and cannot be loaded' %
              (unparse(wr[0]) if wr else 'append'))
    shp = [x for x in ex.nodes(ast.Assign) if unparse(x.targets[0]) == 'shape']
    ctx.check(bool(shp) and unparse(shp[0].value).replace(' ', '') == '(n_spikes,n_samples_waveforms,n_channels_loc)', 'C03.A1', ex, shp[0] if shp else 'shape', 'declared shape = (n_spikes, n, channels per spike)',
              'the declared shape is `%s`' % (unparse(shp[0].value) if shp else '?'))
    ae = {unparse(x.targets[0]): unparse(x.value).replace(' ', '') for x in ex.nodes(ast.Assign)}
    ctx.check(ae.get('n_spikes') == 'len(spike_samples)' and ae.get('n_channels_loc') == 'spike_channels.shape[1]', 'C03.A1', ex, 'sizes', 'n_spikes and channels per spike come from the inputs',
              'n_spikes / n_channels_loc are not len(spike_samples) / spike_channels.shape[1]')
    wctor = [c for c in ex.calls() if dotted(c.func) == 'NpyWriter']
    ctx.check(bool(wctor) and [unparse(x) for x in wctor[0].args] == ['path', 'shape', 'dtype'], 'C03.A1', ex, wctor[0] if wctor else 'writer', 'the writer is opened on the given path with that shape', 'NpyWriter is not created with (path, shape, dtype)')
    lp = [l for l in ex.nodes(ast.For) if isinstance(l.iter, ast.Call) and dotted(l.iter.func) == 'iter_waveforms']
    okp = False
    if lp:
        c = lp[0].iter
        okp = [unparse(x) for x in c.args[:3]] == ['traces', 'spike_samples', 'spike_channels'] and unparse(q.kwarg(c, 'n_samples_waveforms')) == 'n_samples_waveforms'
        ap = [x for x in ast.walk(lp[0]) if isinstance(x, ast.Call) and q.method_name(x) == 'append']
        tgt = unparse(lp[0].target)
        okp = okp and bool(ap) and unparse(ap[0].args[0]).replace(' ', '') in ('%s*sample2unit' % tgt, 'sample2unit*%s' % tgt, '(%s*sample2unit).astype(dtype)' % tgt)
    ctx.check(okp, 'C03.P1', ex, lp[0] if lp else 'export loop', 'every yielded block is appended in yield order, multiplied by the unit factor', 'yielded blocks are not appended as block * sample2unit in order')
    cl = [c for c in ex.calls() if q.method_name(c) == 'close']
    ctx.check(bool(cl) and bool(lp) and cl[0].lineno > lp[0].lineno, 'C03.P1', ex, cl[0] if cl else 'close', 'the writer is closed after the last block', 'the writer is not closed after the loop')
    chk = [x for x in ex.nodes(ast.Assert) if 'size_written' in unparse(x.test)]
    ctx.check(bool(chk), 'C03.P1', ex, chk[0] if chk else 'size check', 'the number of values written is checked against the declared shape', 'the written size is not checked against the declared shape')


def a1_store(ctx):
    repo = ctx.repo
    fi = repo.func(TR, 'get_spike_waveforms')
    Row, ReqS, ReqC = B('Row'), B('ReqS'), B('ReqC')
    store = Rec({'spike_ids': Arr((Row,), Ix(Spike)), 'spike_channels': Arr((Row, Loc), Ix(Chan, True)), 'waveforms': Arr((Row, Samp, Loc), RAW)})
    S = Shape(repo, sigs=COMMON_SIGS, inline_depth=1)
    res = S.result(fi, {'spike_ids': Arr((ReqS,), Ix(Spike)), 'channel_ids': Arr((ReqC,), Ix(Chan)), 'spike_waveforms': store, 'n_samples_waveforms': SizeOf(Samp)})
    for r in S.reports:
        ctx.violated('C03.A1', r.fi, r.node, '[get_spike_waveforms] %s' % r.msg)
    ctx.check(isinstance(res, Arr) and res.axes == (ReqS, Samp, ReqC) and not S.reports, 'C03.A1', fi, 'store lookup axes', 'store lookup returns (requested spikes, samples, requested channels)',
              'store lookup returns %s' % res)
    a = {unparse(x.targets[0]): unparse(x.value).replace(' ', '') for x in fi.nodes(ast.Assign) if isinstance(x.targets[0], ast.Name)}
    ok = a.get('spike_ids_rel') == '_index_of(spike_ids,spike_waveforms.spike_ids)' and a.get('ind') == 'spike_waveforms.spike_channels[sid,:]' and \
        a.get('channel_common') in ('np.intersect1d(channel_ids,ind)', 'np.intersect1d(ind,channel_ids)') and a.get('cols0') == '_index_of(channel_common,channel_ids)' and a.get('cols1') == '_index_of(channel_common,ind)'
    ctx.check(ok, 'C03.A1', fi, 'index vectors', 'row = position of the spike in the store; cols0 / cols1 = positions of the common channels in the request / in the stored row',
              'the store lookup does not compute (row in store, positions in request, positions in stored row)')
    st = [x for x in fi.nodes(ast.Assign) if isinstance(x.targets[0], ast.Subscript) and unparse(x.targets[0].value) == 'out']
    oks = bool(st) and unparse(st[0].targets[0]).replace(' ', '') == 'out[i,:,cols0]' and unparse(st[0].value).replace(' ', '') == 'spike_waveforms.waveforms[sid,:,cols1]'
    ctx.check(oks, 'C03.A1', fi, st[0] if st else 'copy', 'out[i, :, positions in request] = stored[row, :, positions in stored row]', 'the copy is `%s = %s`' % ((unparse(st[0].targets[0]), unparse(st[0].value)) if st else ('?', '?')))
    lp = fi.nodes(ast.For)
    ctx.check(bool(lp) and unparse(lp[0].iter).replace(' ', '') == 'enumerate(spike_ids_rel)' and unparse(lp[0].target).replace(' ', '') in ('(i,sid)', 'i,sid'), 'C03.A1', fi, lp[0].iter if lp else 'loop',
              'requested spike i reads stored row sid, in request order', 'the loop does not pair request position i with stored row sid')
    mem = [x for x in fi.nodes(ast.Assert) if 'np.isin(spike_ids, spike_waveforms.spike_ids)' in unparse(x.test)]
    ctx.check(bool(mem), 'C03.A1', fi, mem[0] if mem else 'membership', 'spikes absent from the store are refused (the caller falls back to the raw data)', 'spikes absent from the store are not refused')


def a2_routes(ctx):
    repo = ctx.repo
    cls = repo.cls(M, 'TemplateModel')
    sw = repo.lookup_method(cls, 'save_spikes_subset_waveforms')
    ex = [c for c in sw.calls() if dotted(c.func) == 'export_waveforms']
    a = {unparse(x.targets[0]): unparse(x.value).replace(' ', '') for x in sw.nodes(ast.Assign) if isinstance(x.targets[0], ast.Name)}
    ok = bool(ex) and [unparse(x).replace(' ', '') for x in ex[0].args] == ['path', 'self.traces', 'self.spike_samples[spike_ids]', 'spike_channels'] and \
        a.get('spike_channels') == 'best_channels[self.spike_templates[spike_ids],:]'
    ctx.check(ok, 'C03.A2', sw, ex[0] if ex else 'export', 'the export gets the samples and the channel rows of the SAME spikes; a spike\'s channels are those of its template',
              'the subset export does not pass spike_samples[spike_ids] with best_channels[spike_templates[spike_ids]]')
    okk = bool(ex) and unparse(q.kwarg(ex[0], 'n_samples_waveforms')) == 'self.n_samples_waveforms' and unparse(q.kwarg(ex[0], 'sample2unit')) == 'sample2unit'
    ctx.check(okk, 'C03.A2', sw, ex[0] if ex else 'export', 'window length and unit factor are forwarded', 'n_samples_waveforms / sample2unit are not forwarded to the export')
    sv = {unparse(c.args[0]): unparse(c.args[1]) for c in sw.calls() if dotted(c.func) == 'np.save' and len(c.args) == 2}
    ctx.check(sv.get('path_spikes') == 'spike_ids' and sv.get('path_channels') == 'spike_channels', 'C03.A2', sw, 'store members', 'the store records the exported spike ids and their channel rows',
              'the spike-id / channel files do not hold spike_ids / spike_channels (%s)' % sv)
    S = Shape(repo, selfattrs=model_attrs(), sigs=COMMON_SIGS, inline_depth=1)
    # best channels table: one row per template
    bc = a.get('best_channels', '')
    ctx.check('self._template_n_channels(t,nc)fortinrange(self.n_templates)' in bc, 'C03.A2', sw, 'best channels', 'the channel table has one row per template id 0..n_templates-1',
              'the channel table is not built for every template id in order')
    gw = repo.lookup_method(cls, 'get_waveforms')
    br = [i for i in gw.nodes(ast.If) if unparse(i.test).replace(' ', '') == 'self.spike_waveformsisnotNone']
    okg = False
    if br:
        first = [c for c in ast.walk(br[0]) if isinstance(c, ast.Call) and dotted(c.func) == 'get_spike_waveforms']
        raw = [c for c in ast.walk(gw.node) if isinstance(c, ast.Call) and dotted(c.func) == 'extract_waveforms']
        okg = bool(first) and q.contains(br[0], first[0]) and len(raw) >= 1 and all([unparse(x) for x in c.args[:3]] == ['self.traces', 'spike_samples', 'channel_ids'] and
                                                                                      unparse(q.kwarg(c, 'n_samples_waveforms')) == 'nsw' for c in raw)
        okg = okg and [unparse(x) for x in first[0].args[:2]] == ['spike_ids', 'channel_ids'] and unparse(q.kwarg(first[0], 'spike_waveforms')) == 'self.spike_waveforms'
    ctx.check(okg, 'C03.A2', gw, br[0] if br else 'get_waveforms', 'get_waveforms reads the store when there is one, otherwise the raw window on the same channels and window length',
              'get_waveforms does not choose store / raw data on the same (spikes, channels, window length)')
    ssd = [x for x in gw.nodes(ast.Assign) if unparse(x.targets[0]) == 'spike_samples']
    ctx.check(bool(ssd) and all(unparse(x.value).replace(' ', '') == 'self.spike_samples[spike_ids]' for x in ssd), 'C03.A2', gw, ssd[0] if ssd else 'samples', 'raw windows are centred on spike_samples[spike_ids]',
              'raw windows are not centred on self.spike_samples[spike_ids]')
    ew = repo.func(TR, 'extract_waveforms')
    lp = ew.nodes(ast.For)
    oke = False
    if lp:
        i, ts = (unparse(x) for x in lp[0].target.elts) if isinstance(lp[0].target, ast.Tuple) else ('', '')
        c = [x for x in ast.walk(lp[0]) if isinstance(x, ast.Call) and dotted(x.func) == '_extract_waveform']
        st = [x for x in lp[0].body if isinstance(x, ast.Assign) and isinstance(x.targets[0], ast.Subscript)]
        oke = unparse(lp[0].iter).replace(' ', '') == 'enumerate(%s)' % ew.params[1] and bool(c) and unparse(c[0].args[1]) == ts and bool(st) and unparse(st[0].targets[0]).replace(' ', '') == 'out[%s]' % i and \
            unparse(q.kwarg(c[0], 'channel_ids')) == ew.params[2]
    ctx.check(oke, 'C03.A2', ew, lp[0] if lp else 'extract_waveforms', 'extract_waveforms: row i = window of spike i on the requested channels (spike order kept)', 'extract_waveforms does not fill row i with the window of spike i')


def run(ctx):
    ctx.part('C03.S1', s1_extract)
    ctx.part('C03.S2', s2_iter)
    ctx.part('C03.Y1', y1_writer)
    ctx.part('C03.A1', a1_store)
    ctx.part('C03.A2', a2_routes)


LEVEL_TEXT = ('Static check of the three waveform routes: symbolic window / padding formulas of _extract_waveform over all sign cases, the three '
              'dtype hazards (unsigned sample, list mask, header dtype vs bytes), chunk membership and mask sharing of the chunked extraction, '
              'order and unit factor of the .npy export, index spaces of the store lookup, and agreement of the arguments on the routes through '
              'the model.')
LEVEL_NOTE = ('Trusted: normal forms, NumPy transfer rules, C01.S2 for _find_chunks. Not decided: the compressed chunk iterator, sortedness, values.')
TECHNIQUE = 'static analysis: symbolic path walk with normal forms, index-space typing, and dtype-hazard rules on the ast'
