"""C11 - merging probes conserves every spike and renumbers ids disjointly.

Decided
  A1  every per-spike array written (spike_times, amplitudes, spike_templates, spike_clusters) is
      concatenate(<that file of every input, in input order>)[spike_order] with the ONE spike_order computed by a stable
      argsort of the concatenated spike times (helpers _concat / _load_multiple_* checked against that meaning)
  S1  offsets: the shift applied to probe k is the accumulator at the start of iteration k (initially 0), applied in
      place to the arrays that are later concatenated; the accumulator grows by at least max(unshifted ids of probe k) + 1
      (disjointness); the offset recorded for the metadata is the shift applied; the per-cluster probe table has value k
      on a block whose length is that increment; cluster metadata keys are shifted by the CLUSTER offsets of their probe
  F1  effects of Merger.merge: every write / delete / in-place map store is under the output directory; inputs are loaded
      without memory mapping
  +   the probe list the Merger iterates is the caller's list in the caller's order (not sorted / de-duplicated / reversed / filtered)
  +   the mapping that collects the re-keyed metadata rows of one file is created empty inside the per-file loop
  +   no metadata file is skipped on the state of a single probe (`self.subdirs[<constant>]`)
Not decided: tie order beyond "stable + probe order of concatenation"; dtype promotion of the in-place additions.
"""
import ast

from vlib import q, proto, fx
from vlib.proto import C, T, is_c, is_t, show, subterms
from vlib.symwalk import SymInterp
from vlib.sym import Lin, equal, NF
from vlib.fx import P, K, O, L, R, U, A
from vlib.fxmodel import make_fx, effect_sites, check_find_path_anchor
from vlib.pat import Pat, returned
from vlib.front import unparse, dotted, const_value, AnchorMissing

MG = 'phylib/io/merge.py'
FLOOR = 8          # decided obligations below this = the analysis lost its footing (exit 2); clean tree: 23
RULES = ('C11.A1', 'C11.F1', 'C11.S1')          # every obligation group must report (holds / violated / undecided): a group that vanishes silently is an analysis error
EXPLANATION = ('proto/sym walks of the Merger methods with the helper calls as uninterpreted pure terms: what is saved under each name is '
               'compared with concat(files in input order)[spike_order]; the loop body of write_spike_clusters is walked from a symbolic '
               'accumulator state and the recurrence / shift / recorded offset / probe-table block compared as normal forms; fx over '
               'Merger.merge (with the model load on the output) confines all effects to the output directory')
TRUSTED = ['python ast', 'np.concatenate / np.argsort(kind=stable) / fancy indexing semantics', 'effect primitive catalogue of vlib/fx.py']
ASSUMPTIONS = ['cluster and template ids are non-negative', 'input directories are distinct from the output directory']

PURE = {'_load_multiple_files', '_load_multiple_spike_times', '_load_multiple_spike_arrays', '_concat', 'np.max', 'np.min', 'np.ones', 'np.zeros',
        'np.argsort', 'np.concatenate', 'np.load', 'str', 'np.all', 'np.diff', 'zip', 'enumerate', 'len', 'range', 'np.arange', 'block_diag',
        '_read_tsv_simple', 'read_python', 'sum', 'np.empty', 'np.array', 'int.from_bytes', 'np.save', 'np.cumsum'}


class MI(SymInterp):
    def __init__(self, repo, **kw):
        super().__init__(repo, **kw)
        self.pure |= PURE

    def on_call(self, call, name, args, kwargs, st):
        if name in ('logger.debug', 'logger.info', 'logger.warning'):
            return [('ok', C(None), st)]
        return None

    def on_method(self, call, name, recv, args, kwargs, st):
        m = call.func.attr
        if m == '_save' and len(args) == 2:
            return [('ok', C(None), st.emit('save', args[0], args[1]))]
        if m in ('squeeze', 'astype', 'max', 'min', 'items', 'copy'):
            return [('ok', T('m', m, recv, *args), st)]
        if m in ('argsort', 'take') and not (is_t(recv) and recv[1] == 'mod'):
            # x.argsort(..) / x.take(..) are np.argsort(x, ..) / np.take(x, ..)
            return [('ok', T('call', 'np.' + m, C(0), recv, *(tuple(args) + tuple(T('kw', k_, v_) for k_, v_ in sorted(kwargs.items())))), st)]
        if m == 'append' and isinstance(call.func.value, ast.Attribute) and len(args) == 1:
            return [('ok', C(None), st.emit('append', recv, call.func.value.attr, args[0]))]
        if m == 'append' and isinstance(call.func.value, ast.Name) and len(args) == 1:
            return [('ok', C(None), st.emit('append', recv, call.func.value.id, args[0]))]
        return None


def _strip(t):
    if is_t(t) and t[1] == 'call':
        return T('call', t[2], *[_strip(x) for x in t[4:]])
    if is_t(t):
        return T(t[1], *[_strip(x) for x in t[2:]])
    return t


def _canon(t):
    """Normal form of a stripped term: np.take(a, i) / np.take(a, i, axis=0) is a[i]; a one-element `star(x)` stays."""
    if is_t(t):
        t = T(t[1], *[_canon(x) for x in t[2:]])
        if t[1] == 'call' and t[2] == 'np.take' and len(t) >= 5:
            kws = {a[2]: a[3] for a in t[5:] if is_t(a) and a[1] == 'kw'}
            pos = [a for a in t[5:] if not (is_t(a) and a[1] == 'kw')]
            ax = kws.get('axis', pos[0] if pos else C(0))
            if set(kws) <= {'axis'} and len(pos) <= 1 and ax == C(0):
                return T('index', t[3], t[4])
    return t


def _vocab(t, allowed):
    """True when every called function of the term is in `allowed`: the term is a DIFFERENT arrangement of known operations (a definite difference), not an
    unknown construct."""
    return all(not (is_t(x) and x[1] == 'call') or x[2] in allowed for x in subterms(t))


def _seq_arg(fi, lst):
    """How a caller passes the list `lst` of arrays to helper `fi`: unpacked when the helper takes *args, as it is otherwise."""
    return T('star', lst) if fi.vararg else lst


def _seq_param(fi):
    return T('param*', fi.vararg) if fi.vararg else T('param', fi.params[0])


def helpers(ctx):
    repo = ctx.repo
    # _concat: np.concatenate(arrs) along the first axis in the given order
    fc = repo.func(MG, '_concat')
    rv = [x for _, x in returned(fc)]
    ok = und = False
    bad_why = ''
    if rv:
        e = rv[-1]
        while isinstance(e, ast.Call) and q.method_name(e) == 'astype' and isinstance(e.func, ast.Attribute):
            e = e.func.value
        if isinstance(e, ast.Call) and dotted(e.func) in ('np.concatenate', 'np.hstack', 'np.r_') and e.args:
            ax = q.arg(e, 1, 'axis')
            same_order = unparse(e.args[0]) == fc.params[0] or Pat().any(['list(%s)' % fc.params[0], 'tuple(%s)' % fc.params[0]], e.args[0])
            ok = same_order and (ax is None or const_value(ax) == 0 or unparse(ax) == 'axis' and const_value(fc.defaults().get('axis')) == 0)
            if not ok:
                bad_why = unparse(e)
        else:
            und = True
    else:
        und = True
    if ok:
        ctx.holds('C11.A1', fc, '_concat joins the arrays along the first axis in the order given', rv[-1])
    elif und:
        ctx.undecided('C11.A1', fc, '_concat not in a recognised form')
    else:
        ctx.violated('C11.A1', fc, rv[-1], '_concat does not join its arguments along the first axis in the order given (`%s`)' % bad_why)
    # _load_multiple_files: [np.load(subdir / fn) ... for subdir in subdirs] in order, no memory map
    fl = repo.func(MG, '_load_multiple_files')
    rv = [x for _, x in returned(fl)]
    lcs = [x for x in rv if isinstance(x, ast.ListComp)]
    if not lcs:
        ctx.undecided('C11.A1', fl, '_load_multiple_files is not a list comprehension over the directories')
    else:
        lc = lcs[-1]
        g = lc.generators[0]
        loads = [c for c in ast.walk(lc.elt) if isinstance(c, ast.Call) and dotted(c.func) in ('np.load', 'read_array', '_read_array')]
        tv = unparse(g.target)
        path_ok = bool(loads) and loads[0].args and Pat().any(['str(%s / %s)' % (tv, fl.params[0]), '%s / %s' % (tv, fl.params[0]), 'os.path.join(%s, %s)' % (tv, fl.params[0]),
                                                              'Path(%s) / %s' % (tv, fl.params[0])], loads[0].args[0])
        iter_ok = Pat().m(fl.params[1], g.iter) and not g.ifs and len(lc.generators) == 1
        iter_bad = not iter_ok and (bool(g.ifs) or any(isinstance(n, ast.Call) and (dotted(n.func) or '') in ('sorted', 'reversed', 'set') for n in ast.walk(g.iter)) or
                                   (isinstance(g.iter, ast.Subscript) and fl.params[1] in q.names_in(g.iter)))
        if iter_ok and path_ok:
            ctx.holds('C11.A1', fl, 'the same file is loaded from every input directory, in the order of the directories', lc)
        elif iter_bad or (bool(loads) and loads[0].args and not path_ok and {n.id for n in ast.walk(loads[0].args[0]) if isinstance(n, ast.Name)} <= {tv, fl.params[0], 'str', 'Path', 'os'}):
            ctx.violated('C11.A1', fl, lc, '_load_multiple_files does not load <dir>/<file> for every directory in order (`%s`)' % unparse(lc)[:100])
        else:
            ctx.undecided('C11.A1', fl, '_load_multiple_files: comprehension not in a recognised form', lc)
        mm = q.kwarg(loads[0], 'mmap_mode') if loads else None
        if loads and (mm is None or const_value(mm) is None):
            ctx.holds('C11.F1', fl, 'input arrays are loaded into memory (no memory map): in-place arithmetic touches copies', loads[0])
        elif loads:
            ctx.violated('C11.F1', fl, loads[0], 'input arrays are memory-mapped (%s): in-place renumbering can reach the input files' % unparse(mm))
        else:
            ctx.undecided('C11.F1', fl, 'load call of _load_multiple_files not recognised')
    # _load_multiple_spike_times
    try:
        ft = repo.func(MG, '_load_multiple_spike_times')
    except AnchorMissing:
        ft = None
        ctx.undecided('C11.A1', MG + ':Merger.write_spike_times', 'the helper _load_multiple_spike_times no longer exists: how the merged spike order is computed was restructured and is not judged')
    if ft is not None:
        I = MI(repo, unroll=1, inline_depth=0)
        outs = I.run(ft)
        good = [val for kind, val, st in outs if kind == 'return']
        VOC = {'_concat', 'np.argsort', 'np.sort', 'np.lexsort', 'np.concatenate', 'np.flip', 'np.take', 'np.unique', 'np.arange', 'len', 'sorted'}
        okt, why, und = False, '', ''
        # a shortcut return of the identity order (`return concatenated, np.arange(n)`) is the stable argsort exactly when the concatenated times are non-decreasing: the guard
        # decides. np.diff on the on-disk dtype is the recognised wrong form (spike times are stored unsigned by KiloSort: the differences wrap and are never negative, so the
        # test always passes and the probes are concatenated instead of interleaved); an element-wise comparison of neighbours is the good form.
        ident = []
        for r_ in ft.returns():
            rv = r_.value
            if isinstance(rv, ast.Tuple) and len(rv.elts) == 2 and isinstance(ft.expand(rv.elts[1]), ast.Call) and dotted(ft.expand(rv.elts[1]).func) in ('np.arange', 'range'):
                ident.append(r_)
        for r_ in ident:
            tests = [i_.test if br_ == 'body' else ast.UnaryOp(op=ast.Not(), operand=i_.test) for i_, br_ in q.enclosing_ifs(ft, r_)]
            g_ok = g_bad = None
            for t_ in tests:
                tx = ft.expand(t_)
                if Pat().any(['np.all(np.diff(E_x) >= 0)', 'np.all(np.diff(E_x) > 0)', '(np.diff(E_x) >= 0).all()', 'not np.any(np.diff(E_x) < 0)', 'not (np.diff(E_x) < 0).any()',
                              'np.all(np.diff(E_x) >= 0, REST)', 'np.diff(E_x).min() >= 0', 'np.min(np.diff(E_x)) >= 0'], tx):
                    signed = any(isinstance(n_, ast.Call) and ((isinstance(n_.func, ast.Attribute) and n_.func.attr == 'astype') or dotted(n_.func) in ('np.int64', 'np.asarray', 'np.array') and
                                 any(k_.arg == 'dtype' for k_ in n_.keywords)) for n_ in ast.walk(tx))
                    if not signed:
                        g_bad = t_
                elif Pat().any(['np.all(E_x[1:] >= E_x[:-1])', 'np.all(E_x[:-1] <= E_x[1:])', '(E_x[1:] >= E_x[:-1]).all()', '(E_x[:-1] <= E_x[1:]).all()',
                                'not np.any(E_x[1:] < E_x[:-1])', 'not np.any(E_x[:-1] > E_x[1:])'], tx):
                    g_ok = t_
            if g_bad is not None:
                ctx.violated('C11.A1', ft, g_bad, 'the identity order is returned when `%s`: np.diff is taken in the stored dtype of the spike times, and differences of UNSIGNED times wrap '
                             'instead of becoming negative, so the test passes for interleaved probes too and their spikes are concatenated, not merged in time order' % unparse(g_bad)[:80])
            elif g_ok is not None:
                ctx.holds('C11.A1', ft, 'the identity order is returned only when every concatenated time is >= its predecessor (the stable argsort of a sorted array)', g_ok)
            else:
                ctx.undecided('C11.A1', ft, 'a return of the identity spike order under a condition that was not recognised', r_)
        for v in good:
            v = _canon(_strip(v))
            if ident and is_t(v) and v[1] == 'tuple' and len(v) == 4 and is_t(v[3]) and v[3][1] == 'call' and v[3][2] in ('np.arange', 'range'):
                continue
            if is_t(v) and v[1] == 'tuple' and len(v) == 4:
                times, order = v[2], v[3]
                cat = T('call', '_concat', _seq_param(ft))
                cats = (cat, T('call', '_concat', _seq_param(ft), T('kw', 'axis', C(0))))
                o_ok = is_t(order) and order[1] == 'call' and order[2] == 'np.argsort' and len(order) > 3 and order[3] in cats
                kws = {a[2]: a[3] for a in order[4:] if is_t(a) and a[1] == 'kw'} if is_t(order) else {}
                kinds = [kws['kind']] if 'kind' in kws else []
                stable = bool(kinds) and is_c(kinds[0]) and kinds[0][1] in ('stable', 'mergesort')
                t_ok = any(times == T('index', c_, order) for c_ in cats)
                okt = o_ok and stable and t_ok
                if not o_ok:
                    if _vocab(order, VOC):
                        why = 'the order is %s, not argsort of the concatenated times' % show(order)[:70]
                    else:
                        und = 'computation of the spike order `%s` not recognised' % show(order)[:70]
                elif not stable:
                    if not kinds or is_c(kinds[0]):
                        why = 'the argsort is not stable (kind=%s): simultaneous spikes are not kept in input order' % (show(kinds[0]) if kinds else 'default quicksort')
                    else:
                        und = 'sort kind `%s` not a constant' % show(kinds[0])
                elif not t_ok:
                    if _vocab(times, VOC):
                        why = 'the merged times are %s, not concatenated times[order]' % show(times)[:60]
                    else:
                        und = 'computation of the merged times `%s` not recognised' % show(times)[:60]
            else:
                und = '_load_multiple_spike_times does not return a pair (%s)' % show(v)[:60]
        if why:
            ctx.violated('C11.A1', ft, '_load_multiple_spike_times', why)
        elif okt and not und:
            ctx.holds('C11.A1', ft, 'spike_order = stable argsort of the concatenated spike times; merged times = concatenated[order]', '_load_multiple_spike_times')
        else:
            ctx.undecided('C11.A1', ft, und or 'no return of _load_multiple_spike_times was reached')
    fa = repo.func(MG, '_load_multiple_spike_arrays')
    outs = MI(repo, unroll=1, inline_depth=0).run(fa)
    good = [_canon(_strip(val)) for kind, val, st in outs if kind == 'return']
    op = T('param', 'spike_order') if 'spike_order' in fa.params + fa.kwonly else None
    wants = [T('index', T('call', '_concat', _seq_param(fa), T('kw', 'axis', C(0))), op), T('index', T('call', '_concat', _seq_param(fa)), op)]
    if op is not None and good and all(v in wants for v in good):
        ctx.holds('C11.A1', fa, 'per-spike arrays = concatenate(arrays)[spike_order]', '_load_multiple_spike_arrays')
    elif op is not None and good and any(v not in wants and _vocab(v, VOC) for v in good):
        b_ = [v for v in good if v not in wants and _vocab(v, VOC)][0]
        ctx.violated('C11.A1', fa, '_load_multiple_spike_arrays', '_load_multiple_spike_arrays returns %s, not concatenate(arrays)[spike_order]' % show(b_)[:70])
    else:
        ctx.undecided('C11.A1', fa, '_load_multiple_spike_arrays: returned value not recognised (%s)' % [show(v)[:70] for v in good][:1])


def a1_saved(ctx):
    repo = ctx.repo
    cls = repo.cls(MG, 'Merger')
    me = T('self')
    subdirs, order = T('attr', me, 'subdirs'), T('attr', me, 'spike_order')
    # write_spike_times
    f = repo.lookup_method(cls, 'write_spike_times')
    outs = MI(repo, unroll=1, inline_depth=0).run(f, env={f.params[0]: me})
    fa_ = repo.func(MG, '_load_multiple_spike_arrays')
    try:
        ft_ = repo.func(MG, '_load_multiple_spike_times')
    except AnchorMissing:
        ft_ = None
    VOCW = {'_load_multiple_spike_times', '_load_multiple_spike_arrays', '_load_multiple_files', '_concat', 'np.argsort', 'np.sort', 'np.take', 'np.concatenate', 'len', 'sorted'}
    ok = known_voc = False
    for kind, val, st in outs:
        sv = [e for e in st.trace if e[0] == 'save']
        so = [e for e in st.trace if e[0] == 'store' and e[2] == 'spike_order']
        if ft_ is not None and len(sv) == 1 and sv[0][1] == C('spike_times.npy') and so:
            src = T('call', '_load_multiple_spike_times', _seq_arg(ft_, T('call', '_load_multiple_files', C('spike_times.npy'), subdirs)))
            got_t, got_o = _strip(sv[0][2]), _strip(so[0][3])
            ok = got_t == T('item', src, C(0)) and got_o == T('item', src, C(1))
            known_voc = _vocab(got_t, VOCW) and _vocab(got_o, VOCW)
    if ok:
        ctx.holds('C11.A1', f, 'spike_times.npy = merged times of spike_times.npy of all inputs; self.spike_order = the matching order', 'write_spike_times')
    elif known_voc and ft_ is not None:
        ctx.violated('C11.A1', f, 'write_spike_times', 'write_spike_times does not save the merged times and register the matching order')
    else:
        ctx.undecided('C11.A1', f, 'write_spike_times: the saved times / registered order were not recognised')
    # write_spike_data
    f = repo.lookup_method(cls, 'write_spike_data')
    outs = MI(repo, unroll=2, inline_depth=0).run(f, env={f.params[0]: me})
    saved = {}
    bad, unk = [], []
    for kind, val, st in outs:
        for e in st.trace:
            if e[0] == 'save':
                name, arr = e[1], _strip(e[2])
                want = T('call', '_load_multiple_spike_arrays', _seq_arg(fa_, T('call', '_load_multiple_files', name, subdirs)), T('kw', 'spike_order', order))
                want_pos = T('call', '_load_multiple_spike_arrays', _seq_arg(fa_, T('call', '_load_multiple_files', name, subdirs)), order)
                if is_c(name):
                    good_ = arr == want or (arr == want_pos and not fa_.vararg and fa_.params[1:2] == ['spike_order'])
                    saved[name[1]] = good_
                    if not good_ and _vocab(arr, VOCW):
                        bad.append('%s is saved as %s' % (name[1], show(arr)[:80]))
                    elif not good_:
                        unk.append(name[1])
    if saved.get('amplitudes.npy') is True and not bad and not unk:
        ctx.holds('C11.A1', f, 'amplitudes.npy (and every other per-spike file of write_spike_data: %s) = concat(inputs)[spike_order]' % sorted(saved), 'write_spike_data')
    elif bad:
        ctx.violated('C11.A1', f, 'write_spike_data', bad[0])
    elif 'amplitudes.npy' not in saved and saved and not unk:
        ctx.violated('C11.A1', f, 'write_spike_data', 'amplitudes.npy is not written by write_spike_data (files: %s)' % sorted(saved))
    else:
        ctx.undecided('C11.A1', f, 'write_spike_data: what is saved under %s was not recognised' % (unk or 'amplitudes.npy'))


def s1_offsets(ctx):
    repo = ctx.repo
    cls = repo.cls(MG, 'Merger')
    f = repo.lookup_method(cls, 'write_spike_clusters')
    me = T('self')
    loops = f.nodes(ast.For)
    if not loops:
        ctx.undecided('C11.S1', f, 'no loop over the probes')
        return
    lp = loops[0]
    # names: which loop variables hold the cluster / template arrays?  (zip(self.subdirs, spike_clusters_l, spike_templates_l))
    src = {}
    for a in f.nodes(ast.Assign):
        if isinstance(a.value, ast.Call) and dotted(a.value.func) == '_load_multiple_files' and a.value.args:
            src[unparse(a.targets[0])] = const_value(a.value.args[0])
    it = lp.iter
    zipc = [c for c in ast.walk(it) if isinstance(c, ast.Call) and dotted(c.func) == 'zip']
    enum = isinstance(it, ast.Call) and dotted(it.func) == 'enumerate'
    if not zipc or not enum or not isinstance(lp.target, ast.Tuple):
        ctx.undecided('C11.S1', f, 'probe loop is not `for i, (..) in enumerate(zip(..))`', lp)
        return
    znames = [unparse(a) for a in zipc[0].args]
    ivar = unparse(lp.target.elts[0])
    tvars = [unparse(e) for e in lp.target.elts[1].elts] if isinstance(lp.target.elts[1], ast.Tuple) else []
    role = {}
    for zn, tv in zip(znames, tvars):
        if src.get(zn) == 'spike_clusters.npy':
            role['clu'] = tv
        if src.get(zn) == 'spike_templates.npy':
            role['tmp'] = tv
    reordered = any(isinstance(n, ast.Call) and (dotted(n.func) or '') in ('sorted', 'reversed') or (isinstance(n, ast.Subscript) and isinstance(n.slice, ast.Slice) and n.slice.step is not None)
                    for a_ in zipc[0].args for n in ast.walk(a_))
    if 'clu' in role and 'tmp' in role and not reordered:
        ctx.holds('C11.S1', f, 'the probe loop runs over (the spike_clusters, the spike_templates) of every probe, paired positionally in input order', lp.iter)
    elif reordered or (set(znames) & set(src) and len(set(znames) & set(src)) < 2 and len(src) >= 2):
        ctx.violated('C11.S1', f, lp.iter, 'the probe loop does not pair the spike_clusters of every probe with its own spike_templates in input order (%s)' % znames)
    else:
        ctx.undecided('C11.S1', f, 'operands of the probe loop not recognised (%s)' % znames, lp.iter)
    if 'clu' not in role or 'tmp' not in role:
        return
    # accumulators: names initialised to 0 before the loop and augmented in it
    accs = [a.target.id for a in lp.body if isinstance(a, ast.AugAssign) and isinstance(a.target, ast.Name) and isinstance(a.op, ast.Add)
            and a.target.id not in (role['clu'], role['tmp'])]
    inits = {unparse(t_): const_value(a.value) for a in f.body() if isinstance(a, ast.Assign) for t_ in a.targets}      # `a = b = 0` initialises both
    for acc in accs:
        ctx.check(inits.get(acc) == 0, 'C11.S1', f, acc, 'offset accumulator %s starts at 0' % acc, 'offset accumulator %s does not start at 0' % acc)
    SC, ST, i = T('SC'), T('ST'), T('i')
    env = {f.params[0]: me, role['clu']: SC, role['tmp']: ST, ivar: i}
    for acc in accs:
        env[acc] = T('acc', acc)
    for tv in tvars:
        env.setdefault(tv, T('var', tv))
    for n_ in [a for a in f.body() if isinstance(a, ast.Assign) and isinstance(a.value, ast.List)]:
        env[unparse(n_.targets[0])] = T('listvar', unparse(n_.targets[0]))
    binds = {T('call', 'np.max', C(0), SC): Lin.atom(('amaxC',)), T('call', 'np.max', C(0), ST): Lin.atom(('amaxT',)),
             T('m', 'max', SC): Lin.atom(('amaxC',)), T('m', 'max', ST): Lin.atom(('amaxT',)), SC: Lin.atom(('arrC',)), ST: Lin.atom(('arrT',))}
    for acc in accs:
        binds[T('acc', acc)] = Lin.atom(('acc', acc))
    I = MI(repo, unroll=1, inline_depth=0, binds=binds)
    I.fi_stack = [f]
    I._pending = []
    outs = I.block(lp.body, proto.State(env))
    ctx.analysed['paths'] += len(outs)
    inplace = {a.target.id for a in lp.body if isinstance(a, ast.AugAssign) and isinstance(a.target, ast.Name) and a.target.id in (role['clu'], role['tmp'])}
    for kind, val, st in outs:
        if kind != 'fall':
            continue
        nf = I.nf
        for which, arr, amax, off_attr in (('cluster', SC, 'amaxC', 'cluster_offsets'), ('template', ST, 'amaxT', 'template_offsets')):
            var = role['clu'] if which == 'cluster' else role['tmp']
            shifted = st.env.get(var)
            shift = nf(shifted) - nf(arr)
            # which accumulator is the shift?
            acc = [a for a in accs if equal(shift, Lin.atom(('acc', a)))]
            if not acc:
                ctx.violated('C11.S1', f, var, 'the %s ids of a probe are shifted by %s, which is not the offset accumulated over the previous probes' % (which, shift))
                continue
            a = acc[0]
            ctx.check(var in inplace, 'C11.S1', f, var, 'the %s ids are shifted in place, so the concatenated arrays carry the offset' % which,
                      'the shifted %s ids are bound to a new array: the arrays concatenated afterwards are unshifted and ids of different probes collide' % which)
            new = nf(st.env.get(a))
            inc = new - Lin.atom(('acc', a))
            need = Lin.atom((amax,)) + Lin.const(1)
            d = inc - need
            sg = I.sign(d)
            if equal(inc, need) or sg in ('0', '+', '>=0'):
                ctx.holds('C11.S1', f, 'the %s offset grows by %s >= max(unshifted ids) + 1: id ranges of different probes are disjoint' % (which, inc), a)
            else:
                ctx.violated('C11.S1', f, a, 'the %s offset grows by %s, expected at least max(unshifted ids of the probe) + 1 = %s: ids of consecutive probes can collide (or the maximum is taken after the shift)' % (which, inc, need))
            rec = [e for e in st.trace if e[0] == 'append' and e[2] == off_attr]
            okr = len(rec) == 1 and equal(nf(rec[0][3]), Lin.atom(('acc', a)))
            ctx.check(okr, 'C11.S1', f, off_attr, 'self.%s records, per probe, exactly the shift applied to its %s ids' % (off_attr, which),
                      'self.%s does not record the shift applied to the %s ids of the probe (recorded: %s)' % (off_attr, which, [show(e[3])[:40] for e in rec]))
            if which == 'cluster':
                blk = [e for e in st.trace if e[0] == 'append' and e[2] not in ('cluster_offsets', 'template_offsets')]
                okb = False
                whyb = 'no per-probe block appended to the cluster probe table'
                for e in blk:
                    v = e[3]
                    # i * np.ones(n_clu) | np.full(n_clu, i)
                    if is_t(v) and v[1] == 'Mult':
                        ones = [x for x in v[2:] if is_t(x) and x[1] == 'call' and x[2] == 'np.ones']
                        idx = [x for x in v[2:] if x == i]
                        if ones and idx:
                            ln = nf(ones[0][4])
                            okb = equal(ln, inc) or equal(ln, need)
                            whyb = 'block length %s differs from the number of ids reserved for the probe (%s)' % (ln, inc)
                        else:
                            whyb = 'probe table block is %s, not (probe index) * ones(number of cluster ids)' % show(v)[:60]
                    elif is_t(v) and v[1] == 'call' and v[2] == 'np.full' and len(v) >= 6:
                        okb = v[5] == i and (equal(nf(v[4]), inc) or equal(nf(v[4]), need))
                        whyb = 'np.full block does not hold the probe index on %s entries' % inc
                    else:
                        whyb = 'probe table block is %s' % show(v)[:60]
                ctx.check(okb, 'C11.S1', f, 'cluster_probes', 'cluster_probes holds the probe index k on one entry per cluster id reserved for probe k', whyb)
    # what is saved
    outs = MI(repo, unroll=1, inline_depth=0).run(f, env={f.params[0]: me})
    names = {}
    for kind, val, st in outs:
        for e in st.trace:
            if e[0] == 'save' and is_c(e[1]):
                names[e[1][1]] = _strip(e[2])
    order = T('attr', me, 'spike_order')
    for nm in ('spike_clusters.npy', 'spike_templates.npy'):
        arr = names.get(nm)
        fa_ = repo.func(MG, '_load_multiple_spike_arrays')
        lst = T('call', '_load_multiple_files', C(nm), T('attr', me, 'subdirs'))
        want = T('call', '_load_multiple_spike_arrays', _seq_arg(fa_, lst), T('kw', 'spike_order', order))
        want_pos = T('call', '_load_multiple_spike_arrays', _seq_arg(fa_, lst), order)
        VOCW = {'_load_multiple_spike_times', '_load_multiple_spike_arrays', '_load_multiple_files', '_concat', 'np.argsort', 'np.sort', 'np.take', 'np.concatenate', 'len', 'sorted'}
        if arr == want or (arr == want_pos and not fa_.vararg and fa_.params[1:2] == ['spike_order']):
            ctx.holds('C11.A1', f, '%s = concat(shifted inputs)[spike_order]' % nm, nm)
        elif arr is None and names:
            ctx.violated('C11.A1', f, nm, '%s is not saved by write_spike_clusters (saved: %s)' % (nm, sorted(names)))
        elif arr is not None and _vocab(arr, VOCW):
            ctx.violated('C11.A1', f, nm, '%s is saved as %s' % (nm, show(arr)[:90]))
        else:
            ctx.undecided('C11.A1', f, 'what write_spike_clusters saves as %s was not recognised (%s)' % (nm, show(arr)[:60] if arr is not None else 'nothing'))
    ctx.check('cluster_probes.npy' in names, 'C11.S1', f, 'cluster_probes.npy', 'the per-cluster probe table is saved', 'cluster_probes.npy is not saved')
    # write_cluster_data: keys shifted by the cluster offsets of their probe
    g = repo.lookup_method(cls, 'write_cluster_data')
    okz = undz = False
    node = None
    g_all = repo.transparent_closure(g)
    for lp2 in [l_ for f_ in g_all for l_ in f_.nodes(ast.For)]:
        if isinstance(lp2.iter, ast.Call) and dotted(lp2.iter.func) == 'zip':
            zs = [unparse(a) for a in lp2.iter.args]
            if 'self.subdirs' in zs:
                node = lp2
                okz = zs == ['self.subdirs', 'self.cluster_offsets'] and isinstance(lp2.target, ast.Tuple)
                undz = False
                if okz:
                    dv, ov = (unparse(x) for x in lp2.target.elts)
                    rd = [c for c in ast.walk(lp2) if isinstance(c, ast.Call) and dotted(c.func) == '_read_tsv_simple']
                    st_ = [a for a in ast.walk(lp2) if isinstance(a, ast.Assign) and isinstance(a.targets[0], ast.Subscript)]
                    items = [f for f in ast.walk(lp2) if isinstance(f, ast.For) and f is not lp2 and isinstance(f.iter, ast.Call) and q.method_name(f.iter) == 'items' and isinstance(f.target, ast.Tuple)]
                    upd = [c_ for c_ in ast.walk(lp2) if isinstance(c_, ast.Call) and q.method_name(c_) == 'update' and c_.args and isinstance(c_.args[0], (ast.GeneratorExp, ast.ListComp, ast.DictComp))]
                    if rd and upd and not st_:
                        ge_ = upd[0].args[0]
                        gt_ = ge_.generators[0].target
                        if isinstance(ge_, ast.DictComp):
                            kx, vx = ge_.key, ge_.value
                        else:
                            kx, vx = (ge_.elt.elts if isinstance(ge_.elt, ast.Tuple) and len(ge_.elt.elts) == 2 else (None, None))
                        if isinstance(gt_, ast.Tuple) and len(gt_.elts) == 2 and kx is not None and isinstance(ge_.generators[0].iter, ast.Call) and q.method_name(ge_.generators[0].iter) == 'items':
                            kv, vv = (unparse(x) for x in gt_.elts)
                            okz = dv in unparse(rd[0].args[0]) and Pat().m('%s + %s' % (kv, ov), kx) and unparse(vx) == vv
                        else:
                            undz = True
                    elif not rd or not st_ or not items:
                        undz = True
                    else:
                        kv, vv = (unparse(x) for x in items[0].target.elts)
                        okz = dv in unparse(g.expand(rd[0].args[0])) and Pat().m('%s + %s' % (kv, ov), g.expand(st_[0].targets[0].slice)) and unparse(st_[0].value) == vv
    # the mapping written for ONE file holds the rows of that file only: it is created empty inside the per-file loop (rows carried over from the previous file would be
    # written, re-keyed, into a file whose probe has no such row)
    if node is not None:
        f_home = [f_ for f_ in g_all if any(n_ is node for n_ in ast.walk(f_.node))][0]
        accs = {a_.targets[0].value.id for a_ in ast.walk(node) if isinstance(a_, ast.Assign) and isinstance(a_.targets[0], ast.Subscript) and isinstance(a_.targets[0].value, ast.Name)} | \
               {c_.func.value.id for c_ in ast.walk(node) if isinstance(c_, ast.Call) and q.method_name(c_) in ('update', 'setdefault') and isinstance(c_.func.value, ast.Name)}
        outer = [a_ for a_ in f_home.ancestors(node) if isinstance(a_, (ast.For, ast.While))]
        for acc in sorted(accs):
            inits = [a_ for a_ in f_home.nodes(ast.Assign) if any(isinstance(t_, ast.Name) and t_.id == acc for t_ in a_.targets) and
                     (isinstance(a_.value, ast.Dict) and not a_.value.keys or (isinstance(a_.value, ast.Call) and dotted(a_.value.func) in ('dict', 'OrderedDict', 'collections.OrderedDict') and not a_.value.args))]
            if not inits:
                ctx.undecided('C11.S1', f_home, 'creation of the mapping `%s` that collects the re-keyed rows not recognised' % acc)
                continue
            inside = [a_ for a_ in inits if outer and q.contains(outer[0], a_)]
            if not outer or inside:
                ctx.holds('C11.S1', f_home, 'the mapping written for one metadata file is created empty for that file', (inside or inits)[0])
            else:
                ctx.violated('C11.S1', f_home, inits[0], 'the mapping `%s` that collects the re-keyed rows is created once, outside the loop over the metadata files: rows of the previous file are '
                             'carried into the next one, so a cluster whose probe lacks that file gets another field\'s value' % acc)
    # a metadata file present in SOME probes is merged from the probes that have it: no skip of the whole file conditioned on ONE probe (subdirs[<constant>])
    if node is not None:
        f_home2 = [f_ for f_ in g_all if any(n_ is node for n_ in ast.walk(f_.node))][0]
        outer2 = [a_ for a_ in f_home2.ancestors(node) if isinstance(a_, (ast.For, ast.While))]
        skips = []
        for lp_ in outer2:
            for i_ in [x for x in ast.walk(lp_) if isinstance(x, ast.If) and not q.contains(node, x)]:
                jumps = any(isinstance(x, (ast.Continue, ast.Break, ast.Return)) for b_ in i_.body for x in ast.walk(b_))
                one_probe = any(isinstance(n_, ast.Subscript) and isinstance(n_.value, ast.Attribute) and n_.value.attr == 'subdirs' and isinstance(const_value(n_.slice), int) for n_ in ast.walk(i_.test))
                if jumps and one_probe:
                    skips.append(i_)
        if skips:
            ctx.violated('C11.S1', f_home2, skips[0].test, 'a metadata file is skipped altogether when ONE probe (`%s`) lacks it: the probes that do have it lose their rows in the merged dataset' % unparse(skips[0].test)[:70])
        elif outer2:
            ctx.holds('C11.S1', f_home2, 'no metadata file is skipped on the state of a single probe (files present in some probes are merged from those probes)', outer2[0])
    # positional pairing: the offsets of ALL probes are zipped with ALL probes (a filtered / re-ordered list of directories shifts every later probe to a wrong offset)
    misaligned = None
    for lp2 in g.nodes(ast.For):
        if isinstance(lp2.iter, ast.Call) and dotted(lp2.iter.func) == 'zip' and any(unparse(a) == 'self.cluster_offsets' for a in lp2.iter.args):
            for a in lp2.iter.args:
                if unparse(a) in ('self.cluster_offsets', 'self.subdirs'):
                    continue
                ax = g.expand(a)
                if isinstance(ax, (ast.ListComp, ast.GeneratorExp)) and 'self.subdirs' in unparse(ax.generators[0].iter) and ax.generators[0].ifs:
                    misaligned = (lp2, ax)
                elif isinstance(ax, ast.Call) and dotted(ax.func) in ('filter', 'sorted', 'reversed') and 'self.subdirs' in unparse(ax):
                    misaligned = (lp2, ax)
    if misaligned is not None:
        ctx.violated('C11.S1', g, misaligned[0].iter, 'the cluster offsets of all probes are zipped with a filtered / re-ordered list of the input directories (`%s`): after the first '
                     'probe that is left out, every probe gets the offset of another probe' % unparse(misaligned[1])[:90])
    elif node is None or (okz is False and undz):
        ctx.undecided('C11.S1', g, 're-keying loop of the cluster metadata not recognised')
    else:
        ctx.check(okz, 'C11.S1', g, node or 'write_cluster_data', 'per-cluster metadata of probe k is re-keyed with the cluster offset of probe k, values unchanged',
                  'cluster metadata is not re-keyed as id + cluster offset of its own probe')


def f1_effects(ctx):
    repo = ctx.repo
    cls = repo.cls(MG, 'Merger')
    f = make_fx(repo)
    obj = O(cls, {'subdirs': L([P('IN', '')], exact=False), 'out_dir': P('MOUT', ''), 'probe_info': U})
    fi = repo.lookup_method(cls, 'merge')
    f.run(fi, self_obj=obj)
    init = repo.lookup_method(cls, '__init__')
    obj2 = O(cls)
    f.run(init, self_obj=obj2, args=[L([P('IN', '')], exact=False), P('MOUT', ''), U])
    ctx.analysed['call_sites'] += f.calls_seen
    sites = effect_sites(f.effects)
    bad = 0
    for e, root, pat in sites:
        if root == 'MOUT':
            continue
        bad += 1
        what = {'write': 'writes', 'delete': 'deletes', 'mmap-write': 'modifies in place', 'mkdir': 'creates directory'}[e.kind]
        ctx.violated('C11.F1', e.fi, e.node, 'merging %s %s/%s, which is not under the output directory [%s; call chain %s]' % (what, root, pat, e.detail, e.chain()))
    if not bad:
        ctx.holds('C11.F1', fi, 'all %d write/delete/in-place effect sites of Merger.merge (model load of the output included) are under the output directory '
                  '(%d call sites interpreted)' % (len(sites), f.calls_seen), 'merge')
    if len(sites) >= 8:
        ctx.holds('C11.F1', fi, 'the effect analysis sees the writes of the merge (%d sites)' % len(sites), 'merge')
    else:
        ctx.undecided('C11.F1', fi, 'the effect analysis sees only %d write sites of merge: the steps are invoked in a form it does not follow' % len(sites))


def probe_order(ctx, rule):
    """Everything the Merger writes is "in input order": the list of probe directories it iterates (self.subdirs) is the caller's list, element by element, in the
    caller's order - not sorted, de-duplicated through a set, reversed or filtered. (Shared with C12: the block structure is per input probe.)"""
    repo = ctx.repo
    cls = repo.cls(MG, 'Merger')
    init = repo.lookup_method(cls, '__init__')
    if init is None:
        raise AnchorMissing('Merger.__init__')
    p = init.params[1] if len(init.params) > 1 else 'subdirs'
    stores = [a for f_ in [init] + [h_ for h_ in repo.transparent_closure(init) if h_ is not init] for a in f_.nodes(ast.Assign)
              if any(isinstance(t, ast.Attribute) and t.attr == 'subdirs' and isinstance(t.value, ast.Name) for t in a.targets)]
    later = [a for m_ in cls.methods.values() if m_.name != '__init__' for a in m_.nodes(ast.Assign)
             if any(isinstance(t, ast.Attribute) and t.attr == 'subdirs' and isinstance(t.value, ast.Name) and t.value.id == m_.self_name for t in a.targets)]
    if not stores:
        ctx.undecided(rule, init, 'the assignment of self.subdirs was not found')
        return
    a = stores[-1]
    x = init.expand(a.value)
    good = Pat().any(['[E_f(V_s) for V_s in %s]' % p, 'list(map(E_f, %s))' % p, 'list(%s)' % p, '[V_s for V_s in %s]' % p, 'tuple(E_f(V_s) for V_s in %s)' % p,
                      '[E_f(V_s) for V_s in list(%s)]' % p, p, 'tuple(%s)' % p, '[E_f(V_s).E_m() for V_s in %s]' % p, '[E_f(V_s).E_m for V_s in %s]' % p], x)
    calls = [dotted(c.func) or (q.method_name(c) or '') for c in ast.walk(x) if isinstance(c, ast.Call)]
    reorder = [c for c in calls if c in ('sorted', 'set', 'frozenset', 'reversed', 'np.unique', 'np.sort', 'dict.fromkeys', 'filter', 'natsorted', 'sort')] + \
        (['a set comprehension'] if any(isinstance(n, ast.SetComp) for n in ast.walk(x)) else []) + \
        (['a filter'] if any(isinstance(n, (ast.ListComp, ast.GeneratorExp)) and any(g.ifs for g in n.generators) for n in ast.walk(x)) else []) + \
        (['a reversing slice'] if any(isinstance(n, ast.Slice) and n.step is not None for n in ast.walk(x)) else [])
    inplace = [c for m_ in [init] for c in m_.calls() if q.method_name(c) in ('sort', 'reverse') and isinstance(c.func.value, ast.Attribute) and c.func.value.attr == 'subdirs']
    ctx.tri(bool(good) and not later and not inplace, bool(reorder) or bool(inplace) or bool(later), rule, init, (inplace or later or [a])[0],
            'the probes are merged in the order the caller listed them (self.subdirs is the given list, element by element)',
            'the list of probe directories is re-arranged (%s): probe k of the input no longer gets the k-th block / offset / label, and ties between probes are ordered differently' %
            (', '.join(reorder) or ('rewritten in %s' % (later[0].lineno if later else 'place'))),
            'how self.subdirs is derived from the given list (`%s`) was not recognised' % unparse(x)[:80])


def run(ctx):
    ctx.part('C11.A1', probe_order, 'C11.A1')
    ctx.part('C11.A1', helpers)
    ctx.part('C11.A1', a1_saved)
    ctx.part('C11.S1', s1_offsets)
    ctx.part('C11.F1', f1_effects)


LEVEL_TEXT = ('Static walks of the Merger: every per-spike file is concat(inputs in order)[one stable spike_order]; the id offsets are applied in '
              'place, equal the accumulator at the start of the iteration, grow by at least max(unshifted ids)+1 (disjointness), are the ones '
              'recorded for the metadata re-keying and match the per-cluster probe table blocks; effect analysis confines every write of merge() '
              'to the output directory and checks that inputs are not memory-mapped.')
LEVEL_NOTE = ('Trusted: np.concatenate / stable argsort / fancy-index semantics, effect catalogue. Not decided: tie order beyond stability, dtype '
              'promotion of in-place additions, values.')
TECHNIQUE = 'static analysis: symbolic walk of loop recurrences (normal forms), provenance of saved arrays, interprocedural effect analysis'
