"""C02 - lazy reader expressions commute with eager NumPy evaluation.

Decided (proto walk of the base reader with a heap model of lists, so that aliasing is visible):
  T1  the 14 operator methods of the statement exist on the base reader
  M1  deriving (every dunder, and _append_op itself) returns a NEW reader whose op list is a NEW list object
      holding the parent's ops followed by exactly one (op, arg) pair; the parent's list object and the parent's
      attributes are not written (no store, no in-place list mutation reachable through an alias)
  T2  dunder `__X__` records the op name X (unary: no argument) - T3 replay of op X on a block calls the block's
      own `__X__` with the recorded argument (no argument when None); 'cols' is arr[:, arg]
  T4  the op vocabulary is elementwise ndarray dunders + {cols}: this is why the expression commutes with row selection
  P1  replay folds over the op list left to right, threading the array
  P2  reader[:, cols] returns the derived reader; reader[rows, cols] records cols LAST, then reads rows and replays
Not decided: NumPy promotion rules, NotImplemented results of ndarray dunders.
"""
import ast

from vlib import q, proto
from vlib.proto import C, T, is_c, is_t, show, subterms
from vlib.front import unparse, dotted, const_value, AnchorMissing

TR = 'phylib/io/traces.py'
FLOOR = 8          # decided obligations below this = the analysis lost its footing (exit 2); clean tree: 22
RULES = ('C02.H1', 'C02.M1', 'C02.P2', 'C02.T1', 'C02.T2', 'C02.T3', 'C02.T4')          # every obligation group must report (holds / violated / undecided): a group that vanishes silently is an analysis error
REQUIRED = ['pos', 'neg', 'add', 'radd', 'sub', 'rsub', 'mul', 'rmul', 'truediv', 'rtruediv', 'floordiv', 'rfloordiv', 'pow', 'rpow']
ELEMENTWISE = set(REQUIRED) | {'div', 'rdiv', 'mod', 'rmod', 'abs', 'invert', 'and', 'rand', 'or', 'ror', 'xor', 'rxor',
                               'lshift', 'rlshift', 'rshift', 'rrshift', 'lt', 'le', 'gt', 'ge', 'eq', 'ne'}
UNARY = {'pos', 'neg', 'abs', 'invert'}
EXPLANATION = ('proto engine with a by-reference heap model of lists: every operator method of the base reader is walked from a state '
               'in which the parent holds two earlier ops; the returned object, its op list (identity and contents), the parent list and '
               'all stores to the parent are inspected; replay (_apply_ops/_apply_op) is walked for each op name of the vocabulary and '
               'compared with "call the block\'s own dunder of the same name"; __getitem__ is walked for the 2-tuple forms')
TRUSTED = ['python ast', 'copy.copy is a shallow copy', 'list model of vlib/proto.py', 'ndarray dunders of the vocabulary are elementwise']
ASSUMPTIONS = ['scalars as operands', 'backends implement _get_part as row selection (C01)']


class RI(proto.Interp):
    model_lists = True

    def __init__(self, repo, cls):
        super().__init__(repo, unroll=2, inline_depth=4)
        self.cls = cls
        for c in repo.mro(cls):
            for m in c.methods.values():
                if m.name not in ('_get_part',):
                    self.inline.add(m.node)
        for f in ('_apply_op',):
            if repo.has_func(TR, f):
                self.inline.add(repo.func(TR, f).node)

    def on_call(self, call, name, args, kwargs, st):
        if isinstance(call.func, ast.Name):
            v = st.env.get(call.func.id)
            if is_t(v) and v[1] == 'getattr':
                return [('ok', T('invoke', v, *args), st)]
        if isinstance(call.func, ast.Call) and (dotted(call.func.func) or '') == 'getattr':
            # getattr(arr, name)(args): the looked-up method is invoked at once, without a local in between
            out = []
            for fv, s2 in self.ev(call.func, st):
                out.append(('ok', T('invoke', fv, *args) if is_t(fv) and fv[1] == 'getattr' else T('call', name, C(0), *args), s2))
            return out
        if name == 'getattr' and len(args) >= 2:
            return [('ok', T('getattr', *args), st)]
        if name == 'len' and len(args) == 1 and is_t(self.deref(args[0], st)) and self.deref(args[0], st)[1] in ('tuple', 'list'):
            return [('ok', C(len(self.deref(args[0], st)) - 2), st)]
        if name in ('isinstance', 'len', 'slice', 'np.vstack', 'np.concatenate', '_get_subitems'):
            return [('ok', T('call', name, C(0), *[self.deref(a, st) for a in args]), st)]
        return None

    def on_method(self, call, name, recv, args, kwargs, st):
        if call.func.attr == '_get_part':
            return [('ok', T('part', recv, *args), st)]
        return None


def state0(me, symbolic=True):
    # symbolic op names (default): every comparison of an existing op with a literal forks, so special-casing of the pending ops is explored;
    # constant names are used by replay checks that need to recognise which dunder is invoked
    e0, e1 = (T('tuple', T('oldname0'), T('a0')), T('tuple', T('oldname1'), T('a1'))) if symbolic else (T('tuple', C('old0'), T('a0')), T('tuple', C('old1'), T('a1')))
    ref0 = T('ref', C(-1))
    heap = {(me, '_ops'): ref0, ref0: T('list', e0, e1)}
    return heap, ref0, (e0, e1)


def check_derivation(ctx, cls, fi, args, label, expect_pair):
    """Walk a deriving method; -> problems list."""
    repo = ctx.repo
    me = T('self')
    heap, ref0, old = state0(me)
    I = RI(repo, cls)
    env = {fi.params[0]: me}
    for p, a in zip(fi.params[1:], args):
        env[p] = a
    outs = I.run(fi, env=env, heap=heap)
    ctx.analysed['paths'] += len(outs)
    probs = []
    for kind, val, st in outs:
        if kind != 'return':
            probs.append('%s raises %s' % (label, val))
            continue
        if not (is_t(val) and val[1] == 'obj'):
            probs.append('%s returns %s, not a new reader derived from self' % (label, show(val)[:60]))
            continue
        # parent untouched
        if st.heap.get(ref0) != T('list', *old):
            probs.append('%s changes the op list of the reader it is derived from (now %s): the parent and its other children return different values' %
                         (label, show(st.heap.get(ref0))[:90]))
        if st.heap.get((me, '_ops')) != ref0:
            probs.append('%s rebinds the op list of the reader it is derived from' % label)
        for e in st.trace:
            if e[0] == 'store' and e[1] == me:
                probs.append('%s writes attribute %s of the reader it is derived from' % (label, e[2]))
        cref = st.heap.get((val, '_ops'))
        if cref == ref0:
            probs.append('%s: the derived reader shares the op list object of its parent' % label)
            continue
        content = st.heap.get(cref) if I._is_ref(cref) else cref
        if not (is_t(content) and content[1] in ('list', 'tuple')):
            # an op sequence held in a form the walk does not model (a call result, a generator) is not a wrong op sequence
            opaque = is_t(content) and any(is_t(x) and x[1] == 'call' for x in subterms(content))
            probs.append(('UNDECIDED ' if opaque else '') + '%s: op list of the derived reader is %s' % (label, show(content)[:60]))
            continue
        items = content[2:]
        if len(items) < 2 and tuple(items) == tuple(old[:len(items)]):
            # a NEW list holding a proper prefix of the parent's ops: an algebraic simplification (e.g. cancelling a double negation);
            # whether it preserves the value is an arithmetic question this rule does not decide
            probs.append('UNDECIDED %s: the derived reader drops trailing ops of its parent (algebraic simplification, not decided)' % label)
            continue
        if items[:2] != old or len(items) != 3:
            probs.append('%s: the derived reader holds ops %s, expected the parent\'s ops followed by one new op' % (label, [show(x)[:30] for x in items]))
            continue
        pair = items[2]
        if pair != expect_pair:
            probs.append('%s records %s, expected %s' % (label, show(pair), show(expect_pair)))
        # every other attribute of the parent is carried over unchanged (shallow copy)
    return probs, len(outs)


def entry_representation(repo):
    """How a pending op is recorded by _append_op: 'tuple' for the (name, argument) pair the walks model, otherwise the text of the recorded entry
    (a pre-bound callable such as methodcaller / partial / a lambda, an object ...). Closed-form policy applied to the data structure: the recording (M1, T2), replay
    (T3) and indexing (P2, C01.P1) walks compare terms built from (name, argument) pairs; another representation is not a wrong one, it is outside the model."""
    cls = repo.cls(TR, 'BaseEphysReader')
    ap = repo.lookup_method(cls, '_append_op')
    if ap is None:
        return 'tuple'
    me = T('self')
    heap, ref0, old = state0(me)
    I = RI(repo, cls)
    try:
        outs = I.run(ap, env={ap.params[0]: me, ap.params[1]: T('opname'), ap.params[2]: T('oparg')}, heap=heap)
    except Exception:
        return 'tuple'
    for kind, val, st in outs:
        if kind == 'return' and is_t(val) and val[1] == 'obj':
            cref = st.heap.get((val, '_ops'))
            content = st.heap.get(cref) if I._is_ref(cref) else cref
            if is_t(content) and content[1] in ('list', 'tuple') and len(content) >= 3:
                e = content[-1]
                if is_t(e) and e[1] == 'call' and not any(x == T('tuple', T('opname'), T('oparg')) for x in subterms(e)):
                    return show(e)[:80]
    return 'tuple'


def run(ctx):
    repo = ctx.repo
    cls = repo.cls(TR, 'BaseEphysReader')
    rep = entry_representation(repo)
    if rep != 'tuple':
        missing = [x for x in REQUIRED if repo.lookup_method(cls, '__%s__' % x) is None]
        ctx.check(not missing, 'C02.T1', cls, 'BaseEphysReader', 'all 14 operator methods of the statement are defined',
                  'operator methods missing on the base reader: %s' % ['__%s__' % m for m in missing])
        for r_ in ('C02.M1', 'C02.T2', 'C02.T3', 'C02.T4', 'C02.P2', 'C02.H1'):
            ctx.undecided(r_, cls.name, 'a pending op is recorded as `%s`, not as the (name, argument) pair the walks model: recording, replay and indexing are not decided' % rep)
        ctx.outside_model = 'pending ops are recorded as `%s`' % rep
        return
    # ---- T1
    missing = [x for x in REQUIRED if repo.lookup_method(cls, '__%s__' % x) is None]
    ctx.check(not missing, 'C02.T1', cls, 'BaseEphysReader', 'all 14 operator methods of the statement are defined',
              'operator methods missing on the base reader: %s' % ['__%s__' % m for m in missing])
    # ---- M1 on _append_op
    ap = repo.lookup_method(cls, '_append_op')
    if ap is None:
        raise AnchorMissing('BaseEphysReader._append_op')
    probs, n = check_derivation(ctx, cls, ap, (T('opname'), T('oparg')), '_append_op', T('tuple', T('opname'), T('oparg')))
    if probs:
        for pmsg in sorted(set(probs))[:3]:
            ctx.violated('C02.M1', ap, pmsg[:150], pmsg)
    else:
        ctx.holds('C02.M1', ap, 'returns a shallow copy with its own list = parent ops + [(op, arg)]; parent list and attributes untouched (%d paths)' % n, '_append_op')
    # ---- T2 (+M1) on every dunder
    vocab = []
    for c in repo.mro(cls):
        for name, m in c.methods.items():
            if name.startswith('__') and name.endswith('__') and name not in ('__init__', '__getitem__', '__len__', '__repr__', '__iter__'):
                x = name[2:-2]
                unary = len(m.params) == 1
                arg = T('param', m.params[1]) if not unary else C(None)
                probs, n = check_derivation(ctx, cls, m, (arg,) if not unary else (), name, T('tuple', C(x), arg))
                und = [p_ for p_ in probs if p_.startswith('UNDECIDED ')]
                probs = [p_ for p_ in probs if not p_.startswith('UNDECIDED ')]
                for p_ in sorted(set(und))[:1]:
                    ctx.undecided('C02.T2', m, p_[10:])
                if probs:
                    for pmsg in sorted(set(probs))[:2]:
                        ctx.violated('C02.T2', m, pmsg[:150], pmsg)
                else:
                    ctx.holds('C02.T2', m, '%s derives a new reader recording (%r, %s)' % (name, x, 'its operand' if not unary else 'None'), name)
                    vocab.append(x)
                if x in REQUIRED and unary != (x in UNARY):
                    ctx.violated('C02.T2', m, name, '%s takes %s operand' % (name, 'no' if unary else 'an'))
    # ---- T4 vocabulary
    bad = [x for x in vocab if x not in ELEMENTWISE]
    ctx.check(not bad, 'C02.T4', cls, 'op vocabulary', 'every deferred op is an elementwise ndarray operator (%d ops) or cols' % len(vocab),
              'deferred ops %s are not elementwise: they do not commute with selecting rows' % bad)
    # ---- T3 / P1 replay
    ao = repo.lookup_method(cls, '_apply_ops')
    if ao is None:
        raise AnchorMissing('BaseEphysReader._apply_ops')
    me = T('self')
    arr = T('block')
    nrep = 0
    rep_probs = []
    for x in sorted(set(vocab) | set(REQUIRED)) + ['cols']:
        for argv in ((T('a0'),) if x not in UNARY else (C(None),)):
            for second in ('mul',):
                ref0 = T('ref', C(-1))
                ops = T('list', T('tuple', C(x), argv), T('tuple', C(second), T('a1')))
                I = RI(repo, cls)
                nn = {('is',) + tuple(sorted([C(None), a], key=repr)): False for a in (T('a0'), T('a1'))}
                outs = I.run(ao, env={ao.params[0]: me, ao.params[1]: arr}, heap={(me, '_ops'): ref0, ref0: ops}, facts=nn)
                ctx.analysed['paths'] += len(outs)
                for kind, val, st in outs:
                    nrep += 1
                    if kind != 'return':
                        rep_probs.append('replay of op %r raises %s' % (x, val))
                        continue
                    if x == 'cols':
                        first = T('index', arr, T('tuple', T('slice', None, ':') if False else T('expr', ':'), argv))
                        exp1 = None
                    inner = None
                    # expected: invoke(getattr(invoke-or-index(...), '__mul__'), a1)
                    ok = is_t(val) and val[1] == 'invoke' and val[2][1] == 'getattr' and val[2][3] == C('__%s__' % second) and val[3:] == (T('a1'),)
                    if not ok:
                        rep_probs.append('replay of [(%r, a0), (%r, a1)] gives %s: the second op is not applied last as block.__%s__(a1)' % (x, second, show(val)[:90], second))
                        continue
                    inner = val[2][2]
                    if x == 'cols':
                        okc = is_t(inner) and inner[1] == 'index' and inner[2] == arr and is_t(inner[3]) and inner[3][1] == 'tuple' and inner[3][3] == argv \
                            and is_t(inner[3][2]) and inner[3][2] == T('slice3', C(None), C(None), C(None))
                        if not okc:
                            rep_probs.append("replay of ('cols', a0) gives %s, expected block[:, a0]" % show(inner)[:80])
                    else:
                        want_args = () if argv == C(None) else (argv,)
                        oki = is_t(inner) and inner[1] == 'invoke' and inner[2][1] == 'getattr' and inner[2][2] == arr and inner[2][3] == C('__%s__' % x) \
                            and inner[3:] == want_args
                        if not oki:
                            rep_probs.append('replay of (%r, %s) gives %s, expected block.__%s__(%s)' % (x, show(argv), show(inner)[:80], x, 'a0' if want_args else ''))
    if rep_probs:
        for pmsg in sorted(set(rep_probs))[:3]:
            ctx.violated('C02.T3', ao, pmsg[:150], pmsg)
    else:
        ctx.holds('C02.T3', ao, 'replay applies the ops in recording order, each as block.__<op>__(arg) (no argument when None), cols as block[:, arg] '
                  '(%d replays over the whole vocabulary)' % nrep, '_apply_ops')
    # ---- P2 / C01.P1 : __getitem__ 2-tuple forms
    gi = repo.lookup_method(cls, '__getitem__')
    if gi is None:
        raise AnchorMissing('BaseEphysReader.__getitem__')
    heap, ref0, old = state0(me)
    I = RI(repo, cls)
    rows, cols = T('rows'), T('cols')
    item = T('tuple', rows, cols)
    facts = {('truth', T('call', 'isinstance', C(0), item, T('name', 'tuple'))): True}
    for a in (T('a0'), T('a1'), cols):
        facts[('is',) + tuple(sorted([C(None), a], key=repr))] = False
    p2_cut = False
    try:
        outs = I.run(gi, env={gi.params[0]: me, gi.params[1]: item}, heap=heap, facts=facts)
    except proto.PathLimit as e_:
        ctx.undecided('C02.P2', gi, 'the walk of reader[rows, cols] exceeded its path budget (%s): nothing is concluded for this group' % e_)
        outs, p2_cut = [], True
    ctx.analysed['paths'] += len(outs)
    p2 = []
    n_clone = n_read = 0
    for kind, val, st in outs:
        if kind != 'return':
            continue
        # is rows the full slice on this path?
        full = None
        for k, v in st.facts.items():
            if k[0] == 'rel' and rows in k[1:] and any(is_t(x) and x[1] == 'call' and x[2] == 'slice' for x in k[1:]):
                full = (v == '=')
        is_slice = st.facts.get(('truth', T('call', 'isinstance', C(0), rows, T('name', 'slice'))))
        if is_slice is False:
            full = False
        if is_t(val) and val[1] == 'obj':
            n_clone += 1
            if full is not True:
                p2.append('reader[rows, cols] returns a reader although rows is not the full slice')
            cref = st.heap.get((val, '_ops'))
            content = st.heap.get(cref) if I._is_ref(cref) else cref        # a list on the heap, or a tuple value
            if not (is_t(content) and content[1] in ('list', 'tuple') and content[2:] == old + (T('tuple', C('cols'), cols),)):
                p2.append('reader[:, cols] returns a reader with ops %s, expected parent ops + (cols, cols)' % show(content)[:80])
            if st.heap.get(ref0) != T('list', *old):
                p2.append('reader[:, cols] modifies the op list of the reader itself')
        else:
            n_read += 1
            if full is True:
                p2.append('reader[:, cols] reads data instead of returning a derived reader')
            # expected shape: replay over ops+cols of vstack(parts of _get_subitems(part_bounds, rows))
            txt = show(val)
            last = val
            # outermost replayed op must be cols (recorded last)
            okc = is_t(last) and last[1] == 'index' and is_t(last[3]) and last[3][1] == 'tuple' and last[3][3] == cols
            if not okc:
                p2.append('reader[rows, cols] does not apply the column selection last (result %s)' % txt[:100])
            empty = 'call(np.vstack, 0, list)' in txt
            if empty:
                n_read -= 1        # the loop over the parts was unrolled 0 times on this path
            elif 'call(_get_subitems' not in txt or 'part(' not in txt or 'np.vstack' not in txt:
                p2.append('reader[rows, cols] does not read the parts given by _get_subitems and stack them (result %s)' % txt[:100])
            elif 'part_bounds' not in txt:
                p2.append('row splitting does not use part_bounds')
            elif not all(x[3:] and is_t(x[3]) and x[3][1] == 'item' and x[3][3] == C(0) and is_t(x[4]) and x[4][1] == 'item' and x[4][3] == C(1) and x[3][2] == x[4][2]
                         for x in subterms(val) if is_t(x) and x[1] == 'part'):
                p2.append('a part is not read with the (part index, sub-index) pair produced by _get_subitems, in that order')
            elif not all(x[2] != me for x in subterms(val) if is_t(x) and x[1] == 'part') and False:
                pass
            if st.heap.get(ref0) != T('list', *old):
                p2.append('reader[rows, cols] modifies the op list of the reader itself')
            for e in st.trace:
                if e[0] == 'store' and e[1] == me:
                    p2.append('reader[rows, cols] writes attribute %s of the reader itself' % e[2])
    if not n_clone and not p2_cut:
        p2.append('no path of reader[:, cols] returns a derived reader')
    if not n_read and not p2_cut:
        p2.append('no path of reader[rows, cols] reads data')
    if p2_cut:
        pass
    elif p2:
        for pmsg in sorted(set(p2))[:3]:
            ctx.violated('C02.P2', gi, pmsg[:150], pmsg)
    else:
        ctx.holds('C02.P2', gi, 'reader[:, cols] -> derived reader with cols recorded last; reader[rows, cols] -> replay(parent ops + cols) over '
                  'vstack of the parts of _get_subitems(part_bounds, rows); the reader itself is not modified (%d + %d paths)' % (n_clone, n_read), '__getitem__')
    # rows given as a slice test must be guarded (F01)
    for ifn in gi.nodes(ast.If):
        cj = q.conjuncts(ifn.test)
        for i, c in enumerate(cj):
            cmpn = q.simple_compare(c)
            if cmpn and cmpn[1] in ('==', '!=') and any(isinstance(x, ast.Call) and dotted(x.func) == 'slice' for x in (cmpn[0], cmpn[2])):
                other = cmpn[0] if not (isinstance(cmpn[0], ast.Call) and dotted(cmpn[0].func) == 'slice') else cmpn[2]
                guarded = any(isinstance(g, ast.Call) and dotted(g.func) == 'isinstance' and unparse(g.args[0]) == unparse(other) and
                              'slice' in unparse(g.args[1]) for g in cj[:i])
                ctx.check(guarded, 'C02.H1', gi, c, 'the row selector is compared with slice(None) only after it is known to be a slice',
                          '`%s` is evaluated in boolean context for any row selector: an index array makes the comparison ambiguous (ValueError)' % unparse(c))


LEVEL_TEXT = ('Static walk of every operator method, of replay and of the 2-tuple index forms of the base reader with a by-reference model of '
              'lists: derived readers are new objects with their own op list (parent ops + one pair), nothing reachable from the parent is '
              'written, op names recorded by `__X__` are replayed as the block\'s own `__X__`, ops are replayed in recording order with the '
              'column selection recorded last, and the vocabulary is elementwise.')
LEVEL_NOTE = ('Trusted: shallow-copy semantics of copy.copy, the list model, elementwise behaviour of the ndarray dunders in the vocabulary. '
              'Not decided: NumPy promotion / NotImplemented results.')
TECHNIQUE = 'static analysis: path-sensitive walk with heap (alias) model, must-not-mutate and name-agreement rules'
