"""C19 - event dispatch follows registration order, sender filters and silencing; progress reporter.

Decided (proto: abstract walks of the methods of EventEmitter and ProgressReporter):
  P2  connect appends one entry (event, sender, callback, options) at the END of the registry;
      unconnect is an order-preserving filter removing exactly the entries whose callback, sender or
      bound-method owner is among the given items; reset empties the registry
  P1  emit on a silenced emitter calls nothing
  P3-P6  emit over an abstract registry of 0..2 symbolic entries: the sequence of callback calls equals
      [matching non-'last' entries in order] + [matching 'last' entries in order], where an entry matches
      iff its event equals the emitted one and its sender is None or equals the emitting sender; each call
      is f(sender, *args, **kwargs-without-'single'); the result is the list of results in call order, or the
      first result right after the first call when `single` is requested
  P7  silent() sets the flag to the constant True for the body and restores the saved value afterwards
  R1  ProgressReporter: every public mutator, from every abstract pre-state, refines the 2-bit spec automaton
      (flag == not armed; `complete` emitted iff the spec announces); R2 the value / maximum are updated
  +   who may write the silence flag: only the constructor, set_silent and silent() (or private helpers reached from them only) - reset / connect / emit may not un-silence
  +   connect by name: the `on_` prefix is removed as a prefix (regex group / slice after startswith / removeprefix), not by lstrip / replace
Not decided: printing, callbacks that raise.
"""
import ast
import itertools

from vlib import q, proto
from vlib.proto import C, T, is_c, is_t, show, subterms
from vlib.front import unparse, dotted, const_value, AnchorMissing

M = 'phylib/utils/event.py'
FLOOR = 5          # decided obligations below this = the analysis lost its footing (exit 2); clean tree: 12
RULES = ('C19.P1', 'C19.P2', 'C19.P3', 'C19.P7', 'C19.R1')          # every obligation group must report (holds / violated / undecided): a group that vanishes silently is an analysis error
EXPLANATION = ('proto engine: the methods of EventEmitter are walked over an abstract registry of 0..2 symbolic '
               'entries (all outcomes of every test are explored, facts recorded per path); the observed callback-call '
               'sequence, arguments and return value are compared with the specification evaluated on the same facts, '
               'for every completion of the facts the code did not consult. ProgressReporter mutators are walked from '
               'both abstract pre-states with trichotomy facts on (value, maximum) and compared with the 2-bit monitor of DESIGN App. E')
TRUSTED = ['python ast', 'list / tuple / comprehension semantics as modelled in vlib/proto.py', 'contextlib.contextmanager protocol']
ASSUMPTIONS = ['callbacks return normally', 'registry entries are independent symbolic values (0..2 entries explored)']


class EvInterp(proto.Interp):
    PURE = ('get', 'getattr')

    def __init__(self, repo, cls, unroll=2):
        super().__init__(repo, unroll=unroll, inline_depth=3)
        self.cls = cls

    def on_fork(self, key, st):
        if key[0] == 'rel':
            return ['=', '<']
        return None

    def on_call(self, call, name, args, kwargs, st):
        if isinstance(call.func, ast.Name):
            v = st.env.get(call.func.id)
            if v is not None and any(is_t(x) and x[1] == 'cb' for x in subterms(v)):
                n, st = st.fresh()
                r = T('result', C(n), v)
                return [('ok', r, st.emit('call', v, tuple(args), tuple(sorted(kwargs.items())), r))]
        if name == 'getattr':
            return [('ok', T('getattr', *args), st)]
        if name in ('logger.log', 'logger.debug', 'logger.info', 'logger.warning', 'str', 'map', 'print'):
            return [('ok', T('ignored'), st)]
        return None

    def on_method(self, call, name, recv, args, kwargs, st):
        m = call.func.attr
        if m == 'get' and args:
            return [('ok', T('get', recv, *args), st)]
        if m == 'pop' and is_t(recv) and recv[1] in ('param**', 'without') and args and isinstance(call.func.value, ast.Name):
            s = st.copy()
            s.env[call.func.value.id] = T('without', recv, args[0])
            return [('ok', T('popped', recv, args[0]), s)]
        if m == 'append' and is_t(recv) and recv[1] == 'list' and len(args) == 1:
            new = T('list', *(recv[2:] + (args[0],)))
            s = st.copy()
            if isinstance(call.func.value, ast.Name):
                s.env[call.func.value.id] = new
                return [('ok', C(None), s)]
            if isinstance(call.func.value, ast.Attribute):
                for base, s1 in self.ev(call.func.value.value, st):
                    s1 = s1.copy()
                    s1.heap[(base, call.func.value.attr)] = new
                    return [('ok', C(None), s1.emit('store', base, call.func.value.attr, new))]
        if m in ('insert', 'extend', 'remove', 'sort', 'reverse', 'clear') and is_t(recv) and recv[1] == 'list':
            return [('ok', C(None), st.emit('opaque-mutation', m))]
        if m in ('join', 'items', 'format', 'match', 'group'):
            return [('ok', T('ignored'), st)]
        return None


def entry_term(i, layout):
    roles = {'event': T('ev', C(i)), 'sender': T('snd', C(i)), 'func': T('cb', C(i)), 'kwargs': T('opts', C(i))}
    return T('tuple', *[roles[r] for r in layout])


def walk_connect(ctx, cls):
    """P2 (connect): returns the layout of a registry entry as a list of roles."""
    repo = ctx.repo
    fi = repo.lookup_method(cls, 'connect')
    if fi is None:
        raise AnchorMissing('EventEmitter.connect')
    selfp = fi.params[0]
    I = EvInterp(repo, cls)
    me = T('self')
    old = T('list', T('old', C(0)), T('old', C(1)))
    env = {selfp: me}
    names = {}
    for p in fi.params[1:]:
        env[p] = T('param', p)
    if fi.kwarg:
        env[fi.kwarg] = T('param**', fi.kwarg)
    outs = I.run(fi, env=env, heap={(me, '_callbacks'): old}, facts={('is', *sorted([C(None), T('param', 'func')], key=repr)): False,
                                                                      ('is', *sorted([C(None), T('param', 'event')], key=repr)): False})
    ctx.analysed['paths'] += len(outs)
    layout = None
    bad = []
    n = 0
    for kind, val, st in outs:
        if kind != 'return':
            continue
        n += 1
        new = st.heap.get((me, '_callbacks'))
        if not (is_t(new) and new[1] == 'list'):
            bad.append('the registry is replaced by %s' % show(new)[:60])
            continue
        if new[2:4] != old[2:] or len(new) != 5:
            bad.append('connect does not append exactly one entry at the end of the registry (registry becomes %s)' % show(new)[:100])
            continue
        ent = new[4]
        if not (is_t(ent) and ent[1] == 'tuple'):
            # an entry built by a constructor the walk does not model (a record class, a dataclass) is not a wrong entry
            opaque = is_t(ent) and ent[1] in ('call', 'instance', 'new')
            bad.append(('UNDECIDED ' if opaque else '') + 'the appended entry is not a tuple (%s)' % show(ent)[:50])
            continue
        roles = []
        for comp in ent[2:]:
            if comp == T('param', 'event'):
                roles.append('event')
            elif comp == T('param', 'sender'):
                roles.append('sender')
            elif comp == T('param', 'func'):
                roles.append('func')
            elif comp == T('param**', fi.kwarg or 'kwargs'):
                roles.append('kwargs')
            else:
                roles.append('?' + show(comp)[:30])
        if sorted(roles) != ['event', 'func', 'kwargs', 'sender']:
            bad.append('the appended entry %s is not made of (event, sender, callback, options)' % roles)
            continue
        layout = roles
        if val != T('param', 'func'):
            bad.append('connect does not return the callback (decorator use would rebind the function to %s)' % show(val)[:40])
    if [b for b in bad if not b.startswith('UNDECIDED ')]:
        for b in sorted(set(b for b in bad if not b.startswith('UNDECIDED '))):
            ctx.violated('C19.P2', fi, b, b)
    elif bad:
        for b in sorted(set(bad))[:2]:
            ctx.undecided('C19.P2', fi, b[len('UNDECIDED '):])
    elif layout is None:
        ctx.undecided('C19.P2', fi, 'no path of connect(func, event=..) registers an entry')
    else:
        ctx.holds('C19.P2', fi, 'connect appends exactly one entry %s at the end and returns the callback (%d paths)' % (tuple(layout), n), 'connect')
    return layout


def _assignments(atoms):
    for vals in itertools.product([True, False], repeat=len(atoms)):
        yield dict(zip(atoms, vals))


def walk_unconnect(ctx, cls, layout):
    repo = ctx.repo
    fi = repo.lookup_method(cls, 'unconnect')
    if fi is None:
        raise AnchorMissing('EventEmitter.unconnect')
    me = T('self')
    I = EvInterp(repo, cls)
    k = 2
    entries = [entry_term(i, layout) for i in range(k)]
    items = T('param*', fi.vararg or 'items')
    outs = I.run(fi, env={fi.params[0]: me}, heap={(me, '_callbacks'): T('list', *entries)})
    ctx.analysed['paths'] += len(outs)
    bad = []
    for kind, val, st in outs:
        if kind != 'return':
            continue
        new = st.heap.get((me, '_callbacks'))
        if not (is_t(new) and new[1] == 'list'):
            bad.append('unconnect leaves the registry as %s' % show(new)[:60])
            continue
        # atoms per entry: f in items, sender in items, owner in items
        def atoms_of(i):
            f, s_ = T('cb', C(i)), T('snd', C(i))
            owner = T('getattr', f, C('__self__'), C(None))
            return [('in', f, items), ('in', s_, items), ('in', owner, items)]
        known = {}
        unknown = []
        for i in range(k):
            for a in atoms_of(i):
                if a in st.facts:
                    known[a] = st.facts[a]
                else:
                    unknown.append(a)
        for asg in _assignments(unknown):
            full = dict(known)
            full.update(asg)
            expect = [entries[i] for i in range(k) if not any(full[a] for a in atoms_of(i))]
            if list(new[2:]) != expect:
                w = ', '.join('%s %s items' % (show(a[1])[:28], 'in' if v else 'not in') for a, v in sorted(full.items(), key=repr))
                bad.append('with [%s] the registry after unconnect is %s, expected %s' %
                           (w, [show(x[2 + layout.index('func')]) for x in new[2:]], [show(x[2 + layout.index('func')]) for x in expect]))
                break
    if bad:
        ctx.violated('C19.P2', fi, sorted(set(bad))[0][:200], 'unconnect is not the order-preserving filter on callback / sender / bound-method owner: ' + sorted(set(bad))[0])
    else:
        ctx.holds('C19.P2', fi, 'unconnect keeps, in order, exactly the entries whose callback, sender and bound-method owner are all outside the '
                  'given items (%d paths over a 2-entry registry)' % len(outs), 'unconnect')
    # reset
    fr = repo.lookup_method(cls, 'reset')
    if fr is None:
        raise AnchorMissing('EventEmitter.reset')
    outs = EvInterp(repo, cls).run(fr, env={fr.params[0]: me}, heap={(me, '_callbacks'): T('list', *entries)})
    ok = all(st.heap.get((me, '_callbacks')) == T('list') for kind, val, st in outs if kind == 'return')
    ctx.check(ok and bool(outs), 'C19.P2', fr, 'reset', 'reset empties the registry', 'reset does not leave an empty registry')


def registry_kind(repo, cls):
    """'list' when the registry the walks model (self._callbacks, a list of entries) is what reset / the constructor create; otherwise the text of the constructor
    (a dict of lists, a deque, ...): the abstract registry of 0..2 list entries then does not represent the data structure and P2 / P3 are not decided."""
    vals = []
    for nm in ('reset', '__init__'):
        m = repo.lookup_method(cls, nm)
        if m is None:
            continue
        for a in m.nodes(ast.Assign):
            if any(isinstance(t, ast.Attribute) and t.attr == '_callbacks' for t in a.targets):
                vals.append(m.expand(a.value))
    # entries registered in another attribute than the modelled one (the registry split in two lists, ...): not the modelled data structure either
    con = repo.lookup_method(cls, 'connect')
    if con is not None:
        attrs = set()
        for c in con.calls():
            if isinstance(c.func, ast.Attribute) and c.func.attr in ('append', 'insert', 'extend', 'add'):
                recv = con.expand(c.func.value)
                attrs |= {n.attr for n in ast.walk(recv) if isinstance(n, ast.Attribute) and isinstance(n.value, ast.Name) and n.value.id == con.params[0]}
        extra = sorted(a_ for a_ in attrs if a_ != '_callbacks' and a_.startswith('_'))
        if extra:
            return 'entries are also registered in %s' % ', '.join('self.' + a_ for a_ in extra)
    if not vals:
        return None
    other = [v for v in vals if isinstance(v, (ast.Dict, ast.Set, ast.DictComp, ast.SetComp)) or
             (isinstance(v, ast.Call) and (dotted(v.func) or '').split('.')[-1] in ('dict', 'defaultdict', 'OrderedDict', 'deque', 'set', 'frozenset', 'Counter'))]
    # only a recognised OTHER container switches the model off; anything else (a list, or a value derived from the registry itself) is walked as a list
    return unparse(other[0]) if other else 'list'


def walk_emit(ctx, cls, layout, only_p1=False):
    repo = ctx.repo
    fi = repo.lookup_method(cls, 'emit')
    if fi is None:
        raise AnchorMissing('EventEmitter.emit')
    me = T('self')
    selfp, evp, sndp = fi.params[0], fi.params[1], fi.params[2]
    event, sender = T('param', evp), T('param', sndp)
    kwp = fi.kwarg or 'kwargs'
    varp = fi.vararg or 'args'
    # ---- P1: silenced
    I = EvInterp(repo, cls)
    ent = [entry_term(0, layout)]
    outs = I.run(fi, env={selfp: me}, heap={(me, '_callbacks'): T('list', *ent), (me, 'is_silent'): C(True)})
    ctx.analysed['paths'] += len(outs)
    calls = [e for kind, val, st in outs for e in st.trace if e[0] == 'call']
    ctx.check(not calls and bool(outs), 'C19.P1', fi, 'emit', 'a silenced emitter calls no callback (%d paths)' % len(outs),
              'emit calls a registered callback although the emitter is silenced')
    if only_p1:
        return
    # ---- P3..P6
    problems, lost = {}, {}
    gen_seen = set()
    total = 0
    kmax = ctx.bound(2, 3)
    for k in range(kmax + 1):
        entries = [entry_term(i, layout) for i in range(k)]
        I = EvInterp(repo, cls, unroll=kmax)
        outs = I.run(fi, env={selfp: me}, heap={(me, '_callbacks'): T('list', *entries), (me, 'is_silent'): C(False)})
        ctx.analysed['paths'] += len(outs)
        total += len(outs)
        for kind, val, st in outs:
            gen_seen |= {e[1] for e in st.trace if e[0] == 'generator'}
            if kind != 'return':
                problems.setdefault('emit raises %s' % val, 1)
                continue
            kw0 = T('param**', kwp)
            single_atom = ('truth', T('popped', kw0, C('single')))
            if any(is_t(x) and x[1] == 'popped' and x[3] != C('single') for e in st.trace for x in subterms(e)):
                problems.setdefault('emit removes another keyword than `single` from the keyword arguments', 1)

            def atoms_of(i):
                e_i, s_i, o_i = T('ev', C(i)), T('snd', C(i)), T('opts', C(i))
                a_last = ('truth', T('get', o_i, C('last'), C(None)))
                a_last2 = ('truth', T('get', o_i, C('last')))
                a_ev = ('rel',) + tuple(sorted([e_i, event], key=repr))
                a_none = ('is',) + tuple(sorted([s_i, C(None)], key=repr))
                a_snd = ('rel',) + tuple(sorted([s_i, sender], key=repr))
                return a_last, a_last2, a_ev, a_none, a_snd
            known, unknown = {}, []
            for i in range(k):
                a_last, a_last2, a_ev, a_none, a_snd = atoms_of(i)
                if a_last2 in st.facts and a_last not in st.facts:
                    st.facts[a_last] = st.facts[a_last2]
                for a in (a_last, a_ev, a_none, a_snd):
                    if a in st.facts:
                        v = st.facts[a]
                        known[a] = (v == '=') if a[0] == 'rel' else v
                    else:
                        unknown.append(a)
            if single_atom in st.facts:
                known[single_atom] = st.facts[single_atom]
            else:
                unknown.append(single_atom)
            code_calls = [e for e in st.trace if e[0] == 'call']
            for asg in _assignments(unknown):
                full = dict(known)
                full.update(asg)

                def match(i):
                    a_last, _, a_ev, a_none, a_snd = atoms_of(i)
                    return full[a_ev] and (full[a_none] or full[a_snd])
                order = [i for i in range(k) if not full[atoms_of(i)[0]]] + [i for i in range(k) if full[atoms_of(i)[0]]]
                exp = [i for i in order if match(i)]
                single = full[single_atom]
                if single and exp:
                    exp = exp[:1]
                got = [e[1][2][1] if is_t(e[1]) and e[1][1] == 'cb' else '?' for e in code_calls]
                wit = '; '.join('entry %d: last=%s event %s sender %s' % (i, full[atoms_of(i)[0]], '==' if full[atoms_of(i)[2]] else '!=',
                                                                         'None' if full[atoms_of(i)[3]] else ('== emitter' if full[atoms_of(i)[4]] else '!= emitter')) for i in range(k))
                wit += '; single=%s' % single
                if '?' in got and any(is_t(x) and x[1] in ('elem', 'comp') for e in code_calls if not (is_t(e[1]) and e[1][1] == 'cb') for x in subterms(e[1])):
                    # the callee comes out of a sequence the walk did not follow element by element: nothing is concluded
                    lost.setdefault('a called object is %s: an element of a sequence the walk does not follow' % show([e[1] for e in code_calls if not (is_t(e[1]) and e[1][1] == 'cb')][0])[:60], 1)
                    break
                if got != exp:
                    problems.setdefault('callbacks called: entries %s, expected entries %s  [%s]' % (got, exp, wit), 1)
                    break
                # arguments
                for e in code_calls:
                    args, kws = e[2], dict(e[3])
                    okargs = len(args) == 2 and args[0] == sender and args[1] == T('star', T('param*', varp))
                    okkw = set(kws) == {'**'} and kws['**'] == T('without', kw0, C('single'))
                    if not okargs:
                        problems.setdefault('a callback is called with positional arguments (%s), expected (sender, *args)' % ', '.join(show(a) for a in args)[:80], 1)
                    if not okkw:
                        problems.setdefault('a callback is called with keyword arguments %s, expected **kwargs without `single`' %
                                            {k_: show(v)[:50] for k_, v in kws.items()}, 1)
                # return value
                results = [e[4] for e in code_calls]
                if single and exp:
                    if val != results[0]:
                        problems.setdefault('with single=True emit returns %s, expected the first result [%s]' % (show(val)[:60], wit), 1)
                else:
                    if val != T('list', *results):
                        problems.setdefault('emit returns %s, expected the list of results in call order [%s]' % (show(val)[:80], wit), 1)
    if lost and not gen_seen:
        for msg in list(lost)[:2]:
            ctx.undecided('C19.P3', fi, msg)
    elif gen_seen:
        ctx.undecided('C19.P3', fi, 'emit dispatches through the generator %s: lazy evaluation interleaved with its consumer is not modelled by the walk' % ', '.join(sorted(gen_seen)))
    elif problems:
        for msg in list(problems)[:4]:
            ctx.violated('C19.P3', fi, msg[:160], msg)
    else:
        ctx.holds('C19.P3', fi, 'over registries of 0..%d symbolic entries (%d paths, every completion of unconsulted facts): call sequence == '
                  'matching non-last entries then matching last entries, in registration order; match == same event and (no sender filter or '
                  'same sender); arguments (sender, *args, **kwargs - single); results in call order; single -> first result after one call' % (kmax, total), 'emit')


class SilentInterp(EvInterp):
    def on_method(self, call, name, recv, args, kwargs, st):
        # a method called on the emitter from another object's method (the context-manager class): dispatched on the emitter's class
        if recv == T('self') and self.fi_stack and self.fi_stack[-1].cls is not self.cls and len(self.fi_stack) < 6:
            m_ = self.repo.lookup_method(self.cls, call.func.attr)
            if m_ is not None:
                return self.call_function(m_, args, kwargs, st, recv=recv)
        return super().on_method(call, name, recv, args, kwargs, st) if hasattr(super(), 'on_method') else None

    def ev_Yield(self, e, st):
        me = T('self')
        return [(C(None), st.emit('yield-state', st.heap.get((me, 'is_silent'), T('unset'))))]


def walk_silent(ctx, cls):
    repo = ctx.repo
    fi = repo.lookup_method(cls, 'silent')
    if fi is None:
        raise AnchorMissing('EventEmitter.silent')
    me = T('self')
    probs = []
    n = 0
    # class-based form: silent() returns an instance of a repo class with __enter__ / __exit__ - constructor, __enter__ and __exit__ are walked in that order
    rets_ = [r_.value for r_ in fi.returns() if r_.value is not None]
    mgr = None
    if not fi.yields() and len(rets_) == 1 and isinstance(rets_[0], ast.Call) and isinstance(rets_[0].func, ast.Name) and rets_[0].func.id in fi.module.classes:
        mgr = fi.module.classes[rets_[0].func.id]
    if mgr is not None and repo.lookup_method(mgr, '__enter__') is not None and repo.lookup_method(mgr, '__exit__') is not None:
        init_, ent_, ex_ = (repo.lookup_method(mgr, m_) for m_ in ('__init__', '__enter__', '__exit__'))
        ob = T('obj', C(0), T('mgr'))
        simple_args = all(isinstance(a_, ast.Name) and a_.id == fi.params[0] for a_ in rets_[0].args) and not rets_[0].keywords
        if not simple_args or init_ is None or len(init_.params) != 1 + len(rets_[0].args):
            ctx.undecided('C19.P7', fi, 'silent() returns `%s`: construction of the context manager not recognised' % unparse(rets_[0])[:60])
        else:
            bad_, n_ = [], 0
            for s0 in (C(False), C(True)):
                I_ = SilentInterp(repo, cls)
                I_.inline_depth = 4
                for c_ in (cls, mgr):
                    for m_ in c_.methods.values():
                        I_.inline.add(m_.node)
                heaps = [{(me, 'is_silent'): s0}]
                for step, f_, extra in (('init', init_, [me] * len(rets_[0].args)), ('enter', ent_, []), ('exit', ex_, [C(None)] * 3)):
                    nxt = []
                    for h_ in heaps:
                        env_ = {f_.params[0]: ob}
                        for p_, a_ in zip(f_.params[1:], extra):
                            env_[p_] = a_
                        for kind, val, st in I_.run(f_, env=env_, heap=h_):
                            if kind == 'raise':
                                bad_.append('%s of the context manager raises' % step)
                                continue
                            n_ += 1
                            if step == 'enter' and st.heap.get((me, 'is_silent')) != C(True):
                                bad_.append('inside `with silent():` entered with is_silent=%s the flag is %s: dispatch is not silenced' % (show(s0), show(st.heap.get((me, 'is_silent')))))
                            if step == 'exit' and st.heap.get((me, 'is_silent')) != s0:
                                bad_.append('after `with silent():` entered with is_silent=%s the flag is %s, not the saved value' % (show(s0), show(st.heap.get((me, 'is_silent')))))
                            if step == 'exit' and val not in (C(None), C(False)):
                                bad_.append('__exit__ returns %s: exceptions raised in the silenced block are swallowed' % show(val)[:30]) if is_c(val) and val[1] else None
                            nxt.append(dict(st.heap))
                    heaps = nxt or heaps
            if bad_:
                for p_ in sorted(set(bad_)):
                    ctx.violated('C19.P7', fi, p_, p_)
            else:
                ctx.holds('C19.P7', fi, 'silent() returns a context manager (%s) whose __enter__ sets is_silent to True and whose __exit__ restores the value read on entry, from both pre-states (%d paths)' % (mgr.name, n_), 'silent')
        _flag_writers(ctx, repo, cls, fi, extra_allowed=set())
        return
    for s0 in (C(False), C(True)):
        outs = SilentInterp(repo, cls).run(fi, env={fi.params[0]: me}, heap={(me, 'is_silent'): s0})
        ctx.analysed['paths'] += len(outs)
        for kind, val, st in outs:
            ys = [e for e in st.trace if e[0] == 'yield-state']
            n += 1
            if len(ys) != 1:
                probs.append('silent() yields %d times' % len(ys))
                continue
            if ys[0][1] != C(True):
                probs.append('inside `with silent():` entered with is_silent=%s the flag is %s: dispatch is not silenced' % (show(s0), show(ys[0][1])))
            if st.heap.get((me, 'is_silent')) != s0:
                probs.append('after `with silent():` entered with is_silent=%s the flag is %s, not the saved value' % (show(s0), show(st.heap.get((me, 'is_silent')))))
    if 'contextmanager' not in ' '.join(fi.decorators):
        probs.append('silent() is not a context manager')
    if probs:
        for p in sorted(set(probs)):
            ctx.violated('C19.P7', fi, p, p)
    else:
        ctx.holds('C19.P7', fi, 'silent() sets is_silent to True for its body and restores the previous value, from both pre-states (%d paths)' % n, 'silent')
    _flag_writers(ctx, repo, cls, fi)


def _flag_writers(ctx, repo, cls, fi, extra_allowed=()):
    # who may write the flag: "calls nothing while silenced" holds over histories only if no other operation of the history alphabet (connect, unconnect, reset, emit)
    # rewrites it. Stores are allowed in the constructor, set_silent and silent(), and in private helpers reached from those only.
    allowed = {'__init__', 'set_silent', 'silent'}
    methods = {m.name: m for c in repo.mro(cls) if c.module.rel == M for m in c.methods.values()}
    writers = {}
    for m in methods.values():
        for n_ in ast.walk(m.node):
            if isinstance(n_, ast.Attribute) and isinstance(n_.ctx, (ast.Store, ast.Del)) and n_.attr == 'is_silent' and isinstance(n_.value, ast.Name) and n_.value.id == m.self_name:
                writers.setdefault(m.name, n_)
            if isinstance(n_, ast.Call) and dotted(n_.func) == 'setattr' and len(n_.args) >= 2 and const_value(n_.args[1]) == 'is_silent':
                writers.setdefault(m.name, n_)

    def callers(name):
        return {m.name for m in methods.values() for c in m.calls() if q.method_name(c) == name and isinstance(c.func.value, ast.Name) and c.func.value.id == m.self_name}
    stray = []
    for w, node in sorted(writers.items()):
        if w in allowed:
            continue
        reach, work = set(), [w]
        while work:
            x = work.pop()
            for c_ in callers(x):
                if c_ not in reach:
                    reach.add(c_)
                    work.append(c_)
        public = not w.startswith('_') or any(not r.startswith('_') and r not in allowed for r in reach) or not reach
        if public:
            stray.append((w, node))
    if stray:
        for w, node in stray:
            ctx.violated('C19.P7', methods[w], node, '%s() rewrites the silence flag: a history that silences the emitter and then goes through %s() dispatches callbacks although it is silenced' % (w, w))
    elif writers:
        ctx.holds('C19.P7', fi, 'the silence flag is written only by %s: no other operation of a history can un-silence the emitter' % ', '.join(sorted(writers)), 'is_silent')
    else:
        ctx.undecided('C19.P7', fi, 'no store to the silence flag found')


# ---------------------------------------------------------------------------------------------- reporter
class PRInterp(proto.Interp):
    def __init__(self, repo, cls):
        super().__init__(repo, unroll=1, inline_depth=5)
        self.cls = cls
        for c in repo.mro(cls):
            for m in c.methods.values():
                self.inline.add(m.node)

    def on_call(self, call, name, args, kwargs, st):
        tg = self.repo.resolve_call(self.fi_stack[-1], call, virtual=False)
        if (len(tg) == 1 and tg[0].name == 'emit') or name == 'emit':
            return [('ok', T('list'), st.emit('emit', args[0] if args else None, tuple(args[1:])))]
        if name.startswith('super'):
            return [('ok', C(None), st)]
        return None

    def on_attr_load(self, node, base, st):
        if base == T('self'):
            p = self.repo.lookup_prop(self.cls, node.attr)
            if p and 'get' in p:
                return [(v, s) for kind, v, s in self.call_function(p['get'], (), {}, st, recv=base) if kind == 'ok']
        return None

    def on_attr_store(self, target, base, value, st):
        if base == T('self'):
            p = self.repo.lookup_prop(self.cls, target.attr)
            if p and 'set' in p:
                return [s for kind, v, s in self.call_function(p['set'], (value,), {}, st, recv=base) if kind == 'ok']
        return None


def spec_update(rel, armed):
    """value update to v with rel = relation(v, max): -> (announce, armed')"""
    if rel == '<':
        armed = True
    if rel in ('=', '>') and armed:
        return 1, False
    return 0, armed


def walk_reporter(ctx):
    repo = ctx.repo
    cls = repo.cls(M, 'ProgressReporter')
    me = T('self')
    v0, m0 = T('v0'), T('m0')
    ops = []
    pv = repo.lookup_prop(cls, 'value')
    pm = repo.lookup_prop(cls, 'value_max')
    if not pv or 'set' not in pv or not pm or 'set' not in pm:
        raise AnchorMissing('ProgressReporter.value / value_max setters')
    for mname in ('increment', 'set_complete', 'reset'):
        if repo.lookup_method(cls, mname) is None:
            raise AnchorMissing('ProgressReporter.%s' % mname)
    ops.append(('value = v', pv['set'], (T('param', 'v'),), 'update'))
    ops.append(('increment()', repo.lookup_method(cls, 'increment'), (), 'update'))
    ops.append(('set_complete()', repo.lookup_method(cls, 'set_complete'), (), 'update'))
    ops.append(('value_max = m', pm['set'], (T('param', 'm'),), 'setmax'))
    ops.append(('reset()', repo.lookup_method(cls, 'reset'), (), 'reset'))
    ops.append(('reset(m)', repo.lookup_method(cls, 'reset'), (T('param', 'm'),), 'reset'))
    # the completion state is one boolean attribute initialised by __init__: named `_has_completed` on the pinned tree (False = a completion is still to be announced);
    # another name, or the opposite polarity (`_armed = True`), is the same monitor. Anything else is a representation the walk does not model.
    init_ = repo.lookup_method(cls, '__init__')
    flags_ = {}
    for a_ in (init_.nodes(ast.Assign) if init_ is not None else []):
        t_ = a_.targets[0]
        if isinstance(t_, ast.Attribute) and isinstance(t_.value, ast.Name) and t_.value.id == init_.params[0] and isinstance(const_value(a_.value), bool):
            flags_[t_.attr] = const_value(a_.value)
    if '_has_completed' in flags_:
        flag_attr, done_is = '_has_completed', True
    elif len(flags_) == 1:
        flag_attr, init_val = list(flags_.items())[0]
        done_is = not init_val            # the reporter starts armed: the initial value is the 'not yet announced' one
    else:
        ctx.undecided('C19.R1', cls.name, 'the completion state of ProgressReporter is not kept in one boolean attribute initialised by __init__ (%s)' % sorted(flags_))
        return
    expect_value = {'value = v': T('param', 'v'), 'increment()': T('Add', v0, C(1)), 'set_complete()': m0, 'reset()': C(0), 'reset(m)': C(0)}
    expect_max = {'value_max = m': T('param', 'm'), 'reset(m)': T('param', 'm')}
    for opname, fi, args, kind_ in ops:
        probs = []
        npaths = 0
        for flag in (False, True):
            armed = not flag
            I = PRInterp(repo, cls)
            env = {fi.params[0]: me}
            for p, a in zip(fi.params[1:], args):
                env[p] = a
            for p, d in fi.defaults().items():
                if p not in env:
                    env[p] = C(const_value(d))
            if fi.kwarg:
                env[fi.kwarg] = T('param**', fi.kwarg)
            facts = {('is',) + tuple(sorted([C(None), a], key=repr)): False for a in args}
            outs = I.run(fi, env=env, heap={(me, '_value'): v0, (me, '_value_max'): m0, (me, flag_attr): C(flag if done_is else not flag)}, facts=facts)
            ctx.analysed['paths'] += len(outs)
            for kind, val, st in outs:
                npaths += 1
                if kind != 'return':
                    probs.append('%s raises %s' % (opname, val))
                    continue
                ann_code = sum(1 for e in st.trace if e[0] == 'emit' and e[1] == C('complete'))
                f2 = st.heap.get((me, flag_attr))
                if is_c(f2) and isinstance(f2[1], bool) and not done_is:
                    f2 = C(not f2[1])          # normalised to 'completion announced'
                v2, m2 = st.heap.get((me, '_value')), st.heap.get((me, '_value_max'))
                if opname in expect_value and v2 != expect_value[opname]:
                    probs.append('after %s the value is %s, expected %s' % (opname, show(v2), show(expect_value[opname])))
                if opname not in expect_value and v2 != v0:
                    probs.append('%s changes the value to %s' % (opname, show(v2)))
                if opname in expect_max and m2 != expect_max[opname]:
                    probs.append('after %s the maximum is %s, expected %s' % (opname, show(m2), show(expect_max[opname])))
                if opname not in expect_max and m2 != m0:
                    probs.append('%s changes the maximum to %s' % (opname, show(m2)))
                if not is_c(f2) or not isinstance(f2[1], bool):
                    probs.append('%s leaves the completion flag as %s' % (opname, show(f2)))
                    continue
                # relations consulted on this path; enumerate the unconsulted ones
                def rels(a, b):
                    r = I.rel(st, a, b)
                    return [r] if r is not None else ['<', '=', '>']
                if kind_ == 'update':
                    cases = [(r, None) for r in rels(v2, m0)]
                elif kind_ == 'setmax':
                    cases = [(None, r) for r in rels(m2, m0)]
                else:
                    raised = rels(m2, m0) if args else ['=']
                    cases = [(r0, r1) for r1 in raised for r0 in rels(C(0), m2)]
                for r_val, r_max in cases:
                    a = armed
                    ann = 0
                    if kind_ == 'update':
                        ann, a = spec_update(r_val, a)
                    elif kind_ == 'setmax':
                        if r_max == '>':
                            a = True
                    else:
                        if r_max == '>':
                            a = True
                        if r_val == '<':
                            a = True
                    w = 'pre-state %s; ' % ('completion already announced' if flag else 'armed')
                    if r_val is not None:
                        w += 'new value %s maximum; ' % r_val
                    if r_max is not None:
                        w += 'new maximum %s old maximum; ' % r_max
                    if ann_code != ann:
                        probs.append('%s [%s]: `complete` emitted %d time(s), the specification announces %d' % (opname, w, ann_code, ann))
                    if f2[1] != (not a):
                        probs.append('%s [%s]: afterwards the completion flag is %s but a further completion %s be announced' %
                                     (opname, w, f2[1], 'must' if a else 'must not'))
        if probs:
            for pmsg in sorted(set(probs))[:3]:
                ctx.violated('C19.R1', fi, pmsg[:150], pmsg)
        else:
            ctx.holds('C19.R1', fi, '%s refines the completion monitor from both pre-states (%d paths, all relations of value/maximum)' % (opname, npaths), opname)


def p2_on_name(ctx, cls):
    """connect by name: `on_<event>` registers under exactly <event> - the prefix is removed as a PREFIX (regex group, slice after startswith, removeprefix), not as a
    character set (`lstrip('on_')` eats the leading o / n / _ of the event name itself) nor anywhere in the name (`replace`)."""
    repo = ctx.repo
    fi = repo.lookup_method(cls, '_get_on_name')
    if fi is None:
        ctx.undecided('C19.P2', cls.name, 'the helper deriving the event name from `on_<event>` was not found')
        return
    calls = [c for c in fi.calls()]
    names = [(q.method_name(c) or dotted(c.func) or '') for c in calls]
    bad = [c for c in calls if q.method_name(c) in ('lstrip', 'strip', 'replace', 'rstrip') and c.args and isinstance(const_value(c.args[0]), str) and 'on' in const_value(c.args[0])]
    regex = [c for c in calls if (dotted(c.func) or '') in ('re.match', 're.fullmatch', 're.search', 're.compile') and c.args and isinstance(const_value(c.args[0]), str)]
    good_re = [c for c in regex if const_value(c.args[0]) in ('^on_(.+)$', 'on_(.+)$', '^on_(.+)', '^on_(.*)$', 'on_(.+)') and dotted(c.func) != 're.search' or
               (dotted(c.func) == 're.search' and const_value(c.args[0]).startswith('^on_('))]
    good_slice = any(isinstance(n, ast.Subscript) and isinstance(n.slice, ast.Slice) and const_value(n.slice.lower) == 3 and n.slice.upper is None for n in ast.walk(fi.node)) and \
        any(q.method_name(c) == 'startswith' and c.args and const_value(c.args[0]) == 'on_' for c in calls)
    good_rp = any(q.method_name(c) == 'removeprefix' and c.args and const_value(c.args[0]) == 'on_' for c in calls)
    ctx.tri(bool(good_re) or good_slice or good_rp, bool(bad), 'C19.P2', fi, (bad or good_re or ['_get_on_name'])[0],
            'connect by name registers `on_<event>` under exactly <event> (the prefix is removed as a prefix)',
            '`%s` removes CHARACTERS, not the prefix: `on_next` is registered under `ext`, `on_open` under `pen`, and an emit of the real event never calls the callback' % (unparse(bad[0])[:50] if bad else ''),
            'how the event name is derived from the function name was not recognised')


def run(ctx):
    cls = ctx.repo.cls(M, 'EventEmitter')
    ctx.part('C19.P2', p2_on_name, cls)
    kind = registry_kind(ctx.repo, cls)
    if kind != 'list':
        # closed-form policy: the walks model the registry as ONE list of entries; another container is not a wrong registry, it is one the model does not cover
        if kind and (kind.startswith('set(') or kind.startswith('frozenset(')):
            ctx.violated('C19.P2', cls.name, 'registry', 'the registry is created as `%s`: a set keeps no registration order, so callbacks cannot be called in the order they were connected' % kind)
        why = 'the registry is created as `%s`, not as a list of entries: the abstract registry of the walks does not model it' % kind if kind else 'the creation of the registry (self._callbacks) was not found'
        ctx.undecided('C19.P2', cls.name, 'connect / unconnect / reset: ' + why)
        ctx.undecided('C19.P3', cls.name, 'emit: ' + why)
        ctx.part('C19.P1', walk_emit, cls, ['event', 'sender', 'func', 'kwargs'], True)
        ctx.part('C19.P7', walk_silent, cls)
        ctx.part('C19.R1', walk_reporter)
        return
    layout = walk_connect(ctx, cls)
    if layout is None:
        # the shape of a registry entry is what unconnect / emit are walked with: without it nothing definite can be said about them
        reported = any(o.rule == 'C19.P2' and o.status == 'violated' for o in ctx.obs)
        layout = ['event', 'sender', 'func', 'kwargs']
        if not reported:
            ctx.undecided('C19.P2', cls.name, 'unconnect: the layout of a registry entry was not derived from connect')
            ctx.undecided('C19.P3', cls.name, 'emit: the layout of a registry entry was not derived from connect')
            ctx.part('C19.P7', walk_silent, cls)
            ctx.part('C19.R1', walk_reporter)
            return
    ctx.part('C19.P2', walk_unconnect, cls, layout)
    ctx.part('C19.P3', walk_emit, cls, layout)
    ctx.part('C19.P7', walk_silent, cls)
    ctx.part('C19.R1', walk_reporter)


LEVEL_TEXT = ('Path-sensitive static walk of EventEmitter.connect/unconnect/reset/emit/silent over an abstract registry of 0..2 symbolic '
              'entries, and of every public mutator of ProgressReporter from both abstract pre-states: the observed registry updates, '
              'callback-call sequences, arguments, return values and completion announcements are compared with the specification '
              'evaluated on the same path facts, for every completion of the facts the code did not consult (a refinement check between '
              'extracted method semantics and the specification automaton).')
LEVEL_NOTE = ('Trusted: the list/tuple/comprehension model of vlib/proto.py, registries of at most 2 entries, callbacks that return normally, '
              'the contextmanager protocol. Not decided: connect-by-name parsing, printing of progress messages.')
TECHNIQUE = 'static analysis: path-sensitive abstract walk (predicate abstraction, trichotomy facts) refined against a spec automaton'
