"""C07 - spike-cluster index utilities partition the spikes.

Decided
  A0  no index-space conflict in _spikes_per_cluster, _spikes_in_clusters, grouped_mean, get_cluster_spikes, get_template_spikes,
      get_template_counts
  A1  _spikes_per_cluster: the dictionary is keyed by cluster ids and holds spike ids; keys and group ranges come from the SAME boundary
      array of the SAME sorted vector (key i <-> range boundary i .. boundary i+1, last key <-> last boundary .. end); the spike ids and
      the cluster vector are permuted by the same order; default spike ids = 0..n-1; boundaries = first element and every increase
  K1  the sort is stable (mergesort / stable) - groups are increasing without a second sort - or every group is sorted afterwards
  A2  _spikes_in_clusters = indices where the assignment is in the requested set (increasing); the model's per-cluster query reads the
      cluster assignments, the per-template query the template assignments; get_template_counts = histogram over ALL templates of the
      templates of the cluster's spikes
  A3  grouped_mean = per-present-id sum / count; _unique = ids with a non-zero count among the non-negative entries (increasing);
      _flatten_per_cluster = sorted distinct union
  +   on EVERY return path of the model queries the selection goes through the right assignment vector (a dictionary keyed by template ids looked up with a cluster id is a conflict)
  +   EVERY selecting return of _spikes_in_clusters is a membership test (a fast path by id range / equality is a violation)
Not decided: exact partition at value level, behaviour for negative ids beyond _unique's documented filtering.
"""
import ast

from vlib import q
from vlib.pat import Pat, returned
from vlib.front import unparse, dotted, const_value, AnchorMissing
from vlib.shape import Shape, Space, Ix, Q, D, BoolT, StrT, NoneT, SizeOf, UNK, is_unk, Arr, Rec, Tup, ListT, DictT, B
from obligations.shape_tables import (model_attrs, COMMON_SIGS, M, AR, Tmpl, Clu, Chan, Spike, KA, CNT)

FLOOR = 9          # decided obligations below this = the analysis lost its footing (exit 2); clean tree: 25
RULES = ('C07.A0', 'C07.A1', 'C07.A2', 'C07.A3', 'C07.K1')          # every obligation group must report (holds / violated / undecided): a group that vanishes silently is an analysis error
EXPLANATION = ('shape engine over the grouping utilities of phylib/io/array.py and the model queries built on them (key / value kinds, '
               'consistency of the permutation applied to ids and labels, table-vs-query index spaces, mean-vs-sum dimension), plus '
               'structural rules pairing keys with boundary ranges and requiring a stable sort')
TRUSTED = ['python ast', 'NumPy transfer rules of vlib/shape.py', 'np.argsort(kind=mergesort|stable) is stable; np.nonzero / np.unique return increasing values']
ASSUMPTIONS = ['cluster ids are non-negative integers']


def flush(ctx, S, label):
    n = 0
    for r in S.reports:
        n += 1
        ctx.violated('C07.A0', r.fi, r.node, '[%s] %s' % (label, r.msg))
    return n


def run(ctx):
    repo = ctx.repo
    nrep = 0
    spc = repo.func(AR, '_spikes_per_cluster')
    scp, sip = spc.params[0], spc.params[1]
    for given in (False, True):
        S = Shape(repo, inline_depth=1)
        ids = Arr((Spike,), Ix(B('SpikeId'))) if given else NoneT()
        res = S.result(spc, {scp: Arr((Spike,), Ix(Clu)), sip: ids})
        lab = 'spike ids given' if given else 'default spike ids'
        nrep += flush(ctx, S, '_spikes_per_cluster, ' + lab)
        if isinstance(res, DictT):
            ctx.check(isinstance(res.key, Ix) and res.key.space is Clu, 'C07.A1', spc, lab + ' keys', '%s: groups are keyed by cluster id' % lab, '%s: groups are keyed by %s' % (lab, res.key))
            v = res.val
            want = B('SpikeId') if given else Spike
            ctx.check(isinstance(v, Arr) and isinstance(v.elem, Ix) and v.elem.space is want, 'C07.A1', spc, lab + ' values', '%s: groups hold %s' % (lab, 'the supplied spike ids' if given else 'spike indices'),
                      '%s: groups hold %s' % (lab, v), value=getattr(v, 'elem', v))
            if isinstance(v, Arr) and v.axes:
                perm = [s for s in v.axes[0].chain() if s.kind == 'Perm']
                ctx.check(bool(perm) and perm[0].parent is Spike and isinstance(perm[0].info.get('keyelem'), Ix) and perm[0].info['keyelem'].space is Clu, 'C07.A1', spc, lab + ' order',
                          '%s: a group is a contiguous range of the spikes ordered by cluster id' % lab, '%s: a group is a range of %s' % (lab, v.axes[0]))
                if perm:
                    ctx.check(perm[0].info.get('stable') is True or _groups_sorted(spc), 'C07.K1', spc, lab + ' stability',
                              'the ordering by cluster id is stable: within a group the spikes stay in increasing order',
                              'np.argsort is not stable here (kind=%s) and the groups are not sorted afterwards: groups are not increasing' % _kind(spc))
        else:
            ctx.undecided('C07.A1', spc, '%s: result %s' % (lab, res))
    # structural pairing of keys and ranges (patterns with metavariables for the local names)
    P = Pat(spc)
    srt = P.stmt('V_perm = np.argsort(%s, REST)' % scp) or P.stmt('V_perm = %s.argsort(REST)' % scp) or P.stmt('V_perm = np.argsort(%s)' % scp)
    lab_perm = P.stmt('%s = %s[V_perm]' % (scp, scp)) or P.stmt('V_labels = %s[V_perm]' % scp)
    labels = scp if P.name('V_labels') is None else P.name('V_labels')
    ids_perm = P.stmt('V_vals = %s[V_perm]' % sip) or P.stmt('V_vals = V_perm if %s is None else %s[V_perm]' % (sip, sip)) or \
        P.stmt('V_vals = %s[V_perm] if %s is not None else V_perm' % (sip, sip))
    ifexp_default = ids_perm is not None and isinstance(ids_perm.value, ast.IfExp)
    if srt is None:
        ctx.undecided('C07.A1', spc, 'the ordering of the spikes by cluster (argsort of the labels) was not recognised')
    else:
        unperm_ids = P.stmt('V_vals = %s' % sip) if ids_perm is None else None
        if lab_perm is not None and ids_perm is not None:
            ctx.holds('C07.A1', spc, 'spike ids and labels are reordered by the same permutation', ids_perm)
        elif lab_perm is None or unperm_ids is not None:
            ctx.violated('C07.A1', spc, srt, 'spike ids and labels are not reordered by the same permutation (%s)' %
                         ('the labels are not reordered' if lab_perm is None else 'the spike ids are used in their original order'))
        else:
            ctx.undecided('C07.A1', spc, 'reordering of the spike ids by the sort permutation not recognised', srt)
    # boundaries: position 0 and every increase of the sorted labels
    d0 = P.stmt('V_diff[0] = E_first')
    d1 = P.stmt('V_diff[1:] = np.diff(%s)' % labels)
    bnd = None
    for pat_ in ('V_bnd = np.nonzero(V_diff > 0)[0]', 'V_bnd = np.flatnonzero(V_diff > 0)', 'V_bnd = np.where(V_diff > 0)[0]', 'V_bnd = np.nonzero(V_diff != 0)[0]', 'V_bnd = np.nonzero(V_diff)[0]',
                 'V_bnd = np.flatnonzero(V_diff)'):
        bnd = bnd or P.stmt(pat_)
    if d0 is None or d1 is None or bnd is None:
        ctx.undecided('C07.A1', spc, 'computation of the group boundaries (diff of the sorted labels) not recognised')
    else:
        first = const_value(d0.value)
        ctx.check(isinstance(first, (int, float)) and not isinstance(first, bool) and first > 0, 'C07.A1', spc, d0, 'group boundaries = position 0 and every position where the sorted label increases',
                  'boundaries are not {0} + positions where the sorted labels increase: the first element is marked with %r, so the first group has no boundary at position 0' % (first,))
    keys = P.stmt('V_keys = %s[V_bnd]' % labels) if bnd is not None else None
    dcs = spc.nodes(ast.DictComp)
    split_form = None
    if not dcs and keys is not None and ids_perm is not None:
        PS = Pat(spc, P.b)
        ch_ = PS.stmt('V_chunks = np.split(V_vals, V_bnd[1:])')
        if ch_ is not None and any(PS.m('dict(zip(V_keys, V_chunks))', x) for r_, x in returned(spc) for x in (r_.value, x)):
            split_form = ch_
        elif ch_ is None and (PS.stmt('V_chunks = np.split(V_vals, V_bnd)') or PS.stmt('V_chunks = np.split(V_vals, V_bnd[:-1])')):
            split_form = False
    if split_form:
        ctx.holds('C07.A1', spc, 'the sorted values are cut at every boundary but the first (position 0) and the pieces are paired, in order, with the labels at the boundaries', split_form)
        ctx.holds('C07.A1', spc, 'the last cluster gets the spikes from the last boundary to the end (last piece of the split)', split_form)
    elif split_form is False:
        ctx.violated('C07.A1', spc, 'np.split', 'the sorted values are not cut at boundaries 1.. of the boundary array: the pieces and the keys are shifted against each other')
    elif not dcs or keys is None or ids_perm is None:
        ctx.undecided('C07.A1', spc, 'the dictionary comprehension pairing keys with group ranges was not recognised')
    else:
        dc = dcs[0]
        PP = Pat(spc, P.b)
        tgt_ok = PP.m('V_i', dc.generators[0].target)
        good = tgt_ok and PP.m('V_keys[V_i]', dc.key) and PP.m('V_vals[V_bnd[V_i]:V_bnd[V_i + 1]]', dc.value) and \
            (PP.m('range(len(V_keys) - 1)', dc.generators[0].iter) or PP.m('range(len(V_bnd) - 1)', dc.generators[0].iter))
        names_used = {n.id for n in ast.walk(dc) if isinstance(n, ast.Name)}
        vocab = {P.name('V_keys'), P.name('V_vals'), P.name('V_bnd'), P.name('V_perm'), labels, 'range', 'len', unparse(dc.generators[0].target)}
        bad = not good and names_used <= vocab
        if good:
            ctx.holds('C07.A1', spc, 'key i is the cluster at boundary i and its group is the range boundary i .. boundary i+1 of the same boundary array', dc)
        elif bad:
            ctx.violated('C07.A1', spc, dc, 'keys and group ranges are not paired through one boundary array: `%s: %s for %s in %s`' %
                         (unparse(dc.key), unparse(dc.value), unparse(dc.generators[0].target), unparse(dc.generators[0].iter)))
        else:
            ctx.undecided('C07.A1', spc, 'dictionary comprehension not in a recognised form', dc)
        last = P.stmt('ANY[V_keys[-1]] = E_lastgroup')
        if last is None:
            only_loop = Pat(spc, P.b).m('range(len(V_keys))', dc.generators[0].iter)
            (ctx.undecided if only_loop else ctx.violated)('C07.A1', spc, *(('the last group is produced inside the comprehension (not decided)',) if only_loop else
                                                                              (dc, 'the last cluster (from the last boundary to the end) is never added to the dictionary')))
        else:
            lg = Pat(spc, P.b).m('V_vals[V_bnd[-1]:]', last.value)
            same_vocab = {n.id for n in ast.walk(last.value) if isinstance(n, ast.Name)} <= vocab
            if lg:
                ctx.holds('C07.A1', spc, 'the last cluster gets the spikes from the last boundary to the end', last)
            elif same_vocab:
                ctx.violated('C07.A1', spc, last, 'the last group is `%s`, not the reordered spike ids from the last boundary to the end' % unparse(last.value))
            else:
                ctx.undecided('C07.A1', spc, 'last group not in a recognised form', last)
    dflt = [i for i in spc.nodes(ast.If) if Pat().m('%s is None' % sip, i.test)]
    dstm = [a for i in dflt for a in i.body if isinstance(a, ast.Assign) and Pat().m(sip, a.targets[0])]
    if ifexp_default and not dstm:
        ctx.holds('C07.A1', spc, 'default spike ids are 0..n-1 (the sort permutation itself is used when no ids are given)', ids_perm)
    elif not dstm:
        ctx.undecided('C07.A1', spc, 'default of the spike ids not recognised')
    else:
        v = dstm[0].value
        good = Pat().any(['np.arange(len(%s)).astype(ANY)' % scp, 'np.arange(len(%s))' % scp, 'np.arange(%s.shape[0])' % scp, 'np.arange(len(%s), REST)' % scp, 'np.arange(%s.size)' % scp], v)
        bad = not good and any(isinstance(c, ast.Call) and dotted(c.func) in ('np.arange', 'range') for c in ast.walk(v))
        if good:
            ctx.holds('C07.A1', spc, 'default spike ids are 0..n-1', dstm[0])
        elif bad:
            ctx.violated('C07.A1', spc, dstm[0], 'default spike ids are `%s`, not 0..n-1' % unparse(v))
        else:
            ctx.undecided('C07.A1', spc, 'default spike ids not in a recognised form', dstm[0])
    emp = [(r_, x) for r_, x in returned(spc) if isinstance(x, ast.Dict) and not x.keys]
    emp += [(r_, x) for r_, x in returned(spc) if isinstance(x, ast.Call) and dotted(x.func) == 'dict' and not x.args and not x.keywords]
    guard = [i for r_, x in emp for i in spc.ancestors(r_) if isinstance(i, ast.If) and 'len(' in unparse(i.test)]
    if emp and guard:
        ctx.holds('C07.A1', spc, 'no spikes -> no groups', guard[0].test)
    else:
        ctx.undecided('C07.A1', spc, 'the early return of an empty dictionary for empty input was not recognised')
    # ---- A2
    sic = repo.func(AR, '_spikes_in_clusters')
    S = Shape(repo, inline_depth=1)
    res = S.result(sic, {sic.params[0]: Arr((Spike,), Ix(Clu)), sic.params[1]: Arr((B('Q'),), Ix(Clu))})
    nrep += flush(ctx, S, '_spikes_in_clusters')
    vals = [v for n, v in S.run(sic, {sic.params[0]: Arr((Spike,), Ix(Clu)), sic.params[1]: Arr((B('Q'),), Ix(Clu))}) if isinstance(v, Arr) and v.axes and v.axes[0].kind == 'Sub']
    ok = bool(vals) and isinstance(vals[0].elem, Ix) and vals[0].elem.space is Spike and vals[0].sorted
    ctx.check(ok, 'C07.A2', sic, '_spikes_in_clusters', 'spikes of a set of clusters = increasing indices where the assignment is in the set', '_spikes_in_clusters does not return the increasing indices of the members (%s)' % vals)
    a0_, a1_ = sic.params[:2]
    rvs = [x for _, x in returned(sic)]
    goods = ['np.nonzero(np.isin(%s, %s))[0]' % (a0_, a1_), 'np.flatnonzero(np.isin(%s, %s))' % (a0_, a1_), 'np.where(np.isin(%s, %s))[0]' % (a0_, a1_),
             'np.nonzero(np.in1d(%s, %s))[0]' % (a0_, a1_), 'np.flatnonzero(np.in1d(%s, %s))' % (a0_, a1_)]
    # EVERY return that selects spikes does so by membership (the empty-input return is an empty literal): a fast path selecting by an id RANGE or by equality with
    # one element answers unsorted / duplicated requests with other spikes
    sel = [x for x in rvs if not Pat().any(['np.array([], REST)', 'np.array([])', 'np.zeros(0, REST)', 'np.empty(0, REST)', '[]'], x)]
    rng = [x for x in sel if not Pat().any(goods, sic.expand(x)) and not any(isinstance(n, ast.Call) and dotted(n.func) in ('np.isin', 'np.in1d') for n in ast.walk(sic.expand(x))) and
           any(isinstance(n, ast.Compare) and any(isinstance(o, (ast.Lt, ast.LtE, ast.Gt, ast.GtE, ast.Eq)) for o in n.ops) for n in ast.walk(sic.expand(x)))]
    if rng:
        ctx.violated('C07.A2', sic, rng[0], 'a return of _spikes_in_clusters selects spikes by comparisons (`%s`), not by membership in the requested ids: correct only for sorted, duplicate-free, '
                     'consecutive requests' % unparse(sic.expand(rng[0]))[:80])
    g = bool(sel) and all(Pat().any(goods, sic.expand(x)) for x in sel)
    b_ = not g and any(isinstance(n, ast.UnaryOp) and isinstance(n.op, (ast.Invert, ast.Not)) for x in rvs for n in ast.walk(x)) or \
        (not g and any(Pat().any([t_.replace('(%s, %s)' % (a0_, a1_), '(%s, %s)' % (a1_, a0_)) for t_ in goods], x) for x in rvs))
    if g:
        ctx.holds('C07.A2', sic, 'membership test of the assignment vector in the requested ids', rvs[-1])
    elif b_:
        ctx.violated('C07.A2', sic, rvs[-1], 'the selection is `%s`, not nonzero(isin(assignments, requested))' % unparse(rvs[-1]))
    else:
        ctx.undecided('C07.A2', sic, 'the membership selection is not in a recognised form')
    cls = repo.cls(M, 'TemplateModel')
    for mname, tab, kind in (('get_cluster_spikes', 'spike_clusters', Clu), ('get_template_spikes', 'spike_templates', Tmpl)):
        m = repo.lookup_method(cls, mname)
        if m is None:
            raise AnchorMissing('TemplateModel.%s' % mname)
        S = Shape(repo, selfattrs=model_attrs(), inline_depth=3)
        rets = S.results(m, {'self': UNK, m.params[1]: Ix(kind)})
        reps = list(S.reports)
        if any({'spike_clusters', 'spike_templates'} <= {n_.attr for n_ in ast.walk(i_.test) if isinstance(n_, ast.Attribute)} for f_ in repo.transparent_closure(m) for i_ in f_.nodes(ast.If)):
            S.reports = [r_ for r_ in S.reports if r_.kind != 'space']
        nrep += flush(ctx, S, mname)
        # every return path: spike indices, restricted by membership of the RIGHT assignment vector (no path through the other vector, e.g. a shortcut
        # "clusters are the templates" taken under a condition that does not imply it)
        bad_ret = [(n_, v_) for n_, v_ in rets if not (isinstance(v_, Arr) and isinstance(v_.elem, Ix) and v_.elem.space is Spike) and not is_unk(v_) and not (isinstance(v_, Arr) and is_unk(v_.elem))]
        und_ret = [(n_, v_) for n_, v_ in rets if is_unk(v_) or (isinstance(v_, Arr) and is_unk(v_.elem))]
        # a shortcut taken under a test that the two assignment vectors coincide legitimately mixes the two id kinds: not judged
        eq_guard = any({'spike_clusters', 'spike_templates'} <= {n_.attr for n_ in ast.walk(i_.test) if isinstance(n_, ast.Attribute)} for f_ in repo.transparent_closure(m) for i_ in f_.nodes(ast.If))
        if (reps or bad_ret) and eq_guard:
            ctx.undecided('C07.A2', m, '%s mixes cluster and template ids under a test comparing the two assignment vectors: not judged' % mname)
        elif reps or bad_ret:
            ctx.violated('C07.A2', m, (bad_ret[0][0] if bad_ret else mname), '%s does not select spikes through self.%s on every path (%s)' % (mname, tab, [x.msg for x in reps][:1] or bad_ret[0][1]))
        elif und_ret or not rets:
            ctx.undecided('C07.A2', m, '%s: a return could not be typed' % mname)
        else:
            ctx.holds('C07.A2', m, '%s selects spike indices by the %s vector on every return path (%d)' % (mname, tab, len(rets)), mname)
    tc = repo.lookup_method(cls, 'get_template_counts')
    S = Shape(repo, selfattrs=model_attrs(), inline_depth=3)
    res = S.result(tc, {'self': UNK, tc.params[1]: Ix(Clu)})
    nrep += flush(ctx, S, 'get_template_counts')
    ctx.check(isinstance(res, Arr) and res.axes == (Tmpl,) and isinstance(res.elem, Q) and res.elem.d() == {'cnt': 1}, 'C07.A2', tc, 'get_template_counts',
              'histogram over all templates of the templates of the cluster\'s spikes', 'get_template_counts returns %s, expected counts over the full template table' % res, value=res)
    # ---- A3
    gm = repo.func(AR, 'grouped_mean')
    S = Shape(repo, sigs={k: v for k, v in COMMON_SIGS.items() if k == '_index_of'}, inline_depth=2)
    res = S.result(gm, {gm.params[0]: Arr((Spike,), KA), gm.params[1]: Arr((Spike,), Ix(Clu))})
    nrep += flush(ctx, S, 'grouped_mean')
    if isinstance(res, Arr) and isinstance(res.elem, Q):
        ctx.check(res.elem.d() == {'ka': 1}, 'C07.A3', gm, 'grouped_mean dimension', 'grouped_mean is sum / count (dimension of the averaged quantity)',
                  'grouped_mean has dimension %s: a sum over spikes (count factor) is not a mean' % res.elem, value=getattr(res, 'elem', res))
    else:
        ctx.undecided('C07.A3', gm, 'grouped_mean returns %s' % res)
    PG = Pat(gm)
    g1 = PG.stmt('V_ids = _unique(%s)' % gm.params[1]) or PG.stmt('V_ids = np.unique(%s)' % gm.params[1])
    g2 = PG.stmt('V_rel = _index_of(%s, V_ids)' % gm.params[1]) if g1 is not None else None
    g3 = PG.stmt('V_cnt = np.bincount(V_rel)') or PG.stmt('V_cnt = np.bincount(V_rel, REST)') if g2 is not None else None
    if g1 is not None and g2 is not None and g3 is not None:
        ctx.holds('C07.A3', gm, 'groups = present ids in increasing order; counts per relative id', g2)
    elif g1 is not None and g2 is None and PG.stmt('V_rel = _index_of(ANY, ANY)') is not None:
        ctx.violated('C07.A3', gm, PG.stmt('V_rel = _index_of(ANY, ANY)'), 'grouped_mean does not relabel the spikes against the present ids it averages over')
    else:
        ctx.undecided('C07.A3', gm, 'grouping of grouped_mean not in a recognised form')
    un = repo.func(AR, '_unique')
    PU = Pat(un)
    p0 = un.params[0]
    filt_good = PU.stmt('%s = %s[%s >= 0]' % (p0, p0, p0)) or PU.stmt('V_x = %s[%s >= 0]' % (p0, p0)) or PU.stmt('%s = %s[%s > -1]' % (p0, p0, p0))
    filt_bad = PU.stmt('%s = %s[%s > 0]' % (p0, p0, p0)) or PU.stmt('V_x = %s[%s > 0]' % (p0, p0)) or PU.stmt('%s = %s[%s >= 1]' % (p0, p0, p0))
    rvs = [x for _, x in returned(un)]
    nz = any(Pat().any(['np.nonzero(np.bincount(ANY))[0]', 'np.flatnonzero(np.bincount(ANY))', 'np.where(np.bincount(ANY))[0]', 'np.nonzero(np.bincount(ANY) > 0)[0]', 'np.unique(ANY)'], x) for x in rvs)
    lost = [x for f_ in repo.transparent_closure(un) for x in q.dropped_accumulations(f_)]
    if lost:
        ctx.violated('C07.A3', un, lost[0][1], '_unique accumulates the counts piece by piece in `%s`, and `%s` replaces the accumulated table by the table of one piece: the ids '
                     'counted so far and absent from that piece are dropped from the result' % (lost[0][2], unparse(lost[0][1])))
    elif filt_good is not None and nz:
        ctx.holds('C07.A3', un, '_unique = increasing ids with a non-zero count among the non-negative entries', filt_good)
    elif filt_bad is not None:
        ctx.violated('C07.A3', un, filt_bad, '_unique keeps `%s`: id 0 is a valid cluster id and must be kept (only negative ids are dropped)' % unparse(filt_bad.value))
    else:
        ctx.undecided('C07.A3', un, '_unique not in a recognised form')
    fl = repo.func(AR, '_flatten_per_cluster')
    rvs = [x for _, x in returned(fl)]
    fp = fl.params[0]
    cat = 'np.concatenate(list(%s.values()))' % fp
    good = any(Pat().any(['np.unique(%s).astype(ANY)' % cat, 'np.unique(%s)' % cat, 'np.unique(np.concatenate(tuple(%s.values())))' % fp, 'np.unique(np.hstack(list(%s.values())))' % fp], x) for x in rvs)
    bad = not good and any(Pat().any(['np.sort(%s).astype(ANY)' % cat, 'np.sort(%s)' % cat, '%s.astype(ANY)' % cat, cat, 'sorted(%s)' % cat], x) for x in rvs)
    if good:
        ctx.holds('C07.A3', fl, 'flatten = sorted distinct union of the groups', rvs[-1])
    elif bad:
        ctx.violated('C07.A3', fl, rvs[-1], '_flatten_per_cluster is `%s`: spikes present in several groups are repeated (np.unique of the concatenation is required)' % unparse(rvs[-1])[:90])
    else:
        ctx.undecided('C07.A3', fl, '_flatten_per_cluster not in a recognised form')
    from obligations.shape_tables import check_index_of
    check_index_of(ctx, 'C07.A3')
    if nrep == 0:
        ctx.holds('C07.A0', spc, 'no index-space conflict in the grouping utilities and the model queries (8 analyses)', 'grouping utilities')


def _kind(fi):
    for c in fi.calls():
        if (dotted(c.func) or '').endswith('argsort'):
            k = q.kwarg(c, 'kind')
            return const_value(k) if k is not None else 'default quicksort'
    return '?'


def _groups_sorted(fi):
    return any((dotted(c.func) or '') in ('np.sort', 'sorted') for c in fi.calls())


LEVEL_TEXT = ('Static typing of the spike-grouping utilities and the model queries built on them (what keys and values are, that ids and labels '
              'are reordered by one stable permutation, that keys and group ranges come from one boundary array, that queries compare ids '
              'with the right assignment vector, that means are sums divided by counts).')
LEVEL_NOTE = ('Trusted: NumPy transfer rules; stability of mergesort/stable argsort; increasing output of nonzero/unique. Not decided: partition at value level.')
TECHNIQUE = 'static analysis: abstract interpretation (index-space typing) plus structural pairing rules on the ast'
