"""C07 - spike-cluster index utilities partition the spikes.

Decided
  A0  no index-space conflict in _spikes_per_cluster, _spikes_in_clusters, grouped_mean, get_cluster_spikes, get_template_spikes,
      get_template_counts
  A1  _spikes_per_cluster: the dictionary is keyed by cluster ids and holds spike ids; keys and group ranges come from the SAME boundary
      array of the SAME sorted vector (key i <-> range boundary i .. boundary i+1, last key <-> last boundary .. end); the spike ids and
      the cluster vector are permuted by the same order; default spike ids = 0..n-1; boundaries = first element and every increase
  K1  the sort is stable (mergesort / stable) - groups are increasing without a second sort - or every group is sorted afterwards
  A2  _spikes_in_clusters = indices where the assignment is in the requested set (increasing); the model's per-cluster query reads the
      cluster assignments, the per-template query the template assignments; get_template_counts = histogram over ALL templates of the
      templates of the cluster's spikes
  A3  grouped_mean = per-present-id sum / count; _unique = ids with a non-zero count among the non-negative entries (increasing);
      _flatten_per_cluster = sorted distinct union
Not decided: exact partition at value level, behaviour for negative ids beyond _unique's documented filtering.
"""
import ast

from vlib import q
from vlib.front import unparse, dotted, const_value, AnchorMissing
from vlib.shape import Shape, Space, Ix, Q, D, BoolT, StrT, NoneT, SizeOf, UNK, is_unk, Arr, Rec, Tup, ListT, DictT, B
from obligations.shape_tables import (model_attrs, COMMON_SIGS, M, AR, Tmpl, Clu, Chan, Spike, KA, CNT)

FLOOR = 19
EXPLANATION = ('shape engine over the grouping utilities of phylib/io/array.py and the model queries built on them (key / value kinds, '
               'consistency of the permutation applied to ids and labels, table-vs-query index spaces, mean-vs-sum dimension), plus '
               'structural rules pairing keys with boundary ranges and requiring a stable sort')
TRUSTED = ['python ast', 'NumPy transfer rules of vlib/shape.py', 'np.argsort(kind=mergesort|stable) is stable; np.nonzero / np.unique return increasing values']
ASSUMPTIONS = ['cluster ids are non-negative integers']


def flush(ctx, S, label):
    n = 0
    for r in S.reports:
        n += 1
        ctx.violated('C07.A0', r.fi, r.node, '[%s] %s' % (label, r.msg))
    return n


def run(ctx):
    repo = ctx.repo
    nrep = 0
    spc = repo.func(AR, '_spikes_per_cluster')
    scp, sip = spc.params[0], spc.params[1]
    for given in (False, True):
        S = Shape(repo, inline_depth=1)
        ids = Arr((Spike,), Ix(B('SpikeId'))) if given else NoneT()
        res = S.result(spc, {scp: Arr((Spike,), Ix(Clu)), sip: ids})
        lab = 'spike ids given' if given else 'default spike ids'
        nrep += flush(ctx, S, '_spikes_per_cluster, ' + lab)
        if isinstance(res, DictT):
            ctx.check(isinstance(res.key, Ix) and res.key.space is Clu, 'C07.A1', spc, lab + ' keys', '%s: groups are keyed by cluster id' % lab, '%s: groups are keyed by %s' % (lab, res.key))
            v = res.val
            want = B('SpikeId') if given else Spike
            ctx.check(isinstance(v, Arr) and isinstance(v.elem, Ix) and v.elem.space is want, 'C07.A1', spc, lab + ' values', '%s: groups hold %s' % (lab, 'the supplied spike ids' if given else 'spike indices'),
                      '%s: groups hold %s' % (lab, v))
            if isinstance(v, Arr) and v.axes:
                perm = [s for s in v.axes[0].chain() if s.kind == 'Perm']
                ctx.check(bool(perm) and perm[0].parent is Spike and isinstance(perm[0].info.get('keyelem'), Ix) and perm[0].info['keyelem'].space is Clu, 'C07.A1', spc, lab + ' order',
                          '%s: a group is a contiguous range of the spikes ordered by cluster id' % lab, '%s: a group is a range of %s' % (lab, v.axes[0]))
                if perm:
                    ctx.check(perm[0].info.get('stable') is True or _groups_sorted(spc), 'C07.K1', spc, lab + ' stability',
                              'the ordering by cluster id is stable: within a group the spikes stay in increasing order',
                              'np.argsort is not stable here (kind=%s) and the groups are not sorted afterwards: groups are not increasing' % _kind(spc))
        else:
            ctx.undecided('C07.A1', spc, '%s: result %s' % (lab, res))
    # structural pairing of keys and ranges
    dcs = spc.nodes(ast.DictComp)
    okp = False
    if dcs:
        dc = dcs[0]
        i = unparse(dc.generators[0].target)
        k, v = unparse(dc.key).replace(' ', ''), unparse(dc.value).replace(' ', '')
        it = unparse(dc.generators[0].iter).replace(' ', '')
        import re
        m1 = re.fullmatch(r'(\w+)\[%s\]' % i, k)
        m2 = re.fullmatch(r'(\w+)\[(\w+)\[%s\]:(\w+)\[%s\+1\]\]' % (i, i), v)
        if m1 and m2 and m2.group(2) == m2.group(3):
            keys, vals, bnd = m1.group(1), m2.group(1), m2.group(2)
            kd = spc.unique_def(keys)
            okp = kd is not None and unparse(kd).replace(' ', '').endswith('[%s]' % bnd) and it == 'range(len(%s)-1)' % keys
            last = [a for a in spc.nodes(ast.Assign) if isinstance(a.targets[0], ast.Subscript) and unparse(a.targets[0]).replace(' ', '').endswith('[%s[-1]]' % keys)]
            okl = bool(last) and unparse(last[0].value).replace(' ', '') == '%s[%s[-1]:]' % (vals, bnd)
            ctx.check(okl, 'C07.A1', spc, last[0] if last else '_spikes_per_cluster', 'the last cluster gets the spikes from the last boundary to the end', 'the last group is not values[last boundary:] under the last key')
    ctx.check(okp, 'C07.A1', spc, dcs[0] if dcs else '_spikes_per_cluster', 'key i is the cluster at boundary i and its group is the range boundary i .. boundary i+1 of the same boundary array',
              'keys and group ranges are not paired through one boundary array')
    a = {unparse(x.targets[0]).replace(' ', ''): unparse(x.value).replace(' ', '') for x in spc.nodes(ast.Assign)}
    okb = a.get('diff[0]') == '1' and a.get('diff[1:]') == 'np.diff(%s)' % scp and any(v in ('np.nonzero(diff>0)[0]', 'np.flatnonzero(diff>0)', 'np.where(diff>0)[0]', 'np.nonzero(diff!=0)[0]') for v in a.values())
    ctx.check(okb, 'C07.A1', spc, 'boundaries', 'group boundaries = position 0 and every position where the sorted label increases', 'boundaries are not {0} + positions where the sorted labels increase')
    perm_same = [x for x in spc.nodes(ast.Assign) if isinstance(x.value, ast.Subscript) and unparse(x.value.slice) == 'rel_spikes']
    ctx.check({unparse(x.value.value) for x in perm_same} == {sip, scp}, 'C07.A1', spc, 'same permutation', 'spike ids and labels are reordered by the same permutation', 'spike ids and labels are not reordered by the same permutation')
    dflt = [x for x in spc.nodes(ast.Assign) if unparse(x.targets[0]) == sip]
    ctx.check(bool(dflt) and unparse(dflt[0].value).replace(' ', '').startswith('np.arange(len(%s))' % scp), 'C07.A1', spc, dflt[0] if dflt else 'default ids', 'default spike ids are 0..n-1', 'default spike ids are not np.arange(len(spike_clusters))')
    emp = [i for i in spc.nodes(ast.If) if any(isinstance(r, ast.Return) and unparse(r.value) == '{}' for r in i.body)]
    ctx.check(bool(emp), 'C07.A1', spc, emp[0].test if emp else 'empty', 'no spikes -> no groups', 'the empty input does not return an empty dictionary')
    # ---- A2
    sic = repo.func(AR, '_spikes_in_clusters')
    S = Shape(repo, inline_depth=1)
    res = S.result(sic, {sic.params[0]: Arr((Spike,), Ix(Clu)), sic.params[1]: Arr((B('Q'),), Ix(Clu))})
    nrep += flush(ctx, S, '_spikes_in_clusters')
    vals = [v for n, v in S.run(sic, {sic.params[0]: Arr((Spike,), Ix(Clu)), sic.params[1]: Arr((B('Q'),), Ix(Clu))}) if isinstance(v, Arr) and v.axes and v.axes[0].kind == 'Sub']
    ok = bool(vals) and isinstance(vals[0].elem, Ix) and vals[0].elem.space is Spike and vals[0].sorted
    ctx.check(ok, 'C07.A2', sic, '_spikes_in_clusters', 'spikes of a set of clusters = increasing indices where the assignment is in the set', '_spikes_in_clusters does not return the increasing indices of the members (%s)' % vals)
    r = [x for x in sic.returns() if x.value is not None]
    t = unparse(r[-1].value).replace(' ', '') if r else ''
    ctx.check(t in ('np.nonzero(np.isin(%s,%s))[0]' % tuple(sic.params[:2]), 'np.flatnonzero(np.isin(%s,%s))' % tuple(sic.params[:2]), 'np.where(np.isin(%s,%s))[0]' % tuple(sic.params[:2]),
                    'np.nonzero(np.in1d(%s,%s))[0]' % tuple(sic.params[:2])), 'C07.A2', sic, r[-1] if r else '_spikes_in_clusters', 'membership test of the assignment vector in the requested ids',
              'the selection is `%s`, not nonzero(isin(assignments, requested))' % t)
    cls = repo.cls(M, 'TemplateModel')
    for mname, tab, kind in (('get_cluster_spikes', 'spike_clusters', Clu), ('get_template_spikes', 'spike_templates', Tmpl)):
        m = repo.lookup_method(cls, mname)
        if m is None:
            raise AnchorMissing('TemplateModel.%s' % mname)
        S = Shape(repo, selfattrs=model_attrs(), inline_depth=2)
        res = S.result(m, {'self': UNK, m.params[1]: Ix(kind)})
        nrep += flush(ctx, S, mname)
        ok = isinstance(res, Arr) and isinstance(res.elem, Ix) and res.elem.space is Spike
        ctx.check(ok and not S.reports, 'C07.A2', m, mname, '%s selects spike indices by the %s vector' % (mname, tab), '%s does not select spikes through self.%s (%s)' % (mname, tab, [x.msg for x in S.reports][:1] or res))
    tc = repo.lookup_method(cls, 'get_template_counts')
    S = Shape(repo, selfattrs=model_attrs(), inline_depth=3)
    res = S.result(tc, {'self': UNK, tc.params[1]: Ix(Clu)})
    nrep += flush(ctx, S, 'get_template_counts')
    ctx.check(isinstance(res, Arr) and res.axes == (Tmpl,) and isinstance(res.elem, Q) and res.elem.d() == {'cnt': 1}, 'C07.A2', tc, 'get_template_counts',
              'histogram over all templates of the templates of the cluster\'s spikes', 'get_template_counts returns %s, expected counts over the full template table' % res)
    # ---- A3
    gm = repo.func(AR, 'grouped_mean')
    S = Shape(repo, sigs={k: v for k, v in COMMON_SIGS.items() if k == '_index_of'}, inline_depth=2)
    res = S.result(gm, {gm.params[0]: Arr((Spike,), KA), gm.params[1]: Arr((Spike,), Ix(Clu))})
    nrep += flush(ctx, S, 'grouped_mean')
    if isinstance(res, Arr) and isinstance(res.elem, Q):
        ctx.check(res.elem.d() == {'ka': 1}, 'C07.A3', gm, 'grouped_mean dimension', 'grouped_mean is sum / count (dimension of the averaged quantity)',
                  'grouped_mean has dimension %s: a sum over spikes (count factor) is not a mean' % res.elem)
    else:
        ctx.undecided('C07.A3', gm, 'grouped_mean returns %s' % res)
    a = {unparse(x.targets[0]).replace(' ', ''): unparse(x.value).replace(' ', '') for x in gm.nodes(ast.Assign)}
    okg = a.get('cluster_ids') == '_unique(%s)' % gm.params[1] and a.get('spike_clusters_rel') == '_index_of(%s,cluster_ids)' % gm.params[1] and a.get('spike_counts') == 'np.bincount(spike_clusters_rel)'
    ctx.check(okg, 'C07.A3', gm, 'grouped_mean grouping', 'groups = present ids in increasing order; counts per relative id', 'grouped_mean does not group by the positions of the present ids')
    un = repo.func(AR, '_unique')
    r = [x for x in un.returns() if x.value is not None]
    t = unparse(un.expand(r[-1].value)).replace(' ', '') if r else ''
    a = {unparse(x.targets[0]).replace(' ', ''): unparse(x.value).replace(' ', '') for x in un.nodes(ast.Assign)}
    ok = t in ('np.nonzero(np.bincount(x))[0]', 'np.nonzero(bc)[0]') and any(v == 'x[x>=0]' for v in a.values())
    ctx.check(ok, 'C07.A3', un, r[-1] if r else '_unique', '_unique = increasing ids with a non-zero count among the non-negative entries', '_unique is not nonzero(bincount(x[x >= 0]))')
    fl = repo.func(AR, '_flatten_per_cluster')
    r = [x for x in fl.returns() if x.value is not None]
    t = unparse(r[-1].value).replace(' ', '') if r else ''
    ctx.check(t.startswith('np.unique(np.concatenate(list(%s.values())))' % fl.params[0]), 'C07.A3', fl, r[-1] if r else '_flatten_per_cluster', 'flatten = sorted distinct union of the groups',
              '_flatten_per_cluster is not np.unique(np.concatenate(groups))')
    from obligations.shape_tables import check_index_of
    check_index_of(ctx, 'C07.A3')
    if nrep == 0:
        ctx.holds('C07.A0', spc, 'no index-space conflict in the grouping utilities and the model queries (8 analyses)', 'grouping utilities')


def _kind(fi):
    for c in fi.calls():
        if (dotted(c.func) or '').endswith('argsort'):
            k = q.kwarg(c, 'kind')
            return const_value(k) if k is not None else 'default quicksort'
    return '?'


def _groups_sorted(fi):
    return any((dotted(c.func) or '') in ('np.sort', 'sorted') for c in fi.calls())


LEVEL_TEXT = ('Static typing of the spike-grouping utilities and the model queries built on them (what keys and values are, that ids and labels '
              'are reordered by one stable permutation, that keys and group ranges come from one boundary array, that queries compare ids '
              'with the right assignment vector, that means are sums divided by counts).')
LEVEL_NOTE = ('Trusted: NumPy transfer rules; stability of mergesort/stable argsort; increasing output of nonzero/unique. Not decided: partition at value level.')
TECHNIQUE = 'static analysis: abstract interpretation (index-space typing) plus structural pairing rules on the ast'
