"""C05 - template records are aligned with their channel list (dense and sparse storage).

Decided (shape engine: index-space / dimension / provenance typing of get_template with its callees analysed inline)
  A0  no definite index-space, extent or dimension conflict anywhere in the call tree of get_template
  A1  the returned record (dense default, dense with explicit channels, sparse) has its waveform columns, its channel_ids and its
      amplitude vector on ONE axis space
  A2  that axis is a permutation by DECREASING key, the key being the peak-to-peak (over samples) amplitude of exactly those
      columns; best_channel is the arg-max over channels of that amplitude and is an index into the channel space
  A3  the unwhitened waveform has the dimension of the recorded signal: stored templates (amp x whitening) times the INVERSE
      whitening matrix; with sparse storage the sub-matrix is taken on the same channel list as the columns
  A4  get_closest_channels: ascending argsort of a squared distance to the given channel, first n
  D1  dense channel list = (amplitude >= threshold x peak) AND (n nearest channels of the peak channel) AND (same shank);
      sparse list = stored channels minus (-1) minus signal-free, the same masks applied to data and ids
  K1  the threshold comparison is >= (the peak channel itself always passes)
  +   sparse storage: NOTHING ELSE is dropped - every step from the stored slots to the returned list is one of the two masks, the amplitude order or its reversal
      (a truncation or a further mask is a violation)
  +   A2: the amplitude vector is not read from a freshly allocated buffer filled at an index subset only (`partialfill`): entry j is the amplitude of column j
Not decided: numeric values, ties, the 1e-6 signal threshold, the neighbourhood size constant.
"""
import ast

from vlib import q
from vlib.pat import Pat, returned
from vlib.front import unparse, dotted, const_value, AnchorMissing
from vlib.shape import Shape, Space, Ix, Q, D, BoolT, StrT, NoneT, SizeOf, UNK, is_unk, Arr, Rec, Tup, B
from obligations.shape_tables import (flatten_masks, opaque_steps, model_attrs, axis_dir, provenance, mask_text, M, Tmpl, Chan, Samp, Loc, AMP, AMPWH, UM, Shank)

FLOOR = 22          # decided obligations below this = the analysis lost its footing (exit 2); clean tree: 62
RULES = ('C05.A0', 'C05.A1', 'C05.A2', 'C05.A3', 'C05.A4', 'C05.D1', 'C05.K1', 'C05.K2')          # every obligation group must report (holds / violated / undecided): a group that vanishes silently is an analysis error
EXPLANATION = ('shape engine: TemplateModel.get_template is abstractly interpreted with its callees inline (_get_template_dense / _sparse, '
               '_find_best_channels, get_closest_channels, _unwhiten) over typed model attributes; every array is typed by the index space '
               'of each axis, the dimension of its elements and provenance tags (ptp over samples, permutation key and direction, masks); '
               'the returned record is compared with the signature the property implies')
TRUSTED = ['python ast', 'NumPy transfer rules of vlib/shape.py (indexing, reductions, argsort, intersect1d, dot, ix_)', 'attribute signatures of obligations/shape_tables.py']
ASSUMPTIONS = ['model attributes have the axes asserted by _load_data', 'channel ids passed by callers are valid channel indices']



def _positive_floor(tp, v):
    """`max(threshold, c)` / np.maximum / np.clip with a positive constant c: the requested threshold is raised to a floor."""
    if not Pat().any(['max(%s, E_c)' % tp, 'max(E_c, %s)' % tp, 'np.maximum(%s, E_c)' % tp, 'np.maximum(E_c, %s)' % tp, 'np.clip(%s, E_c, REST)' % tp], v):
        return False
    others = [a for a in v.args[:2] if not (isinstance(a, ast.Name) and a.id == tp)]
    cv = const_value(others[0]) if len(others) == 1 else None
    return isinstance(cv, (int, float)) and not isinstance(cv, bool) and cv > 0

def record_checks(ctx, fi, label, rec, S, explicit=False, whitened=False):
    if not isinstance(rec, Rec):
        ctx.undecided('C05.A1', fi, '%s: the result is %s, not a record' % (label, rec))
        return
    need = ('template', 'channel_ids', 'amplitude', 'best_channel')
    miss = [k for k in need if k not in rec.fields]
    if miss:
        ctx.violated('C05.A1', fi, label, '%s: the returned record lacks %s' % (label, miss))
        return
    tpl, ch, amp, best = (rec.fields[k] for k in need)
    if not (isinstance(tpl, Arr) and isinstance(ch, Arr) and isinstance(amp, Arr) and len(tpl.axes) == 2 and len(ch.axes) == 1 and len(amp.axes) == 1):
        ctx.undecided('C05.A1', fi, '%s: record fields are %s / %s / %s' % (label, tpl, ch, amp))
        return
    axes = {'template columns': tpl.axes[1], 'channel_ids': ch.axes[0], 'amplitude': amp.axes[0]}
    known = {k: v for k, v in axes.items() if not is_unk(v)}
    if len(known) < 3:
        ctx.undecided('C05.A1', fi, '%s: an axis of the record could not be typed (%s)' % (label, axes))
    else:
        same = len({id(v) for v in known.values()}) == 1
        ctx.check(same, 'C05.A1', fi, label, '%s: waveform columns, channel_ids and amplitude share one axis (%s)' % (label, tpl.axes[1]),
                  '%s: the record is misaligned - %s' % (label, '; '.join('%s on %s' % kv for kv in axes.items())))
        if not same:
            return
    ctx.check(tpl.axes[0] is Samp, 'C05.A1', fi, label, '%s: waveform rows are samples' % label, '%s: waveform rows are over %s' % (label, tpl.axes[0]), value=tpl)
    ctx.check(isinstance(ch.elem, Ix) and ch.elem.space is Chan, 'C05.A1', fi, label, '%s: channel_ids index the channel space' % label, '%s: channel_ids hold %s' % (label, ch.elem), value=getattr(ch, 'elem', ch))
    # A3 dimension
    want = AMPWH if whitened else AMP
    if isinstance(tpl.elem, Q):
        ctx.check(tpl.elem.dim == want.dim, 'C05.A3', fi, label, '%s: waveform has dimension %s' % (label, want),
                  '%s: waveform has dimension %s, expected %s (stored templates x inverse whitening; the whitening matrix instead of its inverse gives amp*wh^2)' % (label, tpl.elem, want), value=getattr(tpl, 'elem', tpl))
    else:
        ctx.undecided('C05.A3', fi, '%s: waveform element type %s' % (label, tpl.elem))
    # amplitude = ptp over samples of the waveform dimension
    if isinstance(amp.elem, Q):
        ctx.check('ptp:Samp' in amp.elem.tags and amp.elem.dim == want.dim, 'C05.A2', fi, label, '%s: amplitude = max - min over samples of the returned waveform' % label,
                  '%s: amplitude is %s, expected the peak-to-peak over samples of the returned (%s) waveform' % (label, amp.elem, want), value=getattr(amp, 'elem', amp))
        # entry j is the amplitude of COLUMN j: not a value looked up in a buffer that was filled at other channels only (zero / fill value for the rest)
        if 'partialfill' in amp.elem.tags:
            ctx.violated('C05.A2', fi, label + ' amplitude source', '%s: the amplitude vector is read from a buffer that was filled only at an index subset (the automatically selected channels): a '
                         'requested channel outside that subset gets the fill value, not the peak-to-peak amplitude of its column' % label)
    else:
        ctx.undecided('C05.A2', fi, '%s: amplitude element type %s' % (label, amp.elem))
    # A2 ordering
    if not explicit:
        d, perm = axis_dir(ch.axes[0])
        if perm is None:
            ctx.violated('C05.A2', fi, label, '%s: the channel list is not ordered by amplitude (axis %s is not a permutation)' % (label, ch.axes[0]))
        else:
            ke = perm.info.get('keyelem')
            ctx.check(d == 'desc', 'C05.A2', fi, label, '%s: channels are in order of decreasing key' % label, '%s: channels are in order of INCREASING amplitude (peak channel last)' % label)
            ctx.check(isinstance(ke, Q) and 'ptp:Samp' in ke.tags, 'C05.A2', fi, label, '%s: the ordering key is the peak-to-peak amplitude over samples' % label,
                      '%s: the ordering key is %s, not the peak-to-peak amplitude' % (label, ke))
            ctx.check(isinstance(ke, Q) and ke.dim == want.dim, 'C05.A2', fi, label, '%s: the ordering key is the amplitude of the returned (%s) waveform' % (label, want),
                      '%s: the ordering key has dimension %s but the returned waveform %s: channels are ordered by another waveform than the one returned' % (label, ke, want))
    # best channel
    tag = getattr(best, 'tag', None)
    okb = isinstance(best, Ix) and best.space is Chan
    ctx.check(okb, 'C05.A2', fi, label, '%s: best_channel is an index into the channel space' % label, '%s: best_channel is %s' % (label, best))
    if isinstance(best, Ix) and tag is not None:
        how, arr, el = tag
        ctx.check(how == 'argmax' and isinstance(el, Q) and 'ptp:Samp' in el.tags, 'C05.A2', fi, label, '%s: best_channel = argmax of the peak-to-peak amplitude' % label,
                  '%s: best_channel is the %s of %s' % (label, how, el))


def run(ctx):
    repo = ctx.repo
    cls = repo.cls(M, 'TemplateModel')
    gt = repo.lookup_method(cls, 'get_template')
    if gt is None:
        raise AnchorMissing('TemplateModel.get_template')
    for name in ('_get_template_dense', '_get_template_sparse', '_find_best_channels', '_unwhiten'):
        if repo.lookup_method(cls, name) is None:
            raise AnchorMissing('TemplateModel.%s' % name)
    repo.func(M, 'get_closest_channels')
    req = Arr((B('ReqC'),), Ix(Chan))
    cases = [
        ('dense, default channels', model_attrs(), {'template_id': Ix(Tmpl), 'channel_ids': NoneT(), 'amplitude_threshold': NoneT(), 'unwhiten': BoolT(True)}, False, False),
        ('dense, whitened', model_attrs(), {'template_id': Ix(Tmpl), 'channel_ids': NoneT(), 'amplitude_threshold': Q(), 'unwhiten': BoolT(False)}, False, True),
        ('dense, explicit channels', model_attrs(), {'template_id': Ix(Tmpl), 'channel_ids': req, 'amplitude_threshold': NoneT(), 'unwhiten': BoolT(True)}, True, False),
        ('sparse', model_attrs(sparse=True), {'template_id': Ix(Tmpl), 'channel_ids': NoneT(), 'amplitude_threshold': NoneT(), 'unwhiten': BoolT(True)}, False, False),
        ('sparse, whitened', model_attrs(sparse=True), {'template_id': Ix(Tmpl), 'channel_ids': NoneT(), 'amplitude_threshold': NoneT(), 'unwhiten': BoolT(False)}, False, True),
    ]
    all_reports = []
    for label, attrs, params, explicit, whitened in cases:
        S = Shape(repo, selfattrs=attrs, inline_depth=6)
        env = {'self': UNK}
        env.update(params)
        rec = S.result(gt, env)
        for r in S.reports:
            all_reports.append((label, r))
        record_checks(ctx, gt, label, rec, S, explicit=explicit, whitened=whitened)
        if label == 'dense, default channels':
            dense_rec, dense_S = rec, S
        if label == 'sparse':
            sparse_rec = rec
    seen = set()
    for label, r in all_reports:
        if r.key() in seen:
            continue
        seen.add(r.key())
        ctx.violated('C05.A0', r.fi, r.node, '[%s] %s' % (label, r.msg))
    if not all_reports:
        ctx.holds('C05.A0', gt, 'no index-space / extent / dimension conflict in the call tree of get_template (5 configurations)', 'get_template')
    # ---- D1 / K1 dense provenance
    if isinstance(dense_rec, Rec) and isinstance(dense_rec.fields.get('channel_ids'), Arr):
        sp = dense_rec.fields['channel_ids'].axes[0]
        prov = provenance(sp)
        masks = flatten_masks([s.info.get('mask') for s in prov if s.kind == 'Sub' and s.info.get('mask')])
        txt = [mask_text(m) for m in masks]
        thr = [m for m in masks if isinstance(m[1], Q) and 'ptp:Samp' in m[1].tags and m[0] in ('GtE', 'Gt', 'LtE', 'Lt')]
        shank = [m for m in masks if isinstance(m[1], Ix) and m[1].space is Shank and isinstance(m[2], Ix) and m[2].space is Shank and m[0] == 'Eq']
        near = [s for s in prov if s.kind == 'Slice' and s.parent is not None and s.parent.kind == 'Perm' and s.parent.parent is Chan]
        opaque = opaque_steps(prov)

        def present(found, what, ok_msg, bad_msg):
            # absence is definite only when every step of the derivation of the channel list was understood
            if found:
                ctx.holds('C05.D1', gt, ok_msg, what)
            elif opaque:
                ctx.undecided('C05.D1', gt, '%s: not found, but the derivation of the channel list has steps that were not understood (%s)' % (what, opaque[:2]))
            else:
                ctx.violated('C05.D1', gt, what, bad_msg)
        present(bool(thr), 'threshold mask', 'the dense channel list is restricted to channels whose amplitude reaches the threshold fraction of the peak',
                'the dense channel list is not restricted by the amplitude threshold (masks: %s)' % txt)
        for m in thr:
            ctx.check(m[0] == 'GtE', 'C05.K1', gt, m[3], 'threshold test is amplitude >= threshold x peak',
                      'threshold test is `%s`: with a strict comparison the peak channel is excluded for threshold 1 and signal-free channels pass for 0' % unparse(m[3]))
            rhs = m[2]
            ctx.check(isinstance(rhs, Q) and rhs.dim == m[1].dim, 'C05.K1', gt, m[3], 'the threshold is a fraction of an amplitude (same dimension as the amplitudes)',
                      'amplitudes of dimension %s are compared with %s' % (m[1], rhs))
        present(bool(shank), 'shank mask', 'the dense channel list is restricted to the shank of the peak channel',
                'the dense channel list is not restricted to the shank of the peak channel (masks: %s)' % txt)
        present(bool(near), 'neighbourhood', 'the dense channel list is restricted to the first n channels of a distance ordering',
                'the dense channel list is not restricted to the n nearest channels of the peak channel')
        for s in near:
            perm = s.parent
            ke = perm.info.get('keyelem')
            ctx.check(perm.info.get('dir') == 'asc' and not any(x.kind == 'Rev' for x in s.chain()), 'C05.A4', gt, 'distance ordering', 'nearest channels = ascending distance order',
                      'the neighbourhood is taken from a DESCENDING distance order (the farthest channels)')
            ctx.check(isinstance(ke, Q) and ke.d() == {'um': 2}, 'C05.A4', gt, 'distance key', 'the ordering key is a squared distance between channel positions',
                      'the neighbourhood ordering key is %s, not a squared distance' % ke)
    else:
        ctx.undecided('C05.D1', gt, 'dense record not typed')
    # K2: an explicit threshold of 0 is a request, not "no request": the default may replace None only
    fb = repo.lookup_method(cls, '_find_best_channels')
    tp = fb.params[2] if len(fb.params) > 2 else 'amplitude_threshold'
    subst = [a for a in fb.nodes(ast.Assign) if unparse(a.targets[0]) == tp]
    for a in subst:
        v = a.value
        if isinstance(v, ast.BoolOp) and isinstance(v.op, ast.Or) and unparse(v.values[0]) == tp:
            ctx.violated('C05.K2', fb, a, '`%s` replaces every FALSY threshold by the model default: an explicit threshold of 0 (keep all neighbouring channels) is ignored '
                         'when the model default is not 0' % unparse(a))
        elif isinstance(v, ast.IfExp) and q.simple_compare(v.test) and q.simple_compare(v.test)[1] in ('is not', 'is') and const_value(q.simple_compare(v.test)[2]) is None:
            ctx.holds('C05.K2', fb, 'the model default replaces the threshold only when none (None) is given; 0 is honoured', a)
        elif any(isinstance(i_, ast.If) and Pat().m('%s is None' % tp, i_.test) for i_ in fb.ancestors(a)):
            ctx.holds('C05.K2', fb, 'the model default replaces the threshold only when none (None) is given; 0 is honoured', a)
        elif _positive_floor(tp, v):
            ctx.violated('C05.K2', fb, a, '`%s` raises every requested threshold to a positive floor: with a threshold of 0 (the model default) channels whose amplitude is 0 or below '
                         'the floor times the peak are dropped although 0 >= 0 * peak lists them' % unparse(a))
        else:
            ctx.undecided('C05.K2', fb, 'default substitution `%s` not recognised' % unparse(a), a)
    for i in fb.nodes(ast.If):
        t = unparse(i.test).replace(' ', '')
        if t == 'not%s' % tp and any(isinstance(x, ast.Assign) and unparse(x.targets[0]) == tp for x in i.body):
            ctx.violated('C05.K2', fb, i, '`if not %s:` replaces an explicit threshold of 0 by the model default' % tp)
    fwd = [c for c in repo.lookup_method(cls, '_get_template_dense').calls() if q.method_name(c) == '_find_best_channels']
    gtd = repo.lookup_method(cls, '_get_template_dense')
    fwd = [(f_, c) for f_ in repo.transparent_closure(gtd) for c in f_.calls() if q.method_name(c) == '_find_best_channels']
    thr_p = 'amplitude_threshold'
    thr_a = q.arg(fwd[0][1], 1, thr_p) if fwd else None
    thr_x = fwd[0][0].expand(thr_a) if thr_a is not None else None
    ctx.tri(thr_x is not None and fwd[0][0] is gtd and Pat().m(thr_p, thr_x),
            bool(fwd) and fwd[0][0] is gtd and (thr_a is None or isinstance(thr_x, ast.Constant) or (isinstance(thr_x, ast.Attribute) and isinstance(thr_x.value, ast.Name) and thr_x.value.id == 'self')),
            'C05.K2', gtd, fwd[0][1] if fwd else '_get_template_dense', "the caller's threshold is forwarded unchanged",
            "the caller's threshold is not forwarded to _find_best_channels (`%s`)" % (unparse(thr_a) if thr_a is not None else 'no argument'), 'forwarding of the threshold not recognised')
    # get_closest_channels details: distance to the given channel, first n
    gc = repo.func(M, 'get_closest_channels')
    S = Shape(repo, inline_depth=2)
    out = S.result(gc, {'channel_positions': Arr((Chan, B('XY')), UM), 'channel_index': Ix(Chan), 'n': Q()})
    sl = [n for n in gc.nodes(ast.Subscript) if isinstance(n.slice, ast.Slice) and n.slice.lower is None and n.slice.upper is not None and unparse(n.slice.upper) == gc.params[2]]
    sl = [n for n in gc.nodes(ast.Subscript) if Pat().any(['E_o[:%s]' % gc.params[2], 'E_o[0:%s]' % gc.params[2]], n)]
    sl_bad = [n for n in gc.nodes(ast.Subscript) if Pat().any(['E_o[-%s:]' % gc.params[2], 'E_o[%s:]' % gc.params[2], 'E_o[:%s + E_k]' % gc.params[2], 'E_o[:%s - E_k]' % gc.params[2], 'E_o[1:%s]' % gc.params[2],
                                                              'E_o[1:%s + 1]' % gc.params[2]], n)]
    ctx.tri(bool(sl) and not S.reports, bool(S.reports) or (not sl and bool(sl_bad)), 'C05.A4', gc, (sl or sl_bad or ['get_closest_channels'])[0], 'the first n entries of the distance order are returned',
            'get_closest_channels does not return the first n entries of the order (%s)' % ([r.msg for r in S.reports][:1] or [unparse(x) for x in sl_bad][:1]), 'selection of the n nearest channels not recognised')
    refs = [n for n in gc.nodes(ast.Subscript) if Pat().m(gc.params[0], n.value) and not isinstance(n.slice, (ast.Slice, ast.Tuple))]
    x0 = [n for n in refs if Pat().any(['%s[%s]' % (gc.params[0], gc.params[1]), '%s[%s, :]' % (gc.params[0], gc.params[1])], n)] + \
         [n for n in gc.nodes(ast.Subscript) if Pat().any(['%s[%s, :]' % (gc.params[0], gc.params[1]), '%s[%s, ...]' % (gc.params[0], gc.params[1])], n)]
    other_ref = [n for n in refs if not Pat().m('%s[%s]' % (gc.params[0], gc.params[1]), n) and (isinstance(n.slice, ast.Constant) or (isinstance(n.slice, ast.Name) and n.slice.id != gc.params[1]))]
    ctx.tri(bool(x0), not x0 and bool(other_ref), 'C05.A4', gc, (x0 or other_ref or ['get_closest_channels'])[0], 'distances are measured from the position of the given channel',
            'distances are not measured from channel_positions[channel_index] (`%s`)' % (unparse(other_ref[0]) if other_ref else ''), 'reference position of the distances not recognised')
    fbc = repo.lookup_method(cls, '_find_best_channels')
    call = [c for c in fbc.calls() if dotted(c.func) == 'get_closest_channels']
    if not call or len(call[0].args) < 3:
        ctx.undecided('C05.D1', fbc, 'the call computing the neighbourhood of the peak channel was not recognised')
    else:
        a0, a1, a2 = call[0].args[:3]
        peak = fbc.expand(a1)
        is_peak = any(isinstance(n, ast.Call) and ((dotted(n.func) or '').endswith('argmax') or q.method_name(n) == 'argmax') for n in ast.walk(peak)) or \
            (isinstance(a1, ast.Name) and any(isinstance(x, ast.Assign) and isinstance(x.targets[0], ast.Name) and x.targets[0].id == a1.id and
                                              any(isinstance(n, ast.Call) and ((dotted(n.func) or '').endswith('argmax') or q.method_name(n) == 'argmax') for n in ast.walk(x.value))
                                              for x in fbc.nodes(ast.Assign)))
        g = Pat().m('self.channel_positions', a0) and is_peak and Pat().m('self.n_closest_channels', a2)
        b_ = not g and (not Pat().m('self.channel_positions', a0) or not Pat().m('self.n_closest_channels', a2) or isinstance(peak, ast.Constant))
        if g:
            ctx.holds('C05.D1', fbc, 'the neighbourhood is that of the PEAK channel with the model\'s neighbourhood size', call[0])
        elif b_:
            ctx.violated('C05.D1', fbc, call[0], 'the neighbourhood is `%s`, not get_closest_channels(all channel positions, peak channel, n_closest_channels)' % unparse(call[0]))
        else:
            ctx.undecided('C05.D1', fbc, 'arguments of the neighbourhood call not recognised', call[0])
    # ---- D1 sparse provenance
    if isinstance(sparse_rec, Rec) and isinstance(sparse_rec.fields.get('channel_ids'), Arr):
        prov = provenance(sparse_rec.fields['channel_ids'].axes[0])
        masks = flatten_masks([s.info.get('mask') for s in prov if s.kind == 'Sub' and s.info.get('mask')])
        used = [m for m in masks if isinstance(m[1], Ix) and m[1].space is Chan and m[0] == 'NotEq' and -1 in (const_value(m[3].comparators[0]), const_value(m[3].left))]
        sig = [m for m in masks if isinstance(m[1], Q) and m[0] in ('Gt', 'GtE') and any(t.startswith('max:Samp') for t in m[1].tags)]
        roots = [s for s in prov if s.kind == 'base']
        opaque = opaque_steps(prov)
        for found, what, ok_msg, bad_msg in ((bool(used), 'unused channels', 'sparse: unused (-1) channel slots are dropped', 'sparse: unused (-1) channel slots are not dropped'),
                                             (bool(sig), 'signal-free channels', 'sparse: signal-free columns are dropped', 'sparse: signal-free columns are not dropped'),
                                             (Loc in roots, 'stored slots', 'sparse: the channel list is drawn from the stored slots of the template', 'sparse: the channel list is not drawn from the stored slots')):
            if found:
                ctx.holds('C05.D1', gt, ok_msg, what)
            elif opaque:
                ctx.undecided('C05.D1', gt, '%s: not found, but the derivation of the channel list has steps that were not understood (%s)' % (what, opaque[:2]))
            else:
                ctx.violated('C05.D1', gt, what, bad_msg)
    else:
        ctx.undecided('C05.D1', gt, 'sparse record not typed')
    # the restrictions must hold on EVERY path through the sparse getter (a filter applied under a condition leaves a path without it)
    gts = repo.lookup_method(cls, '_get_template_sparse')
    S2 = Shape(repo, selfattrs=model_attrs(sparse=True), inline_depth=4)
    paths = S2.results(gts, {'self': UNK, 'template_id': Ix(Tmpl), 'unwhiten': BoolT(True)})
    recs = [(n_, v_) for n_, v_ in paths if isinstance(v_, Rec) and isinstance(v_.fields.get('channel_ids'), Arr)]
    if not recs:
        ctx.undecided('C05.D1', gts, 'sparse getter: no typed record on any path')
    else:
        lacking, further, further_und = [], [], []
        for n_, v_ in recs:
            prov = provenance(v_.fields['channel_ids'].axes[0])
            masks = flatten_masks([s_.info.get('mask') for s_ in prov if s_.kind == 'Sub' and s_.info.get('mask')])
            used = [m for m in masks if isinstance(m[1], Ix) and m[1].space is Chan and m[0] == 'NotEq' and -1 in (const_value(m[3].comparators[0]), const_value(m[3].left))]
            sig = [m for m in masks if isinstance(m[1], Q) and m[0] in ('Gt', 'GtE') and any(t.startswith('max:Samp') for t in m[1].tags)]
            if opaque_steps(prov):
                continue
            if not used:
                lacking.append((n_, 'unused (-1) channel slots are not dropped'))
            if not sig:
                lacking.append((n_, 'signal-free columns are not dropped'))
            # ... and nothing else is dropped: every step of the derivation is one of the two masks, the ordering permutation or its reversal
            ok_masks = {id(m_) for m_ in used + sig}
            for s_ in prov:
                if s_.kind in ('base', 'Perm', 'Rev'):
                    continue
                if s_.kind == 'Sub':
                    ms = flatten_masks([s_.info.get('mask')]) if s_.info.get('mask') else []
                    if ms and all(id(m_) in ok_masks or any(m_ is u_ for u_ in used + sig) for m_ in ms):
                        continue
                    if not ms:
                        further_und.append((n_, 'a restriction step without a readable mask'))
                        continue
                    further.append((n_, 'the mask `%s`' % mask_text([m_ for m_ in ms if not any(m_ is u_ for u_ in used + sig)][0])))
                elif s_.kind == 'Slice':
                    further.append((n_, 'a slice of the ordered list (truncation)'))
                else:
                    further_und.append((n_, 'a step of kind %s' % s_.kind))
        if lacking:
            for n_, why in lacking[:2]:
                ctx.violated('C05.D1', gts, why, 'sparse: on one of the %d paths through _get_template_sparse %s (the filter is applied under a condition)' % (len(recs), why))
        else:
            ctx.holds('C05.D1', gts, 'sparse: unused slots and signal-free columns are dropped on every path through the sparse getter (%d path results)' % len(recs), '_get_template_sparse')
        if further:
            ctx.violated('C05.D1', gts, further[0][1], 'sparse: the channel list is further restricted by %s: with sparse storage the listed channels are the stored ones minus unused and signal-free ones, '
                         'nothing else (a threshold or a count does not apply)' % further[0][1])
        elif further_und:
            ctx.undecided('C05.D1', gts, 'sparse: the derivation of the channel list goes through %s, which was not understood' % further_und[0][1])
        else:
            ctx.holds('C05.D1', gts, 'sparse: nothing but unused slots and signal-free columns is dropped (every step of the derivation is one of the two masks, the amplitude order or its reversal)', 'channel list')


LEVEL_TEXT = ('Static index-space / dimension / provenance typing of get_template (dense default, dense whitened, explicit channels, sparse, sparse '
              'whitened) with all callees analysed inline: record alignment (columns, channel_ids, amplitude on one axis), descending order by the '
              'peak-to-peak amplitude of the returned waveform, arg-max peak channel, physical dimension of the unwhitened waveform, and the '
              'three restrictions of the dense channel list (threshold >=, n nearest by ascending squared distance, same shank) / the two of the sparse one.')
LEVEL_NOTE = ('Trusted: NumPy transfer rules of the shape engine, attribute signatures (DESIGN App. B). Not decided: numeric values, ties, constants.')
TECHNIQUE = 'static analysis: abstract interpretation (index-space, unit and provenance typing of NumPy code)'
